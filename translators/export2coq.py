#!/usr/bin/env python3
"""T6 — `#[export(...)]` items of src/stdlib*.rs  ->  coq/Gen/GenStdlib.v

usage: export2coq.py <repo_dir> <gen_dir>

Reads
  * src/stdlib.rs and src/stdlib/*.rs : every `#[export(Name)]` module / function, the
    `decls!` blocks (layout of the `std` struct, the SimpleSL-written `operators`);
  * src/variable/type_of.rs          : the `TypeOf` table (Rust type -> SimpleSL type);
  * the `#[var_type(..)]`, `#[return_type(..)]`, `#[name = ".."]` attributes,
and emits plain Coq data (no proofs): for every export its path in `std`, its name, for each
parameter the Rust type, the DECLARED SimpleSL type, the conversion the glue applies
(`TryFrom<&Variable>` target) and what the function body additionally demands of the value
(`match .. _ => unreachable!()`, `.map(Variable::as_int).map(Option::unwrap)`), the Rust return
type and the DECLARED SimpleSL return type.

The macro is mirrored as coded (macros/src/export.rs):
  * a parameter's declared type is the `#[var_type]` attribute if present, else
    `<RustType as TypeOf>::type_of()`;
  * the declared return type is `#[return_type]` if present, else `TypeOf` of the Rust return
    type, `()` when the function has no `->`;
  * private (`Visibility::Inherited`) functions and constants of an exported module are skipped;
  * constants are inserted as `(CONST).into()` — they have no declared type, only the type of
    the value `Into<Variable>` produces.

Anything outside the recognised subset makes the translator fail loudly (exit status 2).
Deterministic; the output file is rewritten only when its content changes.
"""
import os
import re
import sys


class Unsupported(Exception):
    pass


def fail(msg):
    raise Unsupported(msg)


# --------------------------------------------------------------------------- lexing helpers
def strip_comments(src):
    out = []
    i, n = 0, len(src)
    while i < n:
        c = src[i]
        if src.startswith("//", i):
            j = src.find("\n", i)
            i = n if j < 0 else j
        elif src.startswith("/*", i):
            j = src.find("*/", i + 2)
            if j < 0:
                fail("unterminated block comment")
            i = j + 2
        elif c == '"':
            j = i + 1
            while j < n and src[j] != '"':
                j += 2 if src[j] == "\\" else 1
            out.append(src[i:j + 1])
            i = j + 1
        elif c == "'" and re.match(r"'(\\.|[^\\'])'", src[i:]):
            m = re.match(r"'(\\.|[^\\'])'", src[i:])
            out.append(m.group(0))
            i += len(m.group(0))
        else:
            out.append(c)
            i += 1
    return "".join(out)


OPEN = {"(": ")", "[": "]", "{": "}"}
CLOSE = {v: k for k, v in OPEN.items()}


def match_close(src, i):
    """src[i] is an opening bracket; index just after its partner (strings skipped)."""
    stack = []
    n = len(src)
    while i < n:
        c = src[i]
        if c == '"':
            j = i + 1
            while j < n and src[j] != '"':
                j += 2 if src[j] == "\\" else 1
            i = j + 1
            continue
        if c == "'" and re.match(r"'(\\.|[^\\'])'", src[i:]):
            i += len(re.match(r"'(\\.|[^\\'])'", src[i:]).group(0))
            continue
        if c in OPEN:
            stack.append(OPEN[c])
        elif c in CLOSE:
            if not stack or stack.pop() != c:
                fail("unbalanced brackets")
            if not stack:
                return i + 1
        i += 1
    fail("unclosed bracket")


def split_top(s, sep):
    """split on a separator character at bracket depth 0 (angle brackets counted, `->` skipped)."""
    parts, depth, cur = [], 0, []
    i = 0
    while i < len(s):
        c = s[i]
        if s.startswith("->", i):
            cur.append("->")
            i += 2
            continue
        if c in "([{<":
            depth += 1
        elif c in ")]}>":
            depth -= 1
        if c == sep and depth == 0:
            parts.append("".join(cur))
            cur = []
        else:
            cur.append(c)
        i += 1
    if "".join(cur).strip() or parts:
        parts.append("".join(cur))
    return [p.strip() for p in parts]


# --------------------------------------------------------------------------- SimpleSL types
class TyParser:
    """The `type_ident` rule of parser/src/simplesl.pest, restricted to closed types."""

    def __init__(self, text):
        self.toks = re.findall(r"->|[A-Za-z_][A-Za-z_0-9]*|[()\[\]{}|,:!]", text)
        if "".join(self.toks) != re.sub(r"\s+", "", text):
            fail(f"SimpleSL type: unexpected characters in {text!r}")
        self.i = 0
        self.text = text

    def peek(self):
        return self.toks[self.i] if self.i < len(self.toks) else None

    def take(self, t=None):
        x = self.peek()
        if x is None or (t is not None and x != t):
            fail(f"SimpleSL type {self.text!r}: expected {t!r}, found {x!r}")
        self.i += 1
        return x

    def parse(self):
        t = self.multi()
        if self.peek() is not None:
            fail(f"SimpleSL type {self.text!r}: trailing {self.peek()!r}")
        return t

    def multi(self):
        first = self.standard()
        if self.peek() != "|":
            return first
        ms = [first]
        while self.peek() == "|":
            self.take("|")
            ms.append(self.standard())
        return ("union", ms)

    def standard(self):
        t = self.peek()
        if t in ("bool", "int", "float", "string", "any"):
            self.take()
            return t
        if t == "!":
            self.take()
            return "never"
        if t == "mut":
            self.take()
            return ("mut", self.ret())
        if t == "struct":
            self.take()
            self.take("{")
            fs = []
            while self.peek() != "}":
                k = self.take()
                if not re.match(r"[A-Za-z_]", k):
                    fail(f"struct field name {k!r}")
                self.take(":")
                fs.append((k, self.multi()))
                if self.peek() == ",":
                    self.take(",")
            self.take("}")
            return ("struct", fs)
        if t == "[":
            self.take("[")
            if self.peek() == "]":
                self.take("]")
                return ("arr", "never")
            e = self.multi()
            self.take("]")
            return ("arr", e)
        if t == "(":
            self.take("(")
            if self.peek() == ")":
                self.take(")")
                if self.peek() == "->":
                    self.take("->")
                    return ("fun", [], self.ret())
                return "void"
            items = [self.multi()]
            while self.peek() == ",":
                self.take(",")
                items.append(self.multi())
            self.take(")")
            if self.peek() == "->":
                self.take("->")
                return ("fun", items, self.ret())
            if len(items) == 1:
                fail(f"SimpleSL type {self.text!r}: parenthesised type outside a return position")
            return ("tup", items)
        fail(f"SimpleSL type {self.text!r}: identifier/unknown token {t!r} (only closed types are in the subset)")

    def ret(self):
        # return_type_ident = standard_types_ident | "(" multi_ident ")"
        if self.peek() == "(":
            save = self.i
            self.take("(")
            try:
                t = self.multi()
                if self.peek() == ")" and isinstance(t, tuple) and t[0] == "union":
                    self.take(")")
                    return t
            except Unsupported:
                pass
            self.i = save
        return self.standard()


def ident_term(name):
    return "[" + "; ".join(str(ord(c)) for c in name) + "]"


def ty_term(t):
    if isinstance(t, str):
        return {"bool": "TBool", "int": "TInt", "float": "TFloat", "string": "TString",
                "void": "TVoid", "any": "TAny", "never": "TNever"}[t]
    k = t[0]
    if k == "union":
        return "(ty_union [" + "; ".join(ty_term(m) for m in t[1]) + "])"
    if k == "arr":
        return "(TArr " + ty_term(t[1]) + ")"
    if k == "mut":
        return "(TMut " + ty_term(t[1]) + ")"
    if k == "tup":
        return "(TTup [" + "; ".join(ty_term(m) for m in t[1]) + "])"
    if k == "fun":
        return "(TFun [" + "; ".join(ty_term(m) for m in t[1]) + "] " + ty_term(t[2]) + ")"
    if k == "struct":
        return "(TStruct [" + "; ".join(f"({ident_term(n)}, {ty_term(x)})" for n, x in t[1]) + "])"
    fail(f"type node {t!r}")


def ty_text(t):
    """SimpleSL surface text (for comments)."""
    if isinstance(t, str):
        return {"void": "()", "never": "!"}.get(t, t)
    k = t[0]
    if k == "union":
        return "|".join(ty_text(m) for m in t[1])
    if k == "arr":
        return "[" + ty_text(t[1]) + "]"
    if k == "mut":
        return "mut " + ty_text(t[1])
    if k == "tup":
        return "(" + ", ".join(ty_text(m) for m in t[1]) + ")"
    if k == "fun":
        r = ty_text(t[2])
        if isinstance(t[2], tuple) and t[2][0] == "union":
            r = "(" + r + ")"
        return "(" + ", ".join(ty_text(m) for m in t[1]) + ") -> " + r
    if k == "struct":
        return "struct{" + ", ".join(f"{n}: {ty_text(x)}" for n, x in t[1]) + "}"
    fail(f"type node {t!r}")


# --------------------------------------------------------------------------- Rust types
RUST_PREFIXES = ("std::sync::", "std::string::", "std::io::", "std::", "sync::", "string::")


def norm_rust(t):
    t = re.sub(r"\s+", "", t)
    t = re.sub(r"&'[a-z_]+", "&", t)
    for p in ("std::sync::Arc", "sync::Arc"):
        t = t.replace(p, "Arc")
    t = t.replace("std::string::String", "String").replace("string::String", "String")
    t = t.replace("std::io::", "io::")
    return t


def parse_rty(t):
    """normalised Rust type text -> rty term (tuple tree)."""
    t = norm_rust(t)
    simple = {
        "()": "RUnit", "bool": "RBool", "i32": "RI32", "i64": "RI64", "u32": "RU32", "usize": "RUsize",
        "f64": "RF64", "&str": "RRefStr", "Arc<str>": "RArcStr", "String": "RString",
        "Arc<&str>": "RArcRefStr", "Arc<Array>": "RArcArray", "Array": "RArray", "&Array": "RRefArray",
        "&[Variable]": "RRefSlice", "Arc<[Variable]>": "RArcSlice", "&Variable": "RRefVariable",
        "Variable": "RVariable", "io::Error": "RIoError",
    }
    if t in simple:
        return simple[t]
    m = re.fullmatch(r"Option<(.*)>", t)
    if m:
        return ("ROption", parse_rty(m.group(1)))
    m = re.fullmatch(r"io::Result<(.*)>", t)
    if m:
        return ("RResult", parse_rty(m.group(1)), "RIoError")
    m = re.fullmatch(r"Result<(.*)>", t)
    if m:
        parts = split_top(m.group(1), ",")
        if len(parts) != 2:
            fail(f"Rust type {t!r}: Result needs two arguments")
        if parts[1] == "ExecError":
            return ("RResultExec", parse_rty(parts[0]))
        return ("RResult", parse_rty(parts[0]), parse_rty(parts[1]))
    fail(f"Rust type {t!r} is outside the subset")


def rty_term(r):
    if isinstance(r, str):
        return r
    return "(" + r[0] + " " + " ".join(rty_term(x) for x in r[1:]) + ")"


# TryFrom<&Variable> targets of src/variable/try_from.rs that can be a parameter type
CONVERSIONS = {
    "RBool": "CvBool", "RI64": "CvI64", "RF64": "CvF64", "RArcStr": "CvArcStr", "RRefStr": "CvRefStr",
    "RArcArray": "CvArcArray", "RRefArray": "CvRefArray", "RRefSlice": "CvRefSlice",
    "RRefVariable": "CvRefVariable",
}
TAG = {"Bool": "KBool", "Int": "KInt", "Float": "KFloat", "String": "KString", "Function": "KFun",
       "Array": "KArr", "Tuple": "KTup", "Mut": "KMut", "Struct": "KStruct", "Void": "KVoid"}
AS_TAG = {"as_bool": "KBool", "as_int": "KInt", "as_float": "KFloat", "as_string": "KString",
          "as_function": "KFun", "as_array": "KArr", "as_tuple": "KTup", "as_mut": "KMut",
          "as_struct": "KStruct"}


# --------------------------------------------------------------------------- TypeOf table
def parse_typeof(repo):
    src = strip_comments(open(os.path.join(repo, "src/variable/type_of.rs")).read())
    table = []          # (rust text, rty, ty tree)
    generic = None      # the Result<T, S> rule
    pos = 0
    pat = re.compile(r"(#\[duplicate_item\(T;(?P<dup>[^)]*)\)\]\s*)?impl\s*(?P<gen><[^{]*?>)?\s*TypeOf\s+for\s+(?P<ty>[^{]+?)\s*\{")
    seen_impls = 0
    for m in pat.finditer(src):
        seen_impls += 1
        end = match_close(src, m.end() - 1)
        body = src[m.end():end - 1]
        fm = re.search(r"fn\s+type_of\s*\(\s*\)\s*->\s*Type\s*\{", body)
        if not fm:
            fail("TypeOf impl without type_of()")
        fend = match_close(body, fm.end() - 1)
        fbody = body[fm.end():fend - 1].strip()
        if m.group("gen"):
            g = re.sub(r"\s+", "", m.group("gen"))
            if g != "<T:TypeOf,S:TypeOf>" or re.sub(r"\s+", "", m.group("ty")) != "Result<T,S>":
                fail(f"generic TypeOf impl {m.group(0)!r} is outside the subset")
            want = "letok=T::type_of();leterr=S::type_of();var_type!(ok|err)"
            if re.sub(r"\s+", "", fbody) != want:
                fail("generic Result<T,S> TypeOf body changed")
            generic = True
            continue
        vm = re.fullmatch(r"Type::(Void|Bool|Int|Float|String)", fbody)
        if vm:
            tyv = {"Void": "void", "Bool": "bool", "Int": "int", "Float": "float", "String": "string"}[vm.group(1)]
        else:
            vm = re.fullmatch(r"var_type!\((.*)\)", fbody, re.S)
            if not vm:
                fail(f"TypeOf body {fbody!r} is outside the subset")
            tyv = TyParser(vm.group(1)).parse()
        if m.group("dup") is not None:
            names = [x.strip() for x in re.findall(r"\[((?:[^\[\]]|\[[^\]]*\])*)\]", m.group("dup"))]
            if m.group("ty").strip() != "T" or not names:
                fail("duplicate_item form changed")
        else:
            names = [m.group("ty").strip()]
        for nm in names:
            table.append((norm_rust(nm), parse_rty(nm), tyv))
    if len(re.findall(r"\bimpl\b", src)) != seen_impls:
        fail("type_of.rs contains an impl the translator did not recognise")
    if not generic:
        fail("generic Result<T,S> TypeOf rule not found")
    keys = [k for k, _, _ in table]
    if len(set(keys)) != len(keys):
        fail("duplicate TypeOf entry")
    return table


def type_of(table, r):
    """<R as TypeOf>::type_of() as a type tree; None when there is no impl."""
    for _, rr, t in table:
        if rr == r:
            return t
    if isinstance(r, tuple) and r[0] == "RResult":
        a, b = type_of(table, r[1]), type_of(table, r[2])
        if a is None or b is None:
            return None
        return ("union", [a, b])
    return None


# --------------------------------------------------------------------------- exports
ATTR = re.compile(r"#\[\s*([A-Za-z_]+)\s*(?:\((.*?)\)|=\s*\"([^\"]*)\")?\s*\]", re.S)


def take_attrs(src, i):
    """attributes starting at i -> (list of (name, arg, strval), index after them)."""
    attrs = []
    while True:
        m = re.compile(r"\s*#\[").match(src, i)
        if not m:
            break
        st = m.end() - 2
        end = match_close(src, st + 1)
        am = ATTR.fullmatch(src[st:end])
        if not am:
            fail(f"attribute {src[st:end]!r} is outside the subset")
        attrs.append((am.group(1), am.group(2), am.group(3)))
        i = end
    return attrs, i


BODY_FORBIDDEN = re.compile(r"\b(unwrap|expect|unreachable!|panic!|todo!|unimplemented!|assert!|assert_eq!|unsafe)\b|\w\s*\[")


def body_demands(name, params, body):
    """What the body needs of each `&Variable` / `&[Variable]` parameter beyond the glue's TryFrom.
    Only two idioms are in the subset; every other potentially panicking construct is refused."""
    demands = {p["name"]: ("DNone",) for p in params}
    rest = body
    # idiom 1: match <param> { Variable::A(..) => .., Variable::B(..) => .., _ => unreachable!(..) }
    for m in re.finditer(r"match\s+([a-z_][a-z_0-9]*)\s*\{", body):
        pname = m.group(1)
        end = match_close(body, m.end() - 1)
        arms = body[m.end():end - 1]
        if pname not in demands:
            continue
        heads = re.findall(r"(?:^|,|\})\s*(Variable::([A-Za-z]+)\s*(?:\([^)]*\))?|_)\s*=>", arms)
        tags, wild = [], False
        for h, tag in heads:
            if h == "_":
                wild = True
            else:
                if tag not in TAG:
                    fail(f"{name}: unknown Variable variant {tag}")
                tags.append(TAG[tag])
        wm = re.search(r"_\s*=>\s*unreachable!\s*\((?:\"[^\"]*\")?\)\s*,?\s*$", arms.strip())
        if wild and not wm:
            fail(f"{name}: wildcard arm of `match {pname}` is not `unreachable!()`")
        if not wild:
            fail(f"{name}: `match {pname}` without a wildcard arm is outside the subset")
        if len(heads) != len(tags) + 1:
            fail(f"{name}: unrecognised arm in `match {pname}`")
        demands[pname] = ("DTags", tags)
        rest = rest.replace(wm.group(0), "")
    # idiom 2: <param>.iter().map(Variable::as_int).map(Option::unwrap)
    for m in re.finditer(r"([a-z_][a-z_0-9]*)\s*\.\s*iter\s*\(\s*\)\s*\.\s*map\s*\(\s*Variable::(as_[a-z]+)\s*\)\s*\.\s*map\s*\(\s*Option::unwrap\s*\)", body):
        pname, conv = m.group(1), m.group(2)
        if pname not in demands or conv not in AS_TAG:
            fail(f"{name}: unwrap idiom on {pname}/{conv} is outside the subset")
        if demands[pname] != ("DNone",):
            fail(f"{name}: two demands on parameter {pname}")
        demands[pname] = ("DElems", AS_TAG[conv])
        rest = rest.replace(m.group(0), "")
    bad = BODY_FORBIDDEN.search(rest)
    if bad:
        fail(f"{name}: body contains `{bad.group(0)}` outside the recognised idioms")
    return demands


def slice_elems(name, params, body):
    """For a body that builds an `Arc<[Variable]>`: the tag of every element, from the closure of
    the final `.map(|x| ..).collect()`.  Three element producers are in the subset."""
    flat = re.sub(r"\s+", "", body)
    m = re.fullmatch(r"([a-z_][a-z_0-9]*)\.(split\(([a-z_][a-z_0-9]*)\)|chars\(\)|bytes\(\))"
                     r"\.map\(\|([a-z_][a-z_0-9]*)\|(.*)\)\.collect\(\)", flat)
    if not m:
        fail(f"{name}: body returning Arc<[Variable]> is not `<str param>.split(p)|chars()|bytes()` + `.map(|x| ..).collect()`")
    src, it, pat, x, expr = m.group(1), m.group(2), m.group(3), m.group(4), m.group(5)
    strs = {p["name"] for p in params if p["rust"] == "RRefStr"}
    if src not in strs or (pat is not None and pat not in strs):
        fail(f"{name}: the iterated value is not a &str parameter")
    if it.startswith("split") and expr == f"var!({x})":
        return "KString"        # items are &str; var!(ident) = Variable::from(ident)
    if it == "chars()" and expr == f"Variable::from({x}.to_string())":
        return "KString"        # char::to_string(): String
    if it == "bytes()" and expr == f"Variable::from({x}asi64)":
        return "KInt"           # u8 as i64
    fail(f"{name}: element expression {expr!r} over {it} is outside the subset")


CONST_VALUES = {
    ("RI64", "i64::MIN"): ("CInt", -2 ** 63),
    ("RI64", "i64::MAX"): ("CInt", 2 ** 63 - 1),
    ("RF64", "consts::E"): ("CFloat", 0x4005BF0A8B145769),
    ("RF64", "consts::PI"): ("CFloat", 0x400921FB54442D18),
}


def parse_fn(src, i, attrs, table, owner):
    """src[i:] starts at `fn`; returns (export dict, index after the item)."""
    m = re.compile(r"fn\s+([a-z_][a-z_0-9]*)\s*(<[^(]*>)?\s*\(").match(src, i)
    if not m:
        fail(f"{owner}: unparsable fn header at {src[i:i+40]!r}")
    if m.group(2):
        fail(f"{owner}::{m.group(1)}: generic functions are outside the subset")
    rust_name = m.group(1)
    pend = match_close(src, m.end() - 1)
    params_src = src[m.end():pend - 1]
    hm = re.compile(r"\s*(->\s*([^{]+?))?\s*\{").match(src, pend)
    if not hm:
        fail(f"{owner}::{rust_name}: unparsable return type")
    bend = match_close(src, hm.end() - 1)
    body = src[hm.end():bend - 1]
    name, ret_attr = rust_name, None
    for an, aarg, astr in attrs:
        if an == "return_type":
            ret_attr = TyParser(aarg).parse()
        elif an == "name":
            if astr is None:
                fail(f"{owner}::{rust_name}: #[name] needs a string")
            name = astr
        elif an in ("doc", "allow", "must_use", "inline"):
            pass
        else:
            fail(f"{owner}::{rust_name}: attribute #[{an}] is outside the subset")
    params = []
    for p in split_top(params_src, ","):
        if not p:
            continue
        pattrs, k = take_attrs(p, 0)
        pm = re.fullmatch(r"\s*([a-z_][a-z_0-9]*)\s*:\s*(.+)", p[k:], re.S)
        if not pm:
            fail(f"{owner}::{rust_name}: parameter {p!r} is outside the subset (self / patterns)")
        r = parse_rty(pm.group(2))
        if r not in CONVERSIONS:
            fail(f"{owner}::{rust_name}: no TryFrom<&Variable> conversion known for parameter type {pm.group(2)!r}")
        declared, from_attr = None, False
        for an, aarg, _ in pattrs:
            if an == "var_type":
                if declared is not None:
                    fail("two #[var_type] attributes")
                declared, from_attr = TyParser(aarg).parse(), True
            else:
                fail(f"{owner}::{rust_name}: parameter attribute #[{an}] is outside the subset")
        if declared is None:
            declared = type_of(table, r)
            if declared is None:
                fail(f"{owner}::{rust_name}: no TypeOf impl for parameter type {pm.group(2)!r}")
        params.append({"name": pm.group(1), "rust": r, "rust_text": norm_rust(pm.group(2)),
                       "declared": declared, "attr": from_attr, "conv": CONVERSIONS[r]})
    names = [p["name"] for p in params]
    if len(set(names)) != len(names):
        fail(f"{owner}::{rust_name}: duplicate parameter names (the glue looks arguments up by name)")
    if hm.group(2) is None:
        ret_r, ret_text = "RUnit", "()"
        declared_ret = "void"          # get_return_type: type_from_str("()") whatever the attribute says
        ret_from_attr = False
    else:
        ret_text = norm_rust(hm.group(2))
        ret_r = parse_rty(hm.group(2))
        if ret_attr is not None:
            declared_ret, ret_from_attr = ret_attr, True
        else:
            declared_ret, ret_from_attr = type_of(table, ret_r), False
            if declared_ret is None:
                fail(f"{owner}::{rust_name}: no TypeOf impl for return type {ret_text!r} and no #[return_type]")
    demands = body_demands(f"{owner}::{rust_name}", params, body)
    for p in params:
        d = demands[p["name"]]
        if d[0] == "DTags" and p["conv"] != "CvRefVariable":
            fail(f"{owner}::{rust_name}: tag match on a non-&Variable parameter")
        if d[0] == "DElems" and p["conv"] not in ("CvRefSlice", "CvRefArray", "CvArcArray"):
            fail(f"{owner}::{rust_name}: element unwrap on a non-array parameter")
        p["demand"] = d
    ret_elems = None
    if "RArcSlice" in rty_term(ret_r) or "RRefSlice" in rty_term(ret_r):
        if ret_r != "RArcSlice":
            fail(f"{owner}::{rust_name}: slice nested in the return type is outside the subset")
        ret_elems = slice_elems(f"{owner}::{rust_name}", params, body)
    return {"kind": "fn", "name": name, "rust_name": rust_name, "params": params, "ret": ret_r,
            "ret_text": ret_text, "declared_ret": declared_ret, "ret_attr": ret_from_attr,
            "ret_elems": ret_elems}, bend


def parse_module_items(src, owner, table):
    """items of an exported inline module, as export_module walks them."""
    items = []
    i, n = 0, len(src)
    while True:
        attrs, i = take_attrs(src, i)
        m = re.compile(r"\s*").match(src, i)
        i = m.end()
        if i >= n:
            if attrs:
                fail(f"{owner}: dangling attributes")
            break
        vm = re.compile(r"(pub(?:\s*\([^)]*\))?\s+)?").match(src, i)
        public = bool(vm.group(1))
        j = vm.end()
        if src.startswith("use", j) and re.match(r"use\b", src[j:]):
            end = src.find(";", j)
            i = end + 1
            continue
        if re.match(r"const\b", src[j:]):
            cm = re.compile(r"const\s+([A-Z_][A-Z_0-9]*)\s*:\s*([^=]+?)\s*=\s*([^;]+?)\s*;").match(src, j)
            if not cm:
                fail(f"{owner}: unparsable const at {src[j:j+40]!r}")
            i = cm.end()
            if not public:
                continue
            r = parse_rty(cm.group(2))
            key = (r, re.sub(r"\s+", "", cm.group(3)))
            if key not in CONST_VALUES:
                fail(f"{owner}::{cm.group(1)}: constant expression {cm.group(3)!r} of type {cm.group(2)} is outside the subset")
            t = type_of(table, r)
            if t is None:
                fail(f"{owner}::{cm.group(1)}: no TypeOf for {cm.group(2)}")
            items.append({"kind": "const", "name": cm.group(1), "rust": r, "rust_text": norm_rust(cm.group(2)),
                          "ty": t, "value": CONST_VALUES[key], "expr": cm.group(3)})
            continue
        if re.match(r"fn\b", src[j:]):
            e, end = parse_fn(src, j, attrs, table, owner)
            i = end
            if public:
                items.append(e)
            continue
        fail(f"{owner}: item starting {src[j:j+40]!r} is outside the subset")
    return items


def parse_decls(block, where):
    """`decls!{ NAME := value ... }` -> list of (NAME, kind, payload)."""
    out = []
    i, n = 0, len(block)
    while True:
        m = re.compile(r"\s*([A-Za-z_][A-Za-z_0-9]*)\s*:=\s*").match(block, i)
        if not m:
            if block[i:].strip():
                fail(f"{where}: unparsable decl at {block[i:i+40]!r}")
            break
        name = m.group(1)
        i = m.end()
        if block.startswith("struct", i):
            b = block.index("{", i)
            end = match_close(block, b)
            fields = []
            for f in split_top(block[b + 1:end - 1], ","):
                fm = re.fullmatch(r"([a-z_][a-z_0-9]*)\s*:=\s*([A-Za-z_][A-Za-z_0-9]*)", f)
                if not fm:
                    fail(f"{where}: struct field {f!r} is outside the subset")
                fields.append((fm.group(1), fm.group(2)))
            out.append((name, "struct", fields))
            i = end
        elif block[i] == "(":
            pend = match_close(block, i)
            params_src = block[i + 1:pend - 1]
            rm = re.compile(r"\s*->\s*([^{]+?)\s*\{").match(block, pend)
            if not rm:
                fail(f"{where}: function decl {name} without a return type")
            bend = match_close(block, rm.end() - 1)
            params = []
            for p in split_top(params_src, ","):
                pm = re.fullmatch(r"([a-z_][a-z_0-9]*)\s*:\s*(.+)", p, re.S)
                if not pm:
                    fail(f"{where}: parameter {p!r}")
                params.append((pm.group(1), TyParser(pm.group(2)).parse()))
            out.append((name, "fun", (params, TyParser(rm.group(1)).parse())))
            i = bend
        else:
            fail(f"{where}: decl {name} is neither a struct nor a function")
    return out


def collect(repo):
    table = parse_typeof(repo)
    files = [os.path.join(repo, "src/stdlib.rs")]
    d = os.path.join(repo, "src/stdlib")
    files += sorted(os.path.join(d, f) for f in os.listdir(d) if f.endswith(".rs"))
    exported = {}      # Rust ident given to #[export(..)] -> ("mod", items) | ("fn", export)
    declared = {}      # decls! name -> (kind, payload)
    for path in files:
        src = strip_comments(open(path).read())
        rel = os.path.relpath(path, repo)
        for m in re.finditer(r"decls!\s*\{", src):
            end = match_close(src, m.end() - 1)
            for name, kind, payload in parse_decls(src[m.end():end - 1], rel):
                if name in declared or name in exported:
                    fail(f"{rel}: {name} defined twice")
                declared[name] = (kind, payload)
        count = 0
        for m in re.finditer(r"#\[\s*export\s*\(\s*([A-Za-z_][A-Za-z_0-9]*)\s*\)\s*\]", src):
            count += 1
            ident = m.group(1)
            if ident in exported or ident in declared:
                fail(f"{rel}: export {ident} defined twice")
            attrs, i = take_attrs(src, m.end())
            if attrs:
                fail(f"{rel}: attributes between #[export] and the item")
            k = re.compile(r"\s*(pub(?:\s*\([^)]*\))?\s+)?").match(src, i).end()
            if re.match(r"mod\b", src[k:]):
                mm = re.compile(r"mod\s+([a-z_][a-z_0-9]*)\s*\{").match(src, k)
                if not mm:
                    fail(f"{rel}: exported module must be inline")
                end = match_close(src, mm.end() - 1)
                exported[ident] = ("mod", parse_module_items(src[mm.end():end - 1], f"{rel}:{ident}", table))
            elif re.match(r"fn\b", src[k:]):
                e, _ = parse_fn(src, k, [], table, f"{rel}:{ident}")
                exported[ident] = ("fn", e)
            else:
                fail(f"{rel}: #[export({ident})] on an unsupported item")
        if len(re.findall(r"\bexport\s*\(", src)) != count:
            fail(f"{rel}: an `export(` occurrence was not recognised")
    if "Std" not in declared or declared["Std"][0] != "struct":
        fail("decls! Std := struct{..} not found")
    entries = []       # flattened, in path order

    def walk(path, ident):
        if ident in exported:
            kind, payload = exported[ident]
            if kind == "fn":
                e = dict(payload)
                e["path"] = path[:-1]
                e["name"] = path[-1]      # the struct field name is what a program writes
                e["ident"] = ident
                entries.append(e)
            else:
                names = [x["name"] for x in payload]
                if len(set(names)) != len(names):
                    fail(f"export {ident}: duplicate member names")
                for x in payload:
                    e = dict(x)
                    e["path"] = path
                    e["ident"] = ident
                    entries.append(e)
        elif ident in declared:
            kind, payload = declared[ident]
            if kind == "struct":
                for f, target in payload:
                    walk(path + [f], target)
            else:
                ps, r = payload
                entries.append({"kind": "lang", "path": path[:-1], "name": path[-1], "ident": ident,
                                "params": [{"name": n, "declared": t} for n, t in ps], "declared_ret": r})
        else:
            fail(f"std layout refers to unknown item {ident}")

    walk(["std"], "Std")
    entries.sort(key=lambda e: (e["path"], e["name"]))
    full = [".".join(e["path"] + [e["name"]]) for e in entries]
    if len(set(full)) != len(full):
        fail("two exports with the same path")
    return table, entries


# --------------------------------------------------------------------------- emission
HEADER = '''(* GENERATED by translators/export2coq.py from src/stdlib.rs, src/stdlib/*.rs and
   src/variable/type_of.rs — DO NOT EDIT.  Plain data, no proofs.

   One [export] per item reachable from the `std` struct:
     EFn    a Rust function behind the `#[export]` glue (macros/src/export.rs);
     EConst a Rust constant, inserted as `(CONST).into()`;
     ELang  a function written in SimpleSL inside `decls!` (the members of std.operators), typed by the checker.
   Identifiers are lists of code points; the readable name is in the comment above each entry. *)
From SSL.Model Require Import Base Ty.
Local Open Scope Z_scope.

(* Rust types occurring in signatures and in the TypeOf table *)
Inductive rty : Type :=
| RUnit | RBool | RI32 | RI64 | RU32 | RUsize | RF64
| RRefStr | RArcStr | RString | RArcRefStr
| RArcArray | RArray | RRefArray | RRefSlice | RArcSlice
| RRefVariable | RVariable
| RIoError
| ROption (t : rty)
| RResult (t e : rty)      (* Result<T, S>, S: TypeOf  (io::Result<T> = Result<T, io::Error>) *)
| RResultExec (t : rty).   (* Result<T, ExecError>: the error is raised by the glue, never returned *)

(* `let p = interpreter.get_variable("p").unwrap().try_into().unwrap();`
   — the TryFrom<&Variable> impl selected by the Rust parameter type *)
Inductive conv : Type :=
| CvBool | CvI64 | CvF64 | CvArcStr | CvRefStr | CvArcArray | CvRefArray | CvRefSlice | CvRefVariable.

(* runtime tags of Variable *)
Inductive vtag : Type :=
| KBool | KInt | KFloat | KString | KFun | KArr | KTup | KMut | KStruct | KVoid.

(* what the function BODY additionally requires of a parameter (else it panics):
   DTags ks  : `match p { Variable::K1(..) => .., .., _ => unreachable!() }`
   DElems k  : `p.iter().map(Variable::as_k).map(Option::unwrap)` *)
Inductive demand : Type :=
| DNone
| DTags (ks : list vtag)
| DElems (k : vtag).

(* `a | b | ..` of var_type! / TypeOf for Result<T,S>: reduce(Type::concat) *)
Definition ty_union (l : list ty) : ty :=
  match concat_all l with Some t => t | None => TNever end.

Record param : Type := mkParam {
  p_name : ident;
  p_rust : rty;
  p_declared : ty;        (* the SimpleSL type in Function::params *)
  p_from_attr : bool;     (* true: #[var_type(..)], false: <Rust type as TypeOf>::type_of() *)
  p_conv : conv;
  p_demand : demand }.

Inductive cvalue : Type := CInt (z : Z) | CFloat (bits : Z).

Inductive export : Type :=
| EFn (path : list ident) (name : ident) (ps : list param)
      (ret : rty) (declared_ret : ty) (ret_from_attr : bool)
      (ret_elems : option vtag)   (* Arc<[Variable]> results: tag of every element the body collects *)
| EConst (path : list ident) (name : ident) (r : rty) (t : ty) (v : cvalue)
| ELang (path : list ident) (name : ident) (ps : list (ident * ty)) (declared_ret : ty).
'''


def emit(table, entries):
    out = [HEADER]
    out.append("(* ---- the TypeOf table of src/variable/type_of.rs (plus the generic rule\n"
               "   `Result<T,S> : T::type_of() | S::type_of()`, see [type_of_generic] in Model/Stdlib.v) ---- *)")
    out.append("Definition typeof_table : list (rty * ty) := [")
    rows = []
    for text, r, t in table:
        rows.append(f"  (* {text} : {ty_text(t)} *)\n  ({rty_term(r)}, {ty_term(t)})")
    out.append(";\n".join(rows))
    out.append("].\n")
    defs = []
    for e in entries:
        full = ".".join(e["path"] + [e["name"]])
        cname = "ex_" + re.sub(r"[^A-Za-z0-9_]", "_", full)
        defs.append(cname)
        path = "[" + "; ".join(ident_term(p) for p in e["path"]) + "]"
        if e["kind"] == "fn":
            sig = ", ".join(f"{p['name']}: {ty_text(p['declared'])}" for p in e["params"])
            rsig = ", ".join(f"{p['name']}: {p['rust_text']}" for p in e["params"])
            out.append(f"(* {full}({sig}) -> {ty_text(e['declared_ret'])}\n"
                       f"   Rust: fn {e['rust_name']}({rsig}) -> {e['ret_text']} *)")
            ps = []
            for p in e["params"]:
                d = p["demand"]
                dem = "DNone" if d[0] == "DNone" else \
                    ("(DTags [" + "; ".join(d[1]) + "])" if d[0] == "DTags" else f"(DElems {d[1]})")
                ps.append(f"    mkParam {ident_term(p['name'])} {rty_term(p['rust'])} {ty_term(p['declared'])} "
                          f"{'true' if p['attr'] else 'false'} {p['conv']} {dem}")
            out.append(f"Definition {cname} : export :=\n  EFn {path} {ident_term(e['name'])} [\n"
                       + ";\n".join(ps) + ("\n  ] " if ps else "  ] ")
                       + f"{rty_term(e['ret'])} {ty_term(e['declared_ret'])} {'true' if e['ret_attr'] else 'false'} "
                       + ("None" if e["ret_elems"] is None else f"(Some {e['ret_elems']})") + ".\n")
        elif e["kind"] == "const":
            kind, val = e["value"]
            v = f"({kind} ({val}))"
            out.append(f"(* {full} : {ty_text(e['ty'])}    Rust: const {e['name']}: {e['rust_text']} = {e['expr']} *)")
            out.append(f"Definition {cname} : export :=\n  EConst {path} {ident_term(e['name'])} {rty_term(e['rust'])} "
                       f"{ty_term(e['ty'])} {v}.\n")
        else:
            sig = ", ".join(f"{p['name']}: {ty_text(p['declared'])}" for p in e["params"])
            out.append(f"(* {full}({sig}) -> {ty_text(e['declared_ret'])}    (SimpleSL, decls!) *)")
            ps = "; ".join(f"({ident_term(p['name'])}, {ty_term(p['declared'])})" for p in e["params"])
            out.append(f"Definition {cname} : export :=\n  ELang {path} {ident_term(e['name'])} [{ps}] "
                       f"{ty_term(e['declared_ret'])}.\n")
    out.append("Definition stdlib_exports : list export := [\n  " + ";\n  ".join(defs) + "\n].\n")
    out.append(f"(* {len(entries)} exports: "
               f"{sum(1 for e in entries if e['kind'] == 'fn')} Rust functions, "
               f"{sum(1 for e in entries if e['kind'] == 'const')} constants, "
               f"{sum(1 for e in entries if e['kind'] == 'lang')} SimpleSL functions *)")
    return "\n".join(out) + "\n"


def main(argv):
    if len(argv) != 3:
        print(__doc__)
        return 2
    repo, gen = argv[1], argv[2]
    try:
        table, entries = collect(repo)
        text = emit(table, entries)
    except Unsupported as e:
        print(f"export2coq: OUTSIDE THE SUBSET: {e}", file=sys.stderr)
        return 2
    os.makedirs(gen, exist_ok=True)
    path = os.path.join(gen, "GenStdlib.v")
    old = open(path).read() if os.path.exists(path) else None
    if old != text:
        with open(path, "w") as f:
            f.write(text)
        print(f"export2coq: wrote {path} ({len(entries)} exports)")
    else:
        print(f"export2coq: {path} unchanged ({len(entries)} exports)")
    return 0


if __name__ == "__main__":
    sys.exit(main(sys.argv))

#!/usr/bin/env python3
"""T7 — the scalar operator implementations of /repo -> coq/Gen/GenScalar.v.

usage: scalar2coq.py <repo_dir> <gen_dir>

Reads (every run) the `exec` / `create_from_instructions` functions of
  src/instruction/bin_op/math/{add,subtract,multiply,divide,modulo,pow}.rs, bin_op/math.rs,
  bin_op/shift.rs, bin_op/bitwise.rs, bin_op.rs (equal, not_equal,
  create_from_instructions_with_exec, the two `match self.op` dispatch tables),
  prefix_op.rs (unary_minus, not), unary_operation.rs (dispatch tables), bin_op/assign.rs
and writes a Coq description with ORDERED-ARM semantics (one `option` per Rust match arm, the
first `Some` wins) that mirrors the Rust text literally.  Lemmas/ScalarTie.v proves the
regenerated functions equal to the hand-written model (Model/Ops.v, Model/Recreate.v).

Python 3 stdlib only; deterministic; the output file is rewritten only when its content
changed; anything outside the supported Rust subset stops the run with a non-zero exit code
and a message naming file and line (docs/README_t7.md lists the subset).
"""
import os
import re
import sys


class Unsupported(Exception):
    pass


def die(msg, tok=None):
    where = f"{tok.file}:{tok.line}: " if tok is not None else ""
    raise Unsupported(where + msg)


# --------------------------------------------------------------------------------------
# 1. tokenizer
# --------------------------------------------------------------------------------------
class Tok:
    __slots__ = ("k", "s", "file", "line")

    def __init__(self, k, s, file, line):
        self.k, self.s, self.file, self.line = k, s, file, line

    def __repr__(self):
        return f"{self.k}:{self.s}"


PUNCTS = ["..=", "...", "<<=", ">>=",
          "::", "->", "=>", "==", "!=", "<=", ">=", "&&", "||", "<<", ">>",
          "+=", "-=", "*=", "/=", "%=", "^=", "&=", "|=", ".."]
SINGLE = "+-*/%^&|!=<>.,;:#$?@~()[]{}"
ID_START = re.compile(r"[A-Za-z_]")
ID_REST = re.compile(r"[A-Za-z0-9_]*")
NUM = re.compile(r"0x[0-9a-fA-F_]+|0b[01_]+|0o[0-7_]+|[0-9][0-9_]*")
SUFFIX = re.compile(r"(i8|i16|i32|i64|i128|isize|u8|u16|u32|u64|u128|usize|f32|f64)\b")


def tokenize(src, file):
    toks = []
    i, n, line = 0, len(src), 1
    while i < n:
        c = src[i]
        if c == "\n":
            line += 1
            i += 1
            continue
        if c in " \t\r":
            i += 1
            continue
        if src.startswith("//", i):
            j = src.find("\n", i)
            i = n if j < 0 else j
            continue
        if src.startswith("/*", i):
            depth, j = 1, i + 2
            while j < n and depth:
                if src.startswith("/*", j):
                    depth += 1
                    j += 2
                elif src.startswith("*/", j):
                    depth -= 1
                    j += 2
                else:
                    if src[j] == "\n":
                        line += 1
                    j += 1
            if depth:
                die("unterminated block comment", Tok("?", "", file, line))
            i = j
            continue
        # raw strings  r"..."  r#"..."#  (also br)
        m = re.match(r"b?r(#*)\"", src[i:i + 40])
        if m:
            hashes = m.group(1)
            start = i + m.end()
            end = src.find('"' + hashes, start)
            if end < 0:
                die("unterminated raw string", Tok("?", "", file, line))
            body = src[start:end]
            toks.append(Tok("str", body, file, line))
            line += body.count("\n")
            i = end + 1 + len(hashes)
            continue
        if c == '"' or (c == "b" and src.startswith('b"', i)):
            j = i + (2 if c == "b" else 1)
            buf = []
            while j < n and src[j] != '"':
                if src[j] == "\\":
                    buf.append(src[j:j + 2])
                    j += 2
                else:
                    if src[j] == "\n":
                        line += 1
                    buf.append(src[j])
                    j += 1
            if j >= n:
                die("unterminated string", Tok("?", "", file, line))
            toks.append(Tok("str", "".join(buf), file, line))
            i = j + 1
            continue
        if c == "'":
            # char literal or lifetime
            m = re.match(r"'(\\.[^']*|[^'\\])'", src[i:i + 16])
            if m:
                toks.append(Tok("char", m.group(1), file, line))
                i += m.end()
                continue
            m = re.match(r"'[A-Za-z_][A-Za-z0-9_]*", src[i:i + 64])
            if m:
                toks.append(Tok("lifetime", m.group(0), file, line))
                i += m.end()
                continue
            die("stray quote", Tok("?", "", file, line))
        if ID_START.match(c):
            m = ID_REST.match(src, i + 1)
            toks.append(Tok("id", src[i:m.end()], file, line))
            i = m.end()
            continue
        if c.isdigit():
            m = NUM.match(src, i)
            j = m.end()
            text = m.group(0)
            kind = "int"
            # a fraction only when '.' is followed by a digit ("0..=63" is a range)
            if j + 1 < n and src[j] == "." and src[j + 1].isdigit() and not text.startswith("0x"):
                m2 = re.compile(r"\.[0-9_]+([eE][+-]?[0-9_]+)?").match(src, j)
                text += m2.group(0)
                j = m2.end()
                kind = "float"
            ms = SUFFIX.match(src, j)
            suffix = ""
            if ms:
                suffix = ms.group(1)
                j = ms.end()
                if suffix in ("f32", "f64"):
                    kind = "float"
            toks.append(Tok(kind, text.replace("_", "") + (":" + suffix if suffix else ""), file, line))
            i = j
            continue
        for p in PUNCTS:
            if src.startswith(p, i):
                toks.append(Tok("p", p, file, line))
                i += len(p)
                break
        else:
            if c in SINGLE:
                toks.append(Tok("p", c, file, line))
                i += 1
            else:
                die(f"unexpected character {c!r}", Tok("?", "", file, line))
    return toks


OPEN = {"(": ")", "[": "]", "{": "}"}
CLOSE = {")", "]", "}"}


def is_p(t, s):
    return t.k == "p" and t.s == s


def is_id(t, s=None):
    return t.k == "id" and (s is None or t.s == s)


def match_close(toks, i):
    """toks[i] is an opening bracket: index of the matching closing one."""
    stack = []
    j = i
    while j < len(toks):
        t = toks[j]
        if t.k == "p" and t.s in OPEN:
            stack.append(OPEN[t.s])
        elif t.k == "p" and t.s in CLOSE:
            if not stack or stack[-1] != t.s:
                die(f"unbalanced {t.s!r}", t)
            stack.pop()
            if not stack:
                return j
        j += 1
    die("unbalanced bracket", toks[i])


def split_top(toks, sep, angles=True):
    """split a token list on separator `sep` at bracket depth 0 (angle brackets of generics too)."""
    out, cur, depth, angle = [], [], 0, 0
    for t in toks:
        if t.k == "p":
            if t.s in OPEN:
                depth += 1
            elif t.s in CLOSE:
                depth -= 1
            elif t.s == "<" and angles:
                angle += 1
            elif t.s == ">" and angle > 0:
                angle -= 1
            elif t.s == ">>" and angle > 1:
                angle -= 2
            elif t.s == sep and depth == 0 and angle == 0:
                out.append(cur)
                cur = []
                continue
        cur.append(t)
    out.append(cur)
    return out


def text_of(toks):
    return " ".join(('"' + t.s + '"') if t.k == "str" else t.s for t in toks)


# --------------------------------------------------------------------------------------
# 2. #[duplicate_item(...)] expansion (short syntax), on tokens
# --------------------------------------------------------------------------------------
def item_end(toks, i):
    """toks[i] starts an item (after its attributes): index one past its end."""
    j = i
    while j < len(toks):
        t = toks[j]
        if is_p(t, ";"):
            return j + 1
        if is_p(t, "{"):
            return match_close(toks, j) + 1
        if t.k == "p" and t.s in OPEN:
            j = match_close(toks, j) + 1
            continue
        j += 1
    die("item without end", toks[i])


def expand_duplicates(toks):
    out = []
    i = 0
    while i < len(toks):
        t = toks[i]
        if (is_p(t, "#") and i + 3 < len(toks) and is_p(toks[i + 1], "[")
                and is_id(toks[i + 2], "duplicate_item")):
            close = match_close(toks, i + 1)
            if not is_p(toks[i + 3], "("):
                die("duplicate_item: expected '('", toks[i + 3])
            pclose = match_close(toks, i + 3)
            inner = toks[i + 4:pclose]
            groups = [g for g in split_top(inner, ";", angles=False) if g]
            header = groups[0]
            if not header or not all(x.k == "id" for x in header):
                die("duplicate_item: only the short syntax (identifier header) is supported", t)
            names = [x.s for x in header]
            rows = []
            for g in groups[1:]:
                subs = []
                k = 0
                while k < len(g):
                    if not is_p(g[k], "["):
                        die("duplicate_item: substitution must be a [...] group", g[k])
                    c = match_close(g, k)
                    subs.append(g[k + 1:c])
                    k = c + 1
                if len(subs) != len(names):
                    die(f"duplicate_item: {len(subs)} substitutions for {len(names)} identifiers", g[0])
                rows.append(dict(zip(names, subs)))
            if not rows:
                die("duplicate_item: no substitution rows", t)
            start = close + 1
            end = item_end(toks, start)
            item = expand_duplicates(toks[start:end])
            for row in rows:
                for x in item:
                    if x.k == "id" and x.s in row:
                        for y in row[x.s]:
                            out.append(Tok(y.k, y.s, x.file, x.line))
                    else:
                        out.append(x)
            i = end
            continue
        out.append(t)
        i += 1
    return out


# --------------------------------------------------------------------------------------
# 3. items: modules, impls, functions
# --------------------------------------------------------------------------------------
class Fn:
    def __init__(self, name, path, sig, body, tok):
        self.name, self.path, self.sig, self.body, self.tok = name, path, sig, body, tok
        # sig: tokens between the name and the body's '{'; body: tokens inside the braces


def walk_items(toks, path, out):
    i = 0
    n = len(toks)
    cfg_test = False
    while i < n:
        t = toks[i]
        if is_p(t, "#"):
            j = i + 1
            if j < n and is_p(toks[j], "!"):
                j += 1
            if j < n and is_p(toks[j], "["):
                c = match_close(toks, j)
                if text_of(toks[j + 1:c]) == "cfg ( test )":
                    cfg_test = True
                i = c + 1
                continue
            die("stray '#'", t)
        if is_id(t, "pub"):
            i += 1
            if i < n and is_p(toks[i], "("):
                i = match_close(toks, i) + 1
            continue
        if is_id(t, "mod") and i + 2 < n and toks[i + 1].k == "id":
            if is_p(toks[i + 2], ";"):
                i += 3
                continue
            if is_p(toks[i + 2], "{"):
                c = match_close(toks, i + 2)
                if not cfg_test:           # test modules are not part of the program
                    walk_items(toks[i + 3:c], path + [toks[i + 1].s], out)
                cfg_test = False
                i = c + 1
                continue
        if is_id(t, "impl"):
            j = i + 1
            while j < n and not is_p(toks[j], "{"):
                j += 1
            c = match_close(toks, j)
            walk_items(toks[j + 1:c], path + ["impl " + text_of(toks[i + 1:j])], out)
            i = c + 1
            continue
        if is_id(t, "fn") and i + 1 < n and toks[i + 1].k == "id":
            j = i + 2
            while j < n and not is_p(toks[j], "{") and not is_p(toks[j], ";"):
                if toks[j].k == "p" and toks[j].s in OPEN:
                    j = match_close(toks, j) + 1
                else:
                    j += 1
            if j < n and is_p(toks[j], "{"):
                c = match_close(toks, j)
                f = Fn(toks[i + 1].s, list(path), toks[i + 2:j], toks[j + 1:c], toks[i + 1])
                key = "::".join(path + [f.name])
                if key in out:
                    die(f"function {key} defined twice", toks[i + 1])
                out[key] = f
                i = c + 1
            else:
                i = j + 1
            continue
        # any other item / token: skip (bracket groups as a unit)
        if t.k == "p" and t.s in OPEN:
            i = match_close(toks, i) + 1
        else:
            i += 1
    return out


# --------------------------------------------------------------------------------------
# 4. parser for the Rust subset (expressions, patterns, statements, signatures)
# --------------------------------------------------------------------------------------
class N:
    """AST node: kind `k`, first token `tok`, fields as attributes."""

    def __init__(self, k, tok, **kw):
        self.k, self.tok = k, tok
        self.__dict__.update(kw)

    def __repr__(self):
        d = {a: b for a, b in self.__dict__.items() if a not in ("k", "tok")}
        return f"{self.k}{d}"


DIVERGING_MACROS = ("panic", "unreachable", "unimplemented", "todo")

BIN_PREC = [  # loosest first
    ["||"], ["&&"], ["==", "!=", "<", ">", "<=", ">="], ["|"], ["^"], ["&"], ["<<", ">>"],
    ["+", "-"], ["*", "/", "%"],
]
ASSIGN_OPS = ["=", "+=", "-=", "*=", "/=", "%=", "^=", "&=", "|=", "<<=", ">>="]


class Parser:
    def __init__(self, toks, anchor):
        self.t = toks
        self.i = 0
        self.anchor = anchor  # token for error messages at end of input

    # --- helpers
    def peek(self, k=0):
        return self.t[self.i + k] if self.i + k < len(self.t) else None

    def at_end(self):
        return self.i >= len(self.t)

    def cur(self):
        return self.peek() or self.anchor

    def is_p(self, s, k=0):
        t = self.peek(k)
        return t is not None and t.k == "p" and t.s == s

    def is_id(self, s=None, k=0):
        t = self.peek(k)
        return t is not None and t.k == "id" and (s is None or t.s == s)

    def eat_p(self, s):
        if not self.is_p(s):
            die(f"expected {s!r}, found {self.cur().s!r}", self.cur())
        self.i += 1

    def eat_id(self, s=None):
        if not self.is_id(s):
            die(f"expected {'identifier' if s is None else s!r}, found {self.cur().s!r}", self.cur())
        self.i += 1
        return self.t[self.i - 1]

    def group(self):
        """current token opens a bracket group: return the inner tokens and skip the group."""
        c = match_close(self.t, self.i)
        inner = self.t[self.i + 1:c]
        self.i = c + 1
        return inner

    # --- patterns
    def pattern(self):
        first = self.pattern_no_or()
        if self.is_p("|"):
            alts = [first]
            while self.is_p("|"):
                self.i += 1
                alts.append(self.pattern_no_or())
            return N("por", first.tok, alts=alts)
        return first

    def pattern_no_or(self):
        t = self.cur()
        if self.is_p("&"):
            self.i += 1
            if self.is_id("mut"):
                self.i += 1
            return self.pattern_no_or()
        if self.is_p("("):
            inner = self.group()
            parts = [p for p in split_top(inner, ",") if p]
            pats = [Parser(p, t).whole_pattern() for p in parts]
            if len(pats) == 1 and not any(is_p(x, ",") for x in inner):
                return pats[0]
            return N("ptuple", t, pats=pats)
        if self.is_p("-") and self.peek(1) is not None and self.peek(1).k == "int":
            self.i += 2
            return N("plit", t, value=-int_value(self.t[self.i - 1]))
        if t.k == "int":
            self.i += 1
            return N("plit", t, value=int_value(t))
        if t.k == "id":
            if t.s == "_":
                self.i += 1
                return N("pwild", t)
            if t.s in ("true", "false"):
                self.i += 1
                return N("pbool", t, value=(t.s == "true"))
            if t.s in ("ref", "mut") and self.is_id(None, 1) and not self.is_p("::", 2):
                self.i += 1
                return self.pattern_no_or()
            path = self.path()
            if self.is_p("("):
                inner = self.group()
                parts = [p for p in split_top(inner, ",") if p]
                return N("pctor", t, path=path, pats=[Parser(p, t).whole_pattern() for p in parts])
            if self.is_p("{"):
                die("struct patterns are outside the supported subset", t)
            if len(path) == 1 and path[0][0].islower():
                return N("pbind", t, name=path[0])
            return N("pctor", t, path=path, pats=None)
        die(f"unsupported pattern starting with {t.s!r}", t)

    def whole_pattern(self):
        p = self.pattern()
        if not self.at_end():
            die(f"unexpected {self.cur().s!r} in pattern", self.cur())
        return p

    def path(self):
        segs = [self.eat_id().s]
        while self.is_p("::") and self.is_id(None, 1):
            self.i += 1
            segs.append(self.eat_id().s)
        return segs

    # --- expressions
    def expr(self, no_struct=False):
        return self.assign(no_struct)

    def assign(self, ns):
        lhs = self.range_(ns)
        t = self.peek()
        if t is not None and t.k == "p" and t.s in ASSIGN_OPS:
            self.i += 1
            rhs = self.assign(ns)
            return N("assign", t, op=t.s, lhs=lhs, rhs=rhs)
        return lhs

    def range_(self, ns):
        lhs = self.binary(0, ns)
        t = self.peek()
        if t is not None and t.k == "p" and t.s in ("..", "..="):
            self.i += 1
            rhs = self.binary(0, ns)
            return N("range", t, lo=lhs, hi=rhs, incl=(t.s == "..="))
        return lhs

    def binary(self, level, ns):
        if level == len(BIN_PREC):
            return self.cast(ns)
        lhs = self.binary(level + 1, ns)
        while True:
            t = self.peek()
            if t is None or t.k != "p" or t.s not in BIN_PREC[level]:
                return lhs
            self.i += 1
            rhs = self.binary(level + 1, ns)
            if level == 2 and lhs.k == "binary" and lhs.op in BIN_PREC[2] and not getattr(lhs, "paren", False):
                die("chained comparison", t)
            lhs = N("binary", t, op=t.s, l=lhs, r=rhs)

    def cast(self, ns):
        e = self.unary(ns)
        while self.is_id("as"):
            t = self.peek()
            self.i += 1
            ty = self.eat_id()
            e = N("cast", t, e=e, ty=ty.s)
        return e

    def unary(self, ns):
        t = self.peek()
        if t is not None and t.k == "p" and t.s in ("-", "!", "&", "*"):
            self.i += 1
            if t.s == "&" and self.is_id("mut"):
                self.i += 1
            return N("unary", t, op=t.s, e=self.unary(ns))
        if t is not None and is_p(t, "&&"):
            self.i += 1
            return N("unary", t, op="&", e=N("unary", t, op="&", e=self.unary(ns)))
        return self.postfix(ns)

    def args(self):
        t = self.cur()
        sub = Parser(self.group(), t)
        out, _ = sub.expr_list()
        return out

    def expr_list(self):
        """comma-separated expressions up to the end of the token list: (exprs, had a comma)"""
        out, comma = [], False
        while not self.at_end():
            out.append(self.expr())
            if self.at_end():
                break
            self.eat_p(",")
            comma = True
        return out, comma

    def postfix(self, ns):
        e = self.primary(ns)
        while True:
            t = self.peek()
            if t is None:
                return e
            if is_p(t, "?"):
                self.i += 1
                e = N("try", t, e=e)
            elif is_p(t, "(") :
                e = N("call", t, f=e, args=self.args())
            elif is_p(t, "."):
                self.i += 1
                name = self.peek()
                if name is None or name.k not in ("id", "int"):
                    die("expected a method or field name after '.'", t)
                self.i += 1
                if self.is_p("::"):
                    die("turbofish is outside the supported subset", t)
                if self.is_p("("):
                    e = N("mcall", name, recv=e, name=name.s, args=self.args())
                else:
                    e = N("field", name, recv=e, name=name.s)
            else:
                return e

    def primary(self, ns):
        t = self.cur()
        if self.at_end():
            die("unexpected end of expression", t)
        if t.k == "int":
            self.i += 1
            v, suffix = (t.s.split(":") + [""])[:2]
            return N("int", t, value=int(v, 0), suffix=suffix)
        if t.k == "float":
            die("float literals are outside the supported subset", t)
        if t.k == "str":
            self.i += 1
            return N("str", t, value=t.s)
        if is_p(t, "("):
            es, comma = Parser(self.group(), t).expr_list()
            if len(es) == 1 and not comma:
                es[0].paren = True
                return es[0]
            return N("tuple", t, es=es)
        if is_p(t, "{"):
            return self.block()
        if is_p(t, "|") or is_p(t, "||"):
            return self.closure()
        if t.k == "id":
            if t.s == "match":
                self.i += 1
                scrut = self.expr(no_struct=True)
                if not self.is_p("{"):
                    die("expected '{' after match scrutinee", self.cur())
                arms = Parser(self.group(), t).match_arms()
                return N("match", t, scrut=scrut, arms=arms)
            if t.s == "if":
                return self.if_()
            if t.s == "while":
                self.i += 1
                cond = self.expr(no_struct=True)
                body = self.block()
                return N("while", t, cond=cond, body=body)
            if t.s in ("loop", "for", "unsafe", "async", "move"):
                die(f"`{t.s}` is outside the supported subset", t)
            if t.s == "return":
                self.i += 1
                if self.at_end() or self.is_p(";"):
                    die("`return` without a value", t)
                return N("return", t, e=self.expr(ns))
            if t.s in ("true", "false"):
                self.i += 1
                return N("bool", t, value=(t.s == "true"))
            path = self.path()
            if self.is_p("!") and not self.is_p("=", 1) and (self.is_p("(", 1) or self.is_p("{", 1) or self.is_p("[", 1)):
                self.i += 1
                delim = self.cur().s
                inner = self.group()
                return N("macro", t, name=path[-1], delim=delim, toks=inner)
            if self.is_p("{") and not ns and path[-1][0].isupper():
                inner = self.group()
                fields = []
                for part in split_top(inner, ","):
                    if not part:
                        continue
                    if part[0].k != "id" or is_p(part[0], ".."):
                        die("unsupported struct-literal field", part[0])
                    if len(part) == 1:
                        fields.append((part[0].s, N("path", part[0], segs=[part[0].s])))
                    else:
                        if not is_p(part[1], ":"):
                            die("unsupported struct-literal field", part[0])
                        fields.append((part[0].s, Parser(part[2:], part[0]).whole_expr()))
                return N("struct", t, path=path, fields=fields)
            return N("path", t, segs=path)
        die(f"unsupported expression starting with {t.s!r}", t)

    def closure(self):
        t = self.cur()
        params = []
        if self.is_p("||"):
            self.i += 1
        else:
            self.eat_p("|")
            while not self.is_p("|"):
                p = self.eat_id()
                params.append(p.s)
                if self.is_p(":"):
                    die("typed closure parameters are outside the supported subset", p)
                if self.is_p(","):
                    self.i += 1
            self.eat_p("|")
        return N("closure", t, params=params, body=self.expr())

    def if_(self):
        t = self.eat_id("if")
        if self.is_id("let"):
            die("`if let` is outside the supported subset here", t)
        cond = self.expr(no_struct=True)
        then = self.block()
        els = None
        if self.is_id("else"):
            self.i += 1
            els = self.if_() if self.is_id("if") else self.block()
        return N("if", t, cond=cond, then=then, els=els)

    def whole_expr(self):
        e = self.expr()
        if not self.at_end():
            die(f"unexpected {self.cur().s!r} after expression", self.cur())
        return e

    def match_arms(self):
        arms = []
        while not self.at_end():
            t = self.cur()
            pat = self.pattern()
            guard = None
            if self.is_id("if"):
                self.i += 1
                guard = self.expr(no_struct=True)
            self.eat_p("=>")
            body = self.block() if self.is_p("{") else self.expr()
            if self.is_p(","):
                self.i += 1
            elif not self.at_end() and body.k != "block":
                die("expected ',' between match arms", self.cur())
            arms.append(N("arm", t, pat=pat, guard=guard, body=body))
        return arms

    def block(self):
        t = self.cur()
        if not self.is_p("{"):
            die("expected a block", t)
        return Parser(self.group(), t).block_body(t)

    def block_body(self, t):
        stmts, tail = [], None
        while not self.at_end():
            s = self.cur()
            if self.is_p(";"):
                self.i += 1
                continue
            if self.is_id("let"):
                self.i += 1
                is_mut = self.is_id("mut")
                pat = self.pattern()
                ty = None
                if self.is_p(":"):
                    self.i += 1
                    start = self.i
                    while not self.at_end() and not self.is_p("=") and not self.is_p(";"):
                        self.i += 1
                    ty = self.t[start:self.i]
                init = els = None
                if self.is_p("="):
                    self.i += 1
                    init = self.expr()
                    if self.is_id("else"):
                        self.i += 1
                        els = self.block()
                self.eat_p(";")
                stmts.append(N("let", s, pat=pat, ty=ty, init=init, els=els, mut=is_mut))
                continue
            if s.k == "id" and s.s in ("fn", "use", "struct", "enum", "impl", "mod", "const", "static"):
                die(f"nested item `{s.s}` is outside the supported subset", s)
            e = self.expr()
            if self.is_p(";"):
                self.i += 1
                stmts.append(N("semi", s, e=e))
            elif self.at_end():
                tail = e
            elif e.k in ("if", "match", "while", "block"):
                stmts.append(N("semi", s, e=e))
            else:
                die(f"expected ';', found {self.cur().s!r}", self.cur())
        return N("block", t, stmts=stmts, tail=tail)


def int_value(t):
    return int(t.s.split(":")[0], 0)


# --- signatures ---------------------------------------------------------------------
def parse_type(toks, generics, anchor):
    """-> model type: 'Int' 'U64' 'Float' 'Bool' 'Value' 'Instr' 'BinOp' 'UnOp',
    ('Result', T), ('Fn', [T..], R), ('Opaque', text)."""
    toks = list(toks)
    while toks and (is_p(toks[0], "&") or is_id(toks[0], "mut") or toks[0].k == "lifetime"):
        toks = toks[1:]
    if not toks:
        die("empty type", anchor)
    txt = text_of(toks)
    if len(toks) == 1 and toks[0].k == "id":
        s = toks[0].s
        if s in generics:
            return generics[s]
        prim = {"Variable": "Value", "Instruction": "Instr", "i64": "Int", "u64": "U64", "f64": "Float",
                "bool": "Bool", "BinOperator": "BinOp", "UnaryOperator": "UnOp"}
        if s in prim:
            return prim[s]
        return ("Opaque", txt)
    if is_id(toks[0], "Result") and len(toks) > 3 and is_p(toks[1], "<") and is_p(toks[-1], ">"):
        parts = split_top(toks[2:-1], ",")
        if len(parts) == 2 and text_of(parts[1]) in ("ExecError", "crate :: ExecError"):
            return ("Result", parse_type(parts[0], generics, anchor))
        return ("Opaque", txt)
    if toks[0].k == "id" and toks[0].s in ("FnOnce", "Fn", "FnMut") and len(toks) > 1 and is_p(toks[1], "("):
        c = match_close(toks, 1)
        args = [parse_type(p, generics, anchor) for p in split_top(toks[2:c], ",") if p]
        rest = toks[c + 1:]
        if not rest or not is_p(rest[0], "->"):
            return ("Opaque", txt)
        return ("Fn", args, parse_type(rest[1:], generics, anchor))
    return ("Opaque", txt)


def parse_signature(fn):
    """-> (params [(name, type, mut)], return type)"""
    toks = fn.sig
    i = 0
    gen_toks = []
    if i < len(toks) and is_p(toks[i], "<"):
        depth, j = 0, i
        while j < len(toks):
            if is_p(toks[j], "<"):
                depth += 1
            elif is_p(toks[j], ">"):
                depth -= 1
            elif is_p(toks[j], ">>"):
                depth -= 2
            if depth <= 0:
                break
            j += 1
        gen_toks = toks[i + 1:j]
        i = j + 1
    if i >= len(toks) or not is_p(toks[i], "("):
        die("malformed function signature", fn.tok)
    c = match_close(toks, i)
    param_toks = toks[i + 1:c]
    rest = toks[c + 1:]
    where = []
    for k, t in enumerate(rest):
        if is_id(t, "where"):
            where = rest[k + 1:]
            rest = rest[:k]
            break
    generics = {}
    bounds = [g for g in split_top(gen_toks, ",") if g] + [w for w in split_top(where, ",") if w]
    for g in bounds:
        if g[0].k != "id":
            continue
        generics.setdefault(g[0].s, ("Opaque", g[0].s))
    for g in bounds:
        if g[0].k == "id" and len(g) > 2 and is_p(g[1], ":"):
            generics[g[0].s] = parse_type(g[2:], generics, g[0])
    params = []
    for p in split_top(param_toks, ","):
        if not p:
            continue
        if any(is_id(x, "self") for x in p) and not any(is_p(x, ":") for x in p):
            params.append(("self", ("Opaque", "self"), False))
            continue
        mut = is_id(p[0], "mut")
        if mut:
            p = p[1:]
        if len(p) < 3 or p[0].k != "id" or not is_p(p[1], ":"):
            die("unsupported parameter form", p[0] if p else fn.tok)
        params.append((p[0].s, parse_type(p[2:], generics, p[0]), mut))
    ret = "Unit"
    if rest:
        if not is_p(rest[0], "->"):
            die("malformed return type", rest[0])
        ret = parse_type(rest[1:], generics, rest[0])
    return params, ret


# --------------------------------------------------------------------------------------
# 5. translation to Coq
# --------------------------------------------------------------------------------------
COQ_RESERVED = set("""
as at cofix else end exists exists2 fix for forall fun if in let match mod return then using where with
Type Set Prop SProp IF by
value instr outcome option list bool nat binop unop fbits ty ident
powf obind first_arm app negb andb orb xorb val_eqb array_concat
fadd fsub fmul fdiv fneg feq flt fle fgt fge
rs_wrapping_add rs_wrapping_sub rs_wrapping_mul rs_wrapping_div rs_wrapping_rem rs_wrapping_neg
rs_shl rs_shr rs_not rs_as_u64 range_incl_contains range_excl_contains
fuel true false
""".split())

SCALARS = ("Int", "U64", "Float", "Bool")
COQ_TYPE = {"Int": "Z", "U64": "Z", "Float": "fbits", "Bool": "bool", "Value": "value", "Instr": "instr",
            "BinOp": "binop", "UnOp": "unop"}
VARIANT = {"Int": ("VInt", "Int"), "Float": ("VFloat", "Float"), "Bool": ("VBool", "Bool"),
           "String": ("VString", "Str")}
INT_METHODS = {"wrapping_add": 1, "wrapping_sub": 1, "wrapping_mul": 1, "wrapping_div": 1,
               "wrapping_rem": 1, "wrapping_neg": 0}
EXEC_ERRORS = ("IndexOutOfBounds", "NegativeLength", "NegativeExponent", "ZeroDivision", "ZeroModulo",
               "OverflowShift")


def coq_ident(name):
    if name in COQ_RESERVED or name.startswith("gen_") or name.startswith("x__") or name.endswith("__et"):
        return name + "_"
    return name


def par(t):
    if re.fullmatch(r"[A-Za-z_][A-Za-z0-9_'.]*|[0-9]+", t):
        return t
    if t.startswith("(") and match_paren_end(t) == len(t) - 1:
        return t
    return "(" + t + ")"


def match_paren_end(t):
    d = 0
    for i, c in enumerate(t):
        if c == "(":
            d += 1
        elif c == ")":
            d -= 1
            if d == 0:
                return i
    return -1


def app(f, *args):
    return " ".join([f] + [par(a) for a in args])


def num(n):
    return str(n) if n >= 0 else f"({n})"


def coq_type(t):
    if isinstance(t, str) and t in COQ_TYPE:
        return COQ_TYPE[t]
    if isinstance(t, tuple) and t[0] == "Fn":
        return "(" + " -> ".join([coq_type(a) for a in t[1]] + [outcome_type(t[2])]) + ")"
    raise Unsupported(f"type {t!r} has no Coq rendering")


def outcome_type(ret):
    inner = ret[1] if isinstance(ret, tuple) and ret[0] == "Result" else ret
    return "outcome " + coq_type(inner)


def type_name(t):
    return {"Int": "i64", "U64": "u64", "Float": "f64", "Bool": "bool", "Str": "String", "Arr": "Array",
            "Value": "Variable", "Instr": "Instruction", "IntLit": "integer literal"}.get(t, str(t))


class FnInfo:
    def __init__(self, key, coq, params, ret, pure):
        self.key, self.coq, self.params, self.ret, self.pure = key, coq, params, ret, pure


class Var:
    def __init__(self, coq, ty):
        self.coq, self.ty = coq, ty


class FnTranslator:
    """translates one Rust function; `world` resolves callee names."""

    def __init__(self, world, fn, module):
        self.world, self.fn, self.module = world, fn, module
        self.params, self.ret = parse_signature(fn)
        self.counter = 0
        self.ranges = []          # (lo, hi, inclusive) of every literal range `contains`
        self.idents = {t.s for t in fn.body if t.k == "id"} | {p[0] for p in self.params}

    def fresh(self):
        self.counter += 1
        return f"x__{self.counter}"

    # ---- types
    def unify_int(self, a, b, tok):
        if a == "IntLit":
            return b if b in ("Int", "U64", "IntLit") else None
        if b == "IntLit":
            return a if a in ("Int", "U64") else None
        return a if a == b else None

    def convert(self, term, ty, target, tok):
        """`.into()` / `var!`: the conversions derived by #[from] on Variable and Instruction
        (checked against the enum declarations by check_conversions)"""
        if ty == target:
            return term
        if ty == "IntLit" and target in ("Int", "U64"):
            return term
        if target == "Value":
            if ty == "IntLit":
                ty = "Int"
            wrap = {"Int": "VInt", "Float": "VFloat", "Bool": "VBool", "Str": "VString"}
            if ty in wrap:
                self.world.conversions.add(("Variable", wrap[ty][1:], {"Int": "i64", "Float": "f64",
                                            "Bool": "bool", "Str": "String"}[ty]))
                return app(wrap[ty], term)
            if ty == "ArrV":
                self.world.conversions.add(("Variable", "Array", "Array"))
                return term
        if target == "Instr":
            if ty == "Value":
                self.world.conversions.add(("Instruction", "Variable", "Variable"))
                return app("IVar", term)
            if isinstance(ty, tuple) and ty[0] == "InstrS":
                self.world.conversions.add(("Instruction", ty[1], ty[1]))
                return term
        die(f"cannot convert {type_name(ty)} into {type_name(target)}", tok)

    # ---- expressions: -> (term, type); `binds` collects (var, outcome-term) in evaluation order
    def expr(self, e, env, binds, expect=None):
        k = e.k
        if k == "int":
            ty = {"": "IntLit", "i64": "Int", "u64": "U64"}.get(e.suffix)
            if ty is None:
                die(f"integer suffix {e.suffix} is outside the supported subset", e.tok)
            if ty == "IntLit" and expect in ("Int", "U64"):
                ty = expect
            return num(e.value), ty
        if k == "bool":
            return ("true" if e.value else "false"), "Bool"
        if k == "path":
            return self.path_expr(e, env)
        if k == "unary":
            if e.op in ("&", "*"):
                return self.expr(e.e, env, binds, expect)
            t, ty = self.expr(e.e, env, binds)
            if e.op == "!":
                if ty == "Bool":
                    return app("negb", t), "Bool"
                if ty == "Int":
                    return app("rs_not", t), "Int"
                die(f"`!` on {type_name(ty)} is outside the supported subset", e.tok)
            if e.op == "-":
                if ty == "Float":
                    return app("fneg", t), "Float"
                if ty == "IntLit":
                    return num(-int(t.strip("()"))), "IntLit"
                die(f"unary `-` on {type_name(ty)} is outside the supported subset "
                    "(on i64 it overflows for MIN; use wrapping_neg)", e.tok)
        if k == "binary":
            return self.binary(e, env, binds)
        if k == "cast":
            t, ty = self.expr(e.e, env, binds)
            if ty == "Int" and e.ty == "u64":
                return app("rs_as_u64", t), "U64"
            if ty == e.ty == "Int" or (ty == "Int" and e.ty == "i64"):
                return t, "Int"
            die(f"cast of {type_name(ty)} `as {e.ty}` is outside the supported subset", e.tok)
        if k == "try":
            t, ty = self.expr(e.e, env, binds)
            if not (isinstance(ty, tuple) and ty[0] == "Result"):
                die("`?` on something that is not a Result", e.tok)
            v = self.fresh()
            binds.append((v, t))
            return v, ty[1]
        if k == "mcall":
            return self.method(e, env, binds, expect)
        if k == "call":
            return self.call(e, env, binds, expect)
        if k == "macro":
            return self.macro(e, env, binds, expect)
        if k == "struct":
            return self.struct(e, env, binds)
        if k == "block" and not e.stmts and e.tail is not None:
            return self.expr(e.tail, env, binds, expect)
        die(f"expression form `{k}` is outside the supported subset here", e.tok)

    def path_expr(self, e, env):
        segs = e.segs
        if len(segs) == 1:
            if segs[0] in env:
                v = env[segs[0]]
                return v.coq, v.ty
            die(f"unknown name `{segs[0]}`", e.tok)
        if len(segs) >= 2 and segs[-2] == "BinOperator":
            return segs[-1], "BinOp"
        if len(segs) >= 2 and segs[-2] == "UnaryOperator":
            return "U" + segs[-1], "UnOp"
        if len(segs) >= 2 and segs[-2] == "ExecError":
            if segs[-1] not in EXEC_ERRORS:
                die(f"unknown ExecError::{segs[-1]}", e.tok)
            return "E_" + segs[-1], "Error"
        die(f"path `{'::'.join(segs)}` is outside the supported subset", e.tok)

    def binary(self, e, env, binds):
        op = e.op
        lt, lty = self.expr(e.l, env, binds)
        rt, rty = self.expr(e.r, env, binds)
        if op in ("<<", ">>"):
            if lty == "IntLit":
                lty = "Int"
            if rty not in ("Int", "IntLit", "U64"):
                die(f"shift amount of type {type_name(rty)}", e.tok)
            if rty == "IntLit" and not 0 <= int(rt.strip("()")) <= 63:
                die("constant shift amount outside 0..=63", e.tok)
            if lty == "Int":
                return app("rs_shl" if op == "<<" else "rs_shr", lt, rt), "Int"
            if lty == "U64" and op == ">>":
                return app("Z.shiftr", lt, rt), "U64"
            die(f"`{op}` on {type_name(lty)} is outside the supported subset", e.tok)
        if lty in ("Int", "U64", "IntLit") or rty in ("Int", "U64", "IntLit"):
            ty = self.unify_int(lty, rty, e.tok)
            if ty is None:
                die(f"`{op}` between {type_name(lty)} and {type_name(rty)}", e.tok)
            if ty == "IntLit":
                ty = "Int"
            table = {"&": "Z.land", "|": "Z.lor", "^": "Z.lxor"}
            if op in table:
                return app(table[op], lt, rt), ty
            cmp_ = {"<": "Z.ltb", "<=": "Z.leb", ">": "Z.gtb", ">=": "Z.geb", "==": "Z.eqb"}
            if op in cmp_:
                return app(cmp_[op], lt, rt), "Bool"
            if op == "!=":
                return app("negb", app("Z.eqb", lt, rt)), "Bool"
            die(f"`{op}` on {type_name(ty)} is outside the supported subset (plain integer arithmetic "
                "panics on overflow in debug builds; the sources use wrapping_* methods)", e.tok)
        if lty != rty:
            die(f"`{op}` between {type_name(lty)} and {type_name(rty)}", e.tok)
        if lty == "Float":
            table = {"+": "fadd", "-": "fsub", "*": "fmul", "/": "fdiv"}
            if op in table:
                return app(table[op], lt, rt), "Float"
            cmp_ = {"<": "flt", "<=": "fle", ">": "fgt", ">=": "fge", "==": "feq"}
            if op in cmp_:
                return app(cmp_[op], lt, rt), "Bool"
            if op == "!=":
                return app("negb", app("feq", lt, rt)), "Bool"
        if lty == "Bool":
            table = {"&": "andb", "|": "orb", "^": "xorb", "&&": "andb", "||": "orb", "!=": "xorb",
                     "==": "Bool.eqb"}
            if op in table:
                return app(table[op], lt, rt), "Bool"
        if lty == "Value":
            if op == "==":
                return app("val_eqb", lt, rt), "Bool"
            if op == "!=":
                return app("negb", app("val_eqb", lt, rt)), "Bool"
        die(f"`{op}` on {type_name(lty)} is outside the supported subset", e.tok)

    def range_contains(self, rng, arg, env, binds, tok):
        lo, loty = self.expr(rng.lo, env, binds)
        hi, hity = self.expr(rng.hi, env, binds)
        x, xty = self.expr(arg, env, binds)
        for ty in (loty, hity, xty):
            if ty not in ("Int", "IntLit"):
                die("range `contains` is supported on i64 only", tok)
        if rng.lo.k == "int" and rng.hi.k == "int":
            self.ranges.append((rng.lo.value, rng.hi.value, rng.incl))
        return app("range_incl_contains" if rng.incl else "range_excl_contains", lo, hi, x), "Bool"

    def method(self, e, env, binds, expect):
        name = e.name
        if name == "into":
            if e.args:
                die("into() takes no arguments", e.tok)
            if expect is None:
                die("cannot determine the target type of `.into()` here", e.tok)
            target = expect[1] if isinstance(expect, tuple) and expect[0] == "Result" else expect
            t, ty = self.expr(e.recv, env, binds)
            return self.convert(t, ty, target, e.tok), target
        if name == "contains" and e.recv.k == "range" and len(e.args) == 1:
            return self.range_contains(e.recv, e.args[0], env, binds, e.tok)
        if name == "clone" and not e.args:
            return self.expr(e.recv, env, binds, expect)
        rt, rty = self.expr(e.recv, env, binds)
        if rty == "Int" and name in INT_METHODS:
            if len(e.args) != INT_METHODS[name]:
                die(f"{name}: wrong number of arguments", e.tok)
            args = []
            for a in e.args:
                at, aty = self.expr(a, env, binds, "Int")
                if aty not in ("Int", "IntLit"):
                    die(f"{name}: argument of type {type_name(aty)}", e.tok)
                args.append(at)
            return app("rs_" + name, rt, *args), "Int"
        if rty == "Float" and name == "powf" and len(e.args) == 1:
            at, aty = self.expr(e.args[0], env, binds)
            if aty != "Float":
                die("powf: argument is not f64", e.tok)
            return app("powf", rt, at), "Float"
        die(f"method `{name}` on {type_name(rty)} is outside the supported subset", e.tok)

    def macro(self, e, env, binds, expect):
        if e.name == "format":
            if len(e.toks) != 1 or e.toks[0].k != "str":
                die("format!: only a single literal with inline `{name}` placeholders is supported", e.tok)
            pieces = re.findall(r"\{([^{}]*)\}|([^{}]+)", e.toks[0].s)
            terms = []
            for ph, lit in pieces:
                if lit:
                    die("format!: literal text between placeholders is outside the supported subset", e.tok)
                if ph not in env or env[ph].ty != "Str":
                    die(f"format!: placeholder {{{ph}}} is not a string variable", e.tok)
                terms.append(env[ph].coq)
            if not terms:
                die("format!: no placeholders", e.tok)
            return " ++ ".join(terms), "Str"
        if e.name == "var":
            inner = Parser(e.toks, e.tok).whole_expr()
            t, ty = self.expr(inner, env, binds)
            return self.convert(t, ty, "Value", e.tok), "Value"
        die(f"macro `{e.name}!` is outside the supported subset here", e.tok)

    def struct(self, e, env, binds):
        name = e.path[-1]
        fields = {}
        for f, v in e.fields:
            if f in fields:
                die(f"field `{f}` given twice", e.tok)
            fields[f] = v
        def field(fname, ty):
            if fname not in fields:
                die(f"{name}: field `{fname}` missing", e.tok)
            t, got = self.expr(fields[fname], env, binds, ty)
            if got != ty:
                die(f"{name}.{fname}: expected {type_name(ty)}, found {type_name(got)}", e.tok)
            return t
        if name == "BinOperation" and set(fields) == {"lhs", "rhs", "op"}:
            # Rust evaluates the field expressions in source order; they are pure here
            return (app("IBin", field("op", "BinOp"), field("lhs", "Instr"), field("rhs", "Instr")),
                    ("InstrS", "BinOperation"))
        if name == "UnaryOperation" and set(fields) == {"instruction", "op"}:
            return app("IUn", field("op", "UnOp"), field("instruction", "Instr")), ("InstrS", "UnaryOperation")
        die(f"struct literal `{name} {{ {', '.join(fields)} }}` is outside the supported subset", e.tok)

    def fn_value(self, a, want, env):
        """a function passed as an argument: a path naming a translated function"""
        if a.k != "path" or len(a.segs) != 1:
            die("only a plain function name may be passed as a function argument", a.tok)
        if a.segs[0] in env:
            v = env[a.segs[0]]
            if v.ty != want:
                die("function argument of the wrong type", a.tok)
            return v.coq
        info = self.world.resolve(a.segs[0], self.module, a.tok)
        if info.pure or [p[1] for p in info.params] != want[1] or info.ret != want[2]:
            die(f"`{a.segs[0]}` does not have the expected function type", a.tok)
        return app(info.coq, "powf")

    def call(self, e, env, binds, expect):
        f = e.f
        if f.k != "path":
            die("only calls of named functions are supported", e.tok)
        segs = f.segs
        if segs == ["Ok"]:
            if not (isinstance(expect, tuple) and expect[0] == "Result") or len(e.args) != 1:
                die("`Ok(..)` where no Result is expected", e.tok)
            t, ty = self.expr(e.args[0], env, binds, expect[1])
            return app("Ok", self.convert(t, ty, expect[1], e.tok)), expect
        if segs == ["Err"]:
            if not (isinstance(expect, tuple) and expect[0] == "Result") or len(e.args) != 1:
                die("`Err(..)` where no Result is expected", e.tok)
            t, ty = self.expr(e.args[0], env, binds)
            if ty != "Error":
                die("`Err(..)` of something that is not an ExecError variant", e.tok)
            return app("Err", t), expect
        if segs[-2:] == ["Array", "concat"]:
            if len(e.args) != 2:
                die("Array::concat takes two arguments", e.tok)
            parts = []
            for a in e.args:
                if a.k != "path" or len(a.segs) != 1 or a.segs[0] not in env or env[a.segs[0]].ty != "Arr":
                    die("Array::concat: arguments must be variables bound by Variable::Array(..)", a.tok)
                v = env[a.segs[0]]
                parts += [v.coq + "__et", v.coq]
            return app("array_concat", *parts), "ArrV"
        if len(segs) != 1:
            die(f"call of `{'::'.join(segs)}` is outside the supported subset", e.tok)
        name = segs[0]
        if name in env:
            v = env[name]
            if not (isinstance(v.ty, tuple) and v.ty[0] == "Fn"):
                die(f"`{name}` is not callable", e.tok)
            ptys, ret, head, pure = v.ty[1], v.ty[2], v.coq, False
        else:
            info = self.world.resolve(name, self.module, e.tok)
            ptys, ret, head, pure = [p[1] for p in info.params], info.ret, app(info.coq, "powf"), info.pure
        if len(ptys) != len(e.args):
            die(f"`{name}`: {len(e.args)} arguments for {len(ptys)} parameters", e.tok)
        args = []
        for a, pty in zip(e.args, ptys):
            if isinstance(pty, tuple) and pty[0] == "Fn":
                args.append(self.fn_value(a, pty, env))
                continue
            t, ty = self.expr(a, env, binds, pty)
            if ty == "IntLit" and pty in ("Int", "U64"):
                ty = pty
            if ty != pty:
                die(f"`{name}`: argument of type {type_name(ty)} where {type_name(pty)} is expected", a.tok)
            args.append(t)
        term = " ".join([head] + [par(a) for a in args])
        if pure or (isinstance(ret, tuple) and ret[0] == "Result"):
            return term, ret
        v = self.fresh()           # a panic inside the callee propagates
        binds.append((v, term))
        return v, ret

    def pure_expr(self, e, env, what):
        binds = []
        t, ty = self.expr(e, env, binds)
        if binds:
            die(f"{what} may not call fallible functions", e.tok)
        return t, ty

    # ---- patterns: -> (coq pattern, refutable)
    def pat(self, p, ty, env):
        if p.k == "pwild":
            return "_", False
        if p.k == "pbind":
            if ty == "Arr":
                die("internal: array binder outside Variable::Array", p.tok)
            c = coq_ident(p.name)
            env[p.name] = Var(c, ty)
            return c, False
        if p.k == "plit":
            if ty != "Int":
                die(f"integer literal pattern against {type_name(ty)}", p.tok)
            return num(p.value), True
        if p.k == "pbool":
            if ty != "Bool":
                die(f"boolean literal pattern against {type_name(ty)}", p.tok)
            return ("true" if p.value else "false"), True
        if p.k == "pctor":
            path = p.path
            if len(path) >= 2 and path[-2] == "Variable" and ty == "Value":
                if p.pats is None or len(p.pats) != 1:
                    die(f"Variable::{path[-1]}: exactly one sub-pattern expected", p.tok)
                sub = p.pats[0]
                if path[-1] == "Array":
                    if sub.k == "pwild":
                        return "VArr _ _", True
                    if sub.k != "pbind":
                        die("Variable::Array(..): only a binder or `_` is supported", p.tok)
                    c = coq_ident(sub.name)
                    env[sub.name] = Var(c, "Arr")
                    return f"VArr {c}__et {c}", True
                if path[-1] not in VARIANT:
                    die(f"Variable::{path[-1]} is outside the supported subset", p.tok)
                ctor, inner = VARIANT[path[-1]]
                s, _ = self.pat(sub, inner, env)
                return app(ctor, s), True
            if len(path) >= 2 and path[-2:] == ["Instruction", "Variable"] and ty == "Instr":
                if p.pats is None or len(p.pats) != 1:
                    die("Instruction::Variable: exactly one sub-pattern expected", p.tok)
                s, _ = self.pat(p.pats[0], "Value", env)
                return app("IVar", s), True
            die(f"pattern `{'::'.join(path)}` against {type_name(ty)} is outside the supported subset", p.tok)
        die(f"pattern form `{p.k}` is outside the supported subset", p.tok)

    def scrutinee(self, e, env):
        comps = e.es if e.k == "tuple" else [e]
        out = []
        for c in comps:
            while c.k == "unary" and c.op in ("&", "*"):
                c = c.e
            if c.k != "path" or len(c.segs) != 1 or c.segs[0] not in env:
                die("the scrutinee must be a variable or a tuple of variables", c.tok)
            v = env[c.segs[0]]
            if v.ty not in ("Value", "Instr", "Int", "Bool"):
                die(f"match on {type_name(v.ty)} is outside the supported subset", c.tok)
            out.append(v)
        return out

    def pat_row(self, p, scr, env):
        n = len(scr)
        if p.k == "ptuple":
            if len(p.pats) != n:
                die(f"tuple pattern of {len(p.pats)} components against {n}", p.tok)
            pats = p.pats
        elif n == 1:
            pats = [p]
        elif p.k == "pwild":
            pats = [p] * n
        else:
            die("a tuple scrutinee needs tuple patterns", p.tok)
        res = [self.pat(q, v.ty, env) for q, v in zip(pats, scr)]
        return ", ".join(r[0] for r in res), any(r[1] for r in res)

    # ---- tail position: -> a term of type `outcome T`
    def wrap(self, binds, body):
        for v, t in reversed(binds):
            body = f"obind {par(t)} (fun {v} => {body})"
        return body

    def tail(self, e, env):
        if e.k == "macro" and e.name in DIVERGING_MACROS:
            return "Panic"
        if e.k == "block":
            return self.block_tail(e.stmts, e.tail, env, e.tok)
        if e.k == "match":
            return self.match_tail(e.scrut, e.arms, env)
        if e.k == "macro" and e.name == "match_any":
            parts = split_top(e.toks, ",")
            scrut = Parser(parts[0], e.tok).whole_expr()
            rest = e.toks[len(parts[0]) + 1:]
            return self.match_tail(scrut, Parser(rest, e.tok).match_arms(), env)
        if e.k == "if" and e.els is not None:
            c, cty = self.pure_expr(e.cond, env, "a condition")
            if cty != "Bool":
                die("condition is not a bool", e.tok)
            return f"if {c} then {self.tail(e.then, dict(env))} else {self.tail(e.els, dict(env))}"
        if e.k == "return":
            return self.tail(e.e, env)
        binds = []
        ret = self.ret
        t, ty = self.expr(e, env, binds, ret)
        if isinstance(ret, tuple) and ret[0] == "Result":
            if ty != ret:
                die(f"expected a Result here, found {type_name(ty)}", e.tok)
            return self.wrap(binds, t)
        t = self.convert(t, ty, ret, e.tok)
        if binds and binds[-1][0] == t:
            body = binds.pop()[1]       # tail call: the callee's outcome is the result
            return self.wrap(binds, body)
        return self.wrap(binds, app("Ok", t))

    def match_tail(self, scrut, arms, env):
        scr = self.scrutinee(scrut, env)
        heads = ", ".join(v.coq for v in scr)
        none_row = ", ".join("_" for _ in scr)
        out = []
        for arm in arms:
            alts = arm.pat.alts if arm.pat.k == "por" else [arm.pat]
            for alt in alts:                       # an or-pattern is consecutive arms
                aenv = dict(env)
                row, refutable = self.pat_row(alt, scr, aenv)
                body = "Some " + par(self.tail(arm.body, aenv))
                if arm.guard is not None:
                    g, gty = self.pure_expr(arm.guard, aenv, "a guard")
                    if gty != "Bool":
                        die("guard is not a bool", arm.tok)
                    body = f"if {g} then {body} else None"
                fallback = f" | {none_row} => None" if refutable else ""
                out.append(f"(match {heads} with | {row} => {body}{fallback} end)")
        if not out:
            die("match without arms", scrut.tok)
        sep = ";\n      "
        return f"first_arm\n    [ {sep.join(out)} ]\n    Panic"

    def diverges(self, block):
        if block.stmts:
            last = block.stmts[-1] if block.tail is None else None
            if len(block.stmts) != 1 or last is None or last.k != "semi":
                return False
            e = last.e
        else:
            e = block.tail
        return e is not None and e.k == "macro" and e.name in DIVERGING_MACROS

    def returned(self, block):
        """a block that consists of `return e;` (or `return e`): e"""
        if len(block.stmts) == 1 and block.tail is None and block.stmts[0].k == "semi" \
                and block.stmts[0].e.k == "return":
            return block.stmts[0].e.e
        if not block.stmts and block.tail is not None and block.tail.k == "return":
            return block.tail.e
        return None

    def block_tail(self, stmts, tail, env, tok):
        if not stmts:
            if tail is None:
                die("block without a value", tok)
            return self.tail(tail, env)
        s, rest = stmts[0], stmts[1:]
        if s.k == "let" and s.els is not None:
            if not self.diverges(s.els):
                die("let-else: the else block must consist of panic!/unreachable!", s.tok)
            scr = self.scrutinee(s.init, env)
            nenv = dict(env)
            row, refutable = self.pat_row(s.pat, scr, nenv)
            if not refutable:
                die("let-else with an irrefutable pattern", s.tok)
            heads = ", ".join(v.coq for v in scr)
            none_row = ", ".join("_" for _ in scr)
            body = self.block_tail(rest, tail, nenv, tok)
            return f"match {heads} with | {row} => {body} | {none_row} => Panic end"
        if s.k == "let":
            if s.pat.k != "pbind" or s.init is None:
                die("only `let name = expr;` and let-else are supported", s.tok)
            binds = []
            t, ty = self.expr(s.init, env, binds)
            nenv = dict(env)
            c = coq_ident(s.pat.name)
            nenv[s.pat.name] = Var(c, "Int" if ty == "IntLit" else ty)
            return self.wrap(binds, f"let {c} := {t} in {self.block_tail(rest, tail, nenv, tok)}")
        if s.k == "semi" and s.e.k == "if" and s.e.els is None:
            r = self.returned(s.e.then)
            if r is None:
                die("an `if` without else must consist of `return ...;`", s.tok)
            c, cty = self.pure_expr(s.e.cond, env, "a condition")
            if cty != "Bool":
                die("condition is not a bool", s.tok)
            return f"if {c} then {self.tail(r, dict(env))} else {self.block_tail(rest, tail, env, tok)}"
        if s.k == "semi" and s.e.k == "return" and not rest and tail is None:
            return self.tail(s.e.e, env)
        if s.k == "semi" and s.e.k == "macro" and s.e.name in DIVERGING_MACROS:
            return "Panic"
        die("statement form is outside the supported subset", s.tok)

    # ---- whole functions
    def header(self, coq):
        ps = []
        env = {}
        for name, ty, _mut in self.params:
            c = coq_ident(name)
            env[name] = Var(c, ty)
            ps.append(f"({c} : {coq_type(ty)})")
        return env, f"{coq} (powf : fbits -> fbits -> fbits) " + " ".join(ps)

    def check_fresh(self):
        for i in self.idents:
            if i.startswith("x__") or i.endswith("__et") or i.startswith("gen_"):
                die(f"identifier `{i}` collides with generated names", self.fn.tok)

    def translate(self, coq):
        """-> (Coq text, FnInfo-fields)"""
        self.check_fresh()
        body = Parser(self.fn.body, self.fn.tok).block_body(self.fn.tok)
        if any(s.k == "semi" and s.e.k == "while" for s in body.stmts):
            return self.translate_loop(coq, body), True
        env, head = self.header(coq)
        if self.ret == "Unit" or (isinstance(self.ret, tuple) and self.ret[0] == "Opaque"):
            die("unsupported return type", self.fn.tok)
        term = self.block_tail(body.stmts, body.tail, env, self.fn.tok)
        return f"Definition {head} : {outcome_type(self.ret)} :=\n  {term}.\n", False

    # ---- `while` loops over scalar state (wrapping_pow)
    def translate_loop(self, coq, body):
        for name, ty, _ in self.params:
            if ty not in SCALARS:
                die("a function with a `while` loop must take scalars only", self.fn.tok)
        if self.ret not in SCALARS:
            die("a function with a `while` loop must return a scalar", self.fn.tok)
        env, head = self.header(coq)
        state = [(n, t) for n, t, _ in self.params]
        inits = []
        stmts = list(body.stmts)
        while stmts and stmts[0].k == "let":
            s = stmts.pop(0)
            if s.pat.k != "pbind" or s.init is None or s.els is not None or s.ty is None:
                die("loop function: only `let mut name: type = expr;` before the loop", s.tok)
            ty = parse_type(s.ty, {}, s.tok)
            if ty not in SCALARS:
                die("loop function: local of a non-scalar type", s.tok)
            t, got = self.pure_expr(s.init, env, "an initialiser")
            if got == "IntLit":
                got = ty
            if got != ty:
                die("loop function: initialiser of the wrong type", s.tok)
            c = coq_ident(s.pat.name)
            if s.pat.name in env:
                die("loop function: shadowing is outside the supported subset", s.tok)
            env[s.pat.name] = Var(c, ty)
            state.append((s.pat.name, ty))
            inits.append((c, t))
        if len(stmts) != 1 or stmts[0].e.k != "while" or body.tail is None:
            die("loop function: expected `let mut`*, one `while`, and a final expression", self.fn.tok)
        loop = stmts[0].e
        cond, cty = self.pure_expr(loop.cond, env, "a loop condition")
        if cty != "Bool":
            die("loop condition is not a bool", loop.tok)
        lets = []
        if loop.body.tail is not None:
            die("loop body must consist of statements", loop.tok)

        def assignment(a):
            if a.k != "assign" or a.lhs.k != "path" or len(a.lhs.segs) != 1 or a.lhs.segs[0] not in env:
                die("loop body: only assignments to the state variables are supported", a.tok)
            name = a.lhs.segs[0]
            v = env[name]
            rhs = a.rhs if a.op == "=" else N("binary", a.tok, op=a.op[:-1], l=a.lhs, r=a.rhs)
            t, ty = self.pure_expr(rhs, env, "an assignment")
            if ty == "IntLit":
                ty = v.ty
            if ty != v.ty:
                die(f"loop body: assignment of {type_name(ty)} to `{name}`", a.tok)
            return v.coq, t

        for s in loop.body.stmts:
            if s.k != "semi":
                die("loop body: unsupported statement", s.tok)
            e = s.e
            if e.k == "if" and e.els is None and len(e.then.stmts) == 1 and e.then.tail is None \
                    and e.then.stmts[0].k == "semi":
                c, cty2 = self.pure_expr(e.cond, env, "a condition")
                if cty2 != "Bool":
                    die("condition is not a bool", e.tok)
                v, t = assignment(e.then.stmts[0].e)
                lets.append(f"let {v} := if {c} then {t} else {v} in")
            else:
                v, t = assignment(e)
                lets.append(f"let {v} := {t} in")
        result, rty = self.pure_expr(body.tail, env, "the result")
        if rty != self.ret:
            die("loop function: result of the wrong type", body.tail.tok)
        # fuel: the loop must be driven by one u64/i64 variable that is halved in every round
        halved = [s.e for s in loop.body.stmts if s.e.k == "assign" and s.e.op == ">>=" and s.e.rhs.k == "int"
                  and s.e.rhs.value >= 1]
        if len(halved) != 1 or env[halved[0].lhs.segs[0]].ty != "U64":
            die("loop function: cannot bound the number of rounds (expected one `x >>= k` on a u64 "
                "variable tested by the loop condition)", loop.tok)
        drv = halved[0].lhs.segs[0]
        if not (loop.cond.k == "binary" and loop.cond.op in (">", "!=") and loop.cond.l.k == "path"
                and loop.cond.l.segs == [drv] and loop.cond.r.k == "int" and loop.cond.r.value == 0):
            die(f"loop function: the condition must be `{drv} > 0`", loop.tok)
        fuel = 64
        names = " ".join(env[n].coq for n, _ in state)
        sig = " ".join(f"({env[n].coq} : {coq_type(t)})" for n, t in state)
        lines = [f"Fixpoint {coq}_loop (fuel : nat) {sig} {{struct fuel}} : {coq_type(self.ret)} :=",
                 "  match fuel with",
                 f"  | O => {result}",
                 "  | S fuel =>",
                 f"      if {cond} then"]
        lines += ["        " + l for l in lets]
        lines += [f"        {coq}_loop fuel {names}",
                  f"      else {result}",
                  "  end.",
                  f"(* fuel {fuel}: `{drv}` is a u64 and is shifted right in every round *)",
                  f"Definition {head} : {coq_type(self.ret)} :="]
        body_term = f"{coq}_loop {fuel}%nat {names}"
        for c, t in reversed(inits):
            body_term = f"let {c} := {t} in {body_term}"
        lines.append(f"  {body_term}.")
        return "\n".join(lines) + "\n"


# --------------------------------------------------------------------------------------
# 6. the source files, the dispatch tables, pinned templates
# --------------------------------------------------------------------------------------
SOURCES = [  # (file, module the file itself is, or None when it only contains inline modules)
    ("src/instruction/bin_op/math/add.rs", "add"),
    ("src/instruction/bin_op/math/subtract.rs", "subtract"),
    ("src/instruction/bin_op/math/multiply.rs", "multiply"),
    ("src/instruction/bin_op/math/divide.rs", "divide"),
    ("src/instruction/bin_op/math/modulo.rs", "modulo"),
    ("src/instruction/bin_op/math/pow.rs", "pow"),
    ("src/instruction/bin_op/math.rs", None),
    ("src/instruction/bin_op/shift.rs", None),
    ("src/instruction/bin_op/bitwise.rs", None),
    ("src/instruction/bin_op/assign.rs", "assign"),
    ("src/instruction/bin_op.rs", None),
    ("src/instruction/prefix_op.rs", None),
    ("src/instruction/unary_operation.rs", None),
]

# modules that live in the files above but are modelled elsewhere (cells: Model/Exec.v)
NOT_TRANSLATED = {"indirection", "assign", "tests"}

# every module name a dispatch table may mention (the constructors of GenGlue.gmod)
KNOWN_MODULES = ["add", "subtract", "multiply", "divide", "modulo", "pow", "equal", "not_equal", "greater",
                 "greater_equal", "lower", "lower_equal", "bitwise_and", "bitwise_or", "xor", "lshift",
                 "rshift", "and", "or", "filter", "map", "at", "call", "partition", "not", "unary_minus",
                 "indirection", "sum", "product", "collect", "iter"]

FN_ALIAS = {"exec": "exec", "create_from_instructions": "fold", "create_from_instruction": "fold"}

BIN_EXEC_KEY = "impl Exec for BinOperation::exec"
BIN_RECREATE_KEY = "impl Recreate for BinOperation::recreate"
UN_EXEC_KEY = "impl Exec for UnaryOperation::exec"
UN_RECREATE_KEY = "impl Recreate for UnaryOperation::recreate"

# The text around the dispatch `match` (operand evaluation order, the short-circuit operators
# handled before the right operand is evaluated, the `Ok(..)` around the table).
SKELETONS = {
    BIN_EXEC_KEY:
        "( & self , interpreter : & mut Interpreter ) -> ExecResult { "
        "let lhs = self . lhs . exec ( interpreter ) ? ; "
        "if let BinOperator :: And = self . op { return and :: exec ( lhs , & self . rhs , interpreter ) ; } "
        "if let BinOperator :: Or = self . op { return or :: exec ( lhs , & self . rhs , interpreter ) ; } "
        "let rhs = self . rhs . exec ( interpreter ) ? ; "
        "Ok ( match self . op { <ARMS> } ) }",
    BIN_RECREATE_KEY:
        "( & self , local_variables : & mut LocalVariables ) -> Result < Instruction , ExecError > { "
        "let lhs = self . lhs . recreate ( local_variables ) ? ; "
        "if let BinOperator :: And = self . op { return and :: recreate ( lhs , & self . rhs , local_variables ) ; } "
        "if let BinOperator :: Or = self . op { return or :: recreate ( lhs , & self . rhs , local_variables ) ; } "
        "let rhs = self . rhs . recreate ( local_variables ) ? ; "
        "match self . op { <ARMS> } }",
    UN_EXEC_KEY:
        "( & self , interpreter : & mut Interpreter ) -> ExecResult { "
        "let var = self . instruction . exec ( interpreter ) ? ; "
        "Ok ( match self . op { <ARMS> } ) }",
    UN_RECREATE_KEY:
        "( & self , local_variables : & mut LocalVariables , ) -> Result < super :: Instruction , crate :: ExecError > { "
        "let instruction = self . instruction . recreate ( local_variables ) ? ; "
        "Ok ( match self . op { <ARMS> } ) }",
}

# assign::exec / assign::try_exec: read the cell, apply `function` to (current content, rhs),
# store the result, return the stored value; try_exec leaves on an error before storing.
PINNED = {
    "assign::exec":
        "< T : FnOnce ( Variable , Variable ) -> Variable > ( lhs : Variable , rhs : Variable , function : T , ) "
        "-> Variable { "
        "let lhs = lhs . into_mut ( ) . unwrap ( ) ; "
        "let mut lhs = lhs . variable . write ( ) . unwrap ( ) ; "
        "* lhs = function ( lhs . clone ( ) , rhs ) ; "
        "lhs . clone ( ) }",
    "assign::try_exec":
        "< T : FnOnce ( Variable , Variable ) -> Result < Variable , ExecError > > "
        "( lhs : Variable , rhs : Variable , function : T , ) -> Result < Variable , ExecError > { "
        "let lhs = lhs . into_mut ( ) . unwrap ( ) ; "
        "let mut lhs = lhs . variable . write ( ) . unwrap ( ) ; "
        "* lhs = function ( lhs . clone ( ) , rhs ) ? ; "
        "Ok ( lhs . clone ( ) ) }",
}

UNARY_OTHER_ARMS = {  # arms of UnaryOperation::exec that are not module calls (pinned text -> constructor)
    "return Err ( ExecStop :: Return ( var ) )": "GReturn",
    "var . into_function ( ) . unwrap ( ) . exec ( interpreter ) ?": "GCallFunction",
    # S27 repair: the reducers also receive the static type of the operand (read in Model/Exec.v as `sty x`)
    "sum :: exec ( var , & self . instruction . return_type ( ) ) ?": "GCall M_sum F_exec true",
    "product :: exec ( var , & self . instruction . return_type ( ) ) ?": "GCall M_product F_exec true",
}


def split_arms_region(fn):
    """-> (skeleton text, arm tokens)"""
    b = fn.body
    for i in range(len(b) - 4):
        if is_id(b[i], "match") and is_id(b[i + 1], "self") and is_p(b[i + 2], ".") and is_id(b[i + 3], "op") \
                and is_p(b[i + 4], "{"):
            c = match_close(b, i + 4)
            skel = text_of(fn.sig) + " { " + text_of(b[:i + 5]) + " <ARMS> " + text_of(b[c:]) + " }"
            return skel, b[i + 5:c]
    die("`match self.op {` not found", fn.tok)


def is_var(e, name):
    return e.k == "path" and e.segs == [name]


def classify_arm(body, operands, enum, arm_tok):
    """-> Coq term of type gcall"""
    def modcall(e):
        if e.k == "call" and e.f.k == "path" and len(e.f.segs) == 2:
            m, f = e.f.segs
            if m not in KNOWN_MODULES and m != "assign":
                die(f"dispatch arm calls the unknown module `{m}`", e.tok)
            return m, f, e.args
        return None

    def gfn(f, tok):
        if f == "exec":
            return "F_exec"
        if f in ("create_from_instructions", "create_from_instruction"):
            return "F_create"
        die(f"dispatch arm calls `{f}`: expected exec or create_from_instruction(s)", tok)

    def operands_ok(args, tok):
        if len(args) != len(operands) or not all(is_var(a, o) for a, o in zip(args, operands)):
            die(f"dispatch arm does not pass ({', '.join(operands)}) in this order: outside the supported "
                "subset", tok)

    e = body
    q = False
    if e.k == "try":
        q, e = True, e.e
    if e.k == "macro" and e.name == "unreachable" and not q:
        return "GUnreachable"
    mc = modcall(e)
    if mc and mc[0] == "assign":
        _, w, args = mc
        if w not in ("exec", "try_exec"):
            die(f"assign::{w} is not a known wrapper", e.tok)
        wrap = "W_exec" if w == "exec" else "W_try_exec"
        if len(args) != 3:
            die("assign wrapper: three arguments expected", e.tok)
        operands_ok(args[:2], e.tok)
        fn = args[2]
        qs = "true" if q else "false"
        if fn.k == "closure":
            if len(fn.params) == 2 and fn.params[0] != fn.params[1] and is_var(fn.body, fn.params[1]):
                return f"GAssignSnd {wrap} {qs}"
            die("assign wrapper: only the closure `|_, b| b` is supported", fn.tok)
        if fn.k == "path" and len(fn.segs) == 2 and fn.segs[0] in KNOWN_MODULES:
            return f"GAssign {wrap} {qs} M_{fn.segs[0]} {gfn(fn.segs[1], fn.tok)}"
        die("assign wrapper: the third argument must be `module::exec`", fn.tok)
    if mc:
        m, f, args = mc
        operands_ok(args, e.tok)
        return f"GCall M_{m} {gfn(f, e.tok)} {'true' if q else 'false'}"
    if e.k == "call" and is_var(e.f, "Ok") and len(e.args) == 1 and not q:
        mc = modcall(e.args[0])
        if mc and mc[0] != "assign":
            operands_ok(mc[2], e.tok)
            return f"GOkCall M_{mc[0]} {gfn(mc[1], e.tok)}"
        inner = e.args[0]
        if inner.k == "mcall" and inner.name == "into" and inner.recv.k == "struct" \
                and inner.recv.path == ["Self"] and [f for f, _ in inner.recv.fields] == ["lhs", "rhs", "op"] \
                and all(is_var(v, f) for f, v in inner.recv.fields):
            return "GKeep"
    if e.k == "mcall" and e.name == "into" and e.recv.k == "struct" and e.recv.path == ["UnaryOperation"] \
            and [f for f, _ in e.recv.fields] == ["instruction", "op"] \
            and all(is_var(v, f) for f, v in e.recv.fields) and not q:
        return "GKeep"
    die("dispatch arm of an unsupported form", arm_tok)


def dispatch_table(fn, operands, enum, prefix, other_arms=None):
    """-> (rows [(ctor, gcall)], default gcall or None)"""
    skel, arm_toks = split_arms_region(fn)
    key = "::".join(fn.path + [fn.name])
    if skel != SKELETONS[key]:
        die(f"the text around the dispatch table of {key} changed (operand evaluation, early returns):\n"
            f"  expected: {SKELETONS[key]}\n  found:    {skel}", fn.tok)
    # arms whose body is not a call form are compared as text
    rows, default = [], None
    p = Parser(arm_toks, fn.tok)
    while not p.at_end():
        t = p.cur()
        pat = p.pattern()
        if p.is_id("if"):
            die("guards in a dispatch table are outside the supported subset", p.cur())
        p.eat_p("=>")
        start = p.i
        # find the end of the arm body without parsing it (it may be outside the expression subset)
        depth_toks = p.t
        j = start
        while j < len(depth_toks) and not is_p(depth_toks[j], ","):
            if depth_toks[j].k == "p" and depth_toks[j].s in OPEN:
                j = match_close(depth_toks, j) + 1
            else:
                j += 1
        body_toks = depth_toks[start:j]
        p.i = j + 1 if j < len(depth_toks) else j
        txt = text_of(body_toks)
        if other_arms and txt in other_arms:
            call = other_arms[txt]
        else:
            call = classify_arm(Parser(body_toks, t).whole_expr(), operands, enum, t)
        alts = pat.alts if pat.k == "por" else [pat]
        for a in alts:
            if default is not None:
                die("dispatch arm after the catch-all arm", a.tok)
            if a.k == "pctor" and a.pats is None and len(a.path) == 2 and a.path[0] == enum:
                rows.append((prefix + a.path[1], call))
            elif a.k in ("pwild", "pbind"):
                if a.k == "pbind" and a.name != "op":
                    die("catch-all binder of a dispatch table must be `op`", a.tok)
                default = call
            else:
                die("dispatch pattern of an unsupported form", a.tok)
    return rows, default


# --------------------------------------------------------------------------------------
# 7. the world: all functions of the source files, translated on demand
# --------------------------------------------------------------------------------------
class World:
    def __init__(self, repo):
        self.fns = {}
        for rel, module in SOURCES:
            path = os.path.join(repo, rel)
            if not os.path.exists(path):
                raise Unsupported(f"{rel}: file not found")
            toks = expand_duplicates(tokenize(open(path, encoding="utf-8").read(), rel))
            found = walk_items(toks, [module] if module else [], {})
            stem = os.path.splitext(os.path.basename(rel))[0]
            if stem != "bin_op":      # top-level helper functions of a file that only hosts inline modules
                found = {(k if "::" in k else f"{stem}::{k}"): f for k, f in found.items()}
            for k, f in found.items():
                if k in self.fns:
                    die(f"function {k} defined in two files", f.tok)
                self.fns[k] = f
        self.conversions = set()   # (enum, variant, source type) used through `.into()`
        self.done = {}        # key -> FnInfo
        self.busy = set()
        self.defs = []        # Coq text in dependency order
        self.ranges = {}      # coq name -> [(lo, hi, incl)]

    def coq_name(self, key):
        parts = key.split("::")
        if len(parts) == 1:
            return "gen_" + parts[0]
        return "gen_" + "_".join(parts[:-1]) + "_" + FN_ALIAS.get(parts[-1], parts[-1])

    def resolve(self, name, module, tok):
        for key in ([f"{module}::{name}"] if module else []) + [name]:
            if key in self.fns:
                return self.translate(key, tok)
        die(f"call of `{name}`, which is not defined in the translated files", tok)

    def translate(self, key, tok=None):
        if key in self.done:
            return self.done[key]
        if key not in self.fns:
            die(f"function {key} not found", tok)
        if key in self.busy:
            die(f"recursive function {key}", tok)
        self.busy.add(key)
        fn = self.fns[key]
        module = "::".join(fn.path) if fn.path else None
        tr = FnTranslator(self, fn, module)
        coq = self.coq_name(key)
        text, pure = tr.translate(coq)
        info = FnInfo(key, coq, tr.params, tr.ret, pure)
        src = f"(* {fn.tok.file}:{fn.tok.line}  fn {key} *)\n"
        self.defs.append(src + text)
        if tr.ranges:
            self.ranges[coq] = tr.ranges
        self.busy.discard(key)
        self.done[key] = info
        return info


def check_conversions(repo, used):
    """every `.into()` the translation relied on must be a conversion derived by `#[from]` /
    `#[from(T, ..)]` on the variant of `enum Variable` / `enum Instruction` it was read as"""
    decl = {"Variable": "src/variable.rs", "Instruction": "src/instruction.rs"}
    for enum in sorted({u[0] for u in used}):
        rel = decl[enum]
        path = os.path.join(repo, rel)
        if not os.path.exists(path):
            raise Unsupported(f"{rel}: file not found")
        toks = tokenize(open(path, encoding="utf-8").read(), rel)
        body = None
        for i in range(len(toks) - 2):
            if is_id(toks[i], "enum") and is_id(toks[i + 1], enum) and is_p(toks[i + 2], "{"):
                if not any(is_id(t, "From") for t in toks[max(0, i - 40):i]):
                    die(f"enum {enum} no longer derives From", toks[i])
                body = toks[i + 3:match_close(toks, i + 2)]
                anchor = toks[i]
        if body is None:
            raise Unsupported(f"{rel}: enum {enum} not found")
        sources = {}          # source type text -> variant
        for part in split_top(body, ","):
            froms, j = None, 0
            while j < len(part) and is_p(part[j], "#"):
                c = match_close(part, j + 1)
                attr = part[j + 2:c]
                if attr and is_id(attr[0], "from"):
                    froms = [text_of(x) for x in split_top(attr[2:-1], ",") if x] if len(attr) > 1 else []
                j = c + 1
            if j >= len(part) or part[j].k != "id":
                continue
            variant = part[j].s
            if froms is None:
                continue
            if not froms:
                if j + 1 >= len(part) or not is_p(part[j + 1], "("):
                    continue
                froms = [text_of(part[j + 2:match_close(part, j + 1)])]
            for f in froms:
                if f in sources:
                    die(f"enum {enum}: two variants convert from {f}", part[j])
                sources[f] = variant
        for e, variant, src in sorted(used):
            if e == enum and sources.get(src) != variant:
                die(f"`.into()` from {src} was read as {enum}::{variant}, but the #[from] attributes of "
                    f"enum {enum} say {sources.get(src)}", anchor)


def coq_list(items, indent="  "):
    if not items:
        return "[]"
    return "[ " + (";\n" + indent + "  ").join(items) + " ]"


def generate(repo):
    w = World(repo)
    for key, expected in PINNED.items():
        if key not in w.fns:
            raise Unsupported(f"{key} not found")
        fn = w.fns[key]
        got = (text_of(fn.sig) + " { " + text_of(fn.body) + " }").replace(">>", "> >")
        if got != expected:
            die(f"{key} changed (its reading in Model/Exec.v is pinned to the old text):\n"
                f"  expected: {expected}\n  found:    {got}", fn.tok)
    for key in (BIN_EXEC_KEY, BIN_RECREATE_KEY, UN_EXEC_KEY, UN_RECREATE_KEY):
        if key not in w.fns:
            raise Unsupported(f"{key} not found")
    bin_exec, bin_exec_d = dispatch_table(w.fns[BIN_EXEC_KEY], ["lhs", "rhs"], "BinOperator", "")
    bin_recr, bin_recr_d = dispatch_table(w.fns[BIN_RECREATE_KEY], ["lhs", "rhs"], "BinOperator", "")
    un_exec, un_exec_d = dispatch_table(w.fns[UN_EXEC_KEY], ["var"], "UnaryOperator", "U", UNARY_OTHER_ARMS)
    un_recr, un_recr_d = dispatch_table(w.fns[UN_RECREATE_KEY], ["instruction"], "UnaryOperator", "U")

    # which modules have a translated exec / fold: every module of the source files that a
    # dispatch table mentions (except the cell operations)
    mentioned = []
    for rows, d in ((bin_exec, bin_exec_d), (bin_recr, bin_recr_d), (un_exec, un_exec_d), (un_recr, un_recr_d)):
        for _, call in rows + ([("", d)] if d else []):
            for m, f in re.findall(r"M_(\w+) (F_\w+)", call):
                if (m, f) not in mentioned:
                    mentioned.append((m, f))
    arity = {}
    for rows, n in ((bin_exec, 2), (bin_recr, 2), (un_exec, 1), (un_recr, 1)):
        for _, call in rows:
            for m, f in re.findall(r"M_(\w+) (F_\w+)", call):
                if arity.setdefault(m, n) != n:
                    raise Unsupported(f"module {m} is used both as a binary and as a unary operator")
    exec_of, fold_of = {1: [], 2: []}, {1: [], 2: []}
    is_result = []
    for m, f in mentioned:
        if m in NOT_TRANSLATED:
            continue
        names = ["exec"] if f == "F_exec" else ["create_from_instructions", "create_from_instruction"]
        key = next((f"{m}::{n}" for n in names if f"{m}::{n}" in w.fns), None)
        if key is None:
            continue          # a module outside the translated files (filter, map, at, ...)
        info = w.translate(key)
        n = arity[m]
        want = ["Value"] * n if f == "F_exec" else ["Instr"] * n
        want_ret = "Value" if f == "F_exec" else "Instr"
        got_ret = info.ret[1] if isinstance(info.ret, tuple) and info.ret[0] == "Result" else info.ret
        if [p[1] for p in info.params] != want or got_ret != want_ret:
            die(f"{key}: unexpected signature", w.fns[key].tok)
        (exec_of if f == "F_exec" else fold_of)[n].append((m, info.coq))
        is_result.append(f"(M_{m}, {f}, {'true' if isinstance(info.ret, tuple) else 'false'})")

    check_conversions(repo, w.conversions)

    out = []
    out.append("(* GENERATED by translators/scalar2coq.py from the operator sources of /repo "
               "(src/instruction/bin_op/**, prefix_op.rs, unary_operation.rs) — do not edit.\n"
               "   One `option` per Rust match arm, in source order; [first_arm] takes the first `Some`.\n"
               "   Tied to Model/Ops.v and Model/Recreate.v by Lemmas/ScalarTie.v (Props/C08c.v). *)")
    out.append("From SSL.Model Require Import Base Ty Float Value Ops Syntax GenGlue.")
    out.append("Local Open Scope Z_scope.\n")
    out.extend(w.defs)

    def of_table(name, rows, ty):
        lines = [f"Definition {name} (powf : fbits -> fbits -> fbits) (m : gmod) : option ({ty}) :=",
                 "  match m with"]
        for m, coq in rows:
            lines.append(f"  | M_{m} => Some ({coq} powf)")
        lines.append("  | _ => None")
        lines.append("  end.\n")
        return "\n".join(lines)

    out.append("(* the translated functions by module *)")
    out.append(of_table("gen_exec_of", exec_of[2], "value -> value -> outcome value"))
    out.append(of_table("gen_fold_of", fold_of[2], "instr -> instr -> outcome instr"))
    out.append(of_table("gen_unary_exec_of", exec_of[1], "value -> outcome value"))
    out.append(of_table("gen_unary_fold_of", fold_of[1], "instr -> outcome instr"))
    out.append("(* does the Rust function return a Result (true) or a plain value (false)? *)")
    out.append("Definition gen_returns_result : list (gmod * gfn * bool) :=\n  " + coq_list(is_result) + ".\n")

    def table(name, rows, default, keyty, comment):
        txt = f"(* {comment} *)\n"
        txt += f"Definition {name} : list ({keyty} * gcall) :=\n  "
        txt += coq_list([f"({k}, {c})" for k, c in rows]) + ".\n"
        txt += f"Definition {name}_default : option gcall := {'Some ' + par(default) if default else 'None'}.\n"
        return txt

    out.append(table("gen_exec_dispatch", bin_exec, bin_exec_d, "binop",
                     "BinOperation::exec: `match self.op` after both operands were evaluated "
                     "(And / Or leave before, through and::exec / or::exec)"))
    out.append(table("gen_recreate_dispatch", bin_recr, bin_recr_d, "binop",
                     "BinOperation::recreate: `match self.op` after both operands were recreated"))
    out.append(table("gen_unary_exec_dispatch", un_exec, un_exec_d, "unop", "UnaryOperation::exec"))
    out.append(table("gen_unary_recreate_dispatch", un_recr, un_recr_d, "unop", "UnaryOperation::recreate"))

    out.append("(* literal ranges tested with `contains`, per function: (low, high, inclusive) *)")
    rl = []
    for coq in sorted(w.ranges):
        rs = "; ".join(f"({num(lo)}, {num(hi)}, {'true' if inc else 'false'})" for lo, hi, inc in w.ranges[coq])
        out.append(f"Definition {coq}_ranges : list (Z * Z * bool) := [{rs}].")
        rl.append(f"{coq}_ranges")
    out.append("Definition gen_all_ranges : list (list (Z * Z * bool)) :=\n  " + coq_list(rl) + ".\n")
    return "\n".join(out), w


def main():
    if len(sys.argv) != 3:
        sys.exit("usage: scalar2coq.py <repo_dir> <gen_dir>")
    repo, gen = sys.argv[1], sys.argv[2]
    try:
        text, w = generate(repo)
    except Unsupported as e:
        sys.exit(f"scalar2coq: {e}")
    path = os.path.join(gen, "GenScalar.v")
    if not os.path.exists(path) or open(path, encoding="utf-8").read() != text:
        with open(path, "w", encoding="utf-8") as f:
            f.write(text)
    print(f"scalar2coq: {len(w.done)} functions translated, dispatch tables of "
          f"BinOperation and UnaryOperation read")


if __name__ == "__main__":
    main()

#!/usr/bin/env python3
"""T10 — the value-level functions properties C09, C19 and the default values rest on
-> coq/Gen/GenValueFns.v.

usage: valuefns2coq.py <repo_dir> <gen_dir>

Reads (every run)
  src/stdlib.rs                 len
  src/instruction/at.rs         exec, range, create_from_instructions
  src/instruction/slicing.rs    Slicing::exec_index, Slicing::exec  (impl Exec)
  src/variable.rs               impl PartialEq for Variable (eq), Variable::of_type
  src/variable/array.rs         impl PartialEq for Array (eq)
and writes one Coq function per Rust function over the model's `value` / `instr` (Model/Value.v,
Model/Syntax.v), structurally following the Rust text (the machinery of typefns2coq.py: arms in
source order, guards fall through, early `return`, `?`, closures, iterator combinators), with
  Result<T, ExecError|ExecStop>  ->  outcome T          (`?` = obind, `Err(e)` = Err e)
  a plain result with a reachable panic (unwrap / unreachable!) -> outcome T as well (Panic)
  `&mut Interpreter`             ->  the evaluation function  instr -> outcome value
                                     (`ins.exec(interpreter)` = interpreter ins; the order of the binds
                                     is the order of evaluation)
  strings                        ->  lists of Unicode scalar values (chars() = the list)
  i64 / isize                    ->  Z,   usize -> nat   (casts: see the prelude of the Gen file).
Lemmas/ValueTie.v proves the regenerated functions equal to Model/Seq.v, Model/Value.v,
Model/Recreate.v (Props/C09c.v, Props/C19c.v).

PINNED token by token (with a hand-written reading where a translated function calls them):
  Function::of_type (reading: pinned_Function_of_type), Slicing::create, Slicing::recreate,
  Array::from + From<Arc<[Variable]>> for Variable (reading: Value.arr_of), Deref for Array,
  and the `slyce` crate by version and checksum in Cargo.lock (its algorithm is Model/Seq.v's
  slyce_indices; the registry source, when present, by SHA-256).
The declarations the reading rests on (variants and payloads of `enum Variable`, EnumAsInner,
`struct Array`, `struct Slicing`, the #[from] conversions, no derived PartialEq/Eq on Array) are
compared with the expected ones.

Python 3 stdlib only; deterministic; the output is rewritten only when it changed; anything outside
the supported subset stops the run with a non-zero exit code and `file:line: what`.
"""
import glob
import hashlib
import os
import re
import sys

sys.path.insert(0, os.path.dirname(os.path.abspath(__file__)))
import typefns2coq as T  # noqa: E402
from typefns2coq import (Unsupported, die, tokenize, match_close, split_top, text_of, is_p, is_id, N,  # noqa: E402
                         Parser, Items, Fn, walk, ntext, split_shr, strip_refs, skip_generics, derives,
                         unify, par, app, ind, coq_match, coq_if, coq_list, coq_ident, V, flat, is_ident,
                         FT, VARIANTS, sccs, acyclic_order, mangle, coq_string)

# --------------------------------------------------------------------------------------
# 1. types:  T9's ('Ty' 'Bool' 'Nat' 'Str'(ident) 'FnTy' 'Struct' 'Multi' List Opt Iter Map Tup)  plus
#    'Val' 'Int' 'Float' 'Text'(string = list of chars) 'Char' 'Instr' 'Interp' 'Index' 'Unit' 'Never'
#    'Closure'; records 'Arr' 'Fun' 'Mut' 'IArr' 'Slicing' 'Slice' 'Range'; ('Arc',T) ('Res',T) ('Into',T)
# --------------------------------------------------------------------------------------
RECORDS = {
    "FnTy": [("params", ("List", "Ty")), ("return_type", "Ty")],
    "Arr": [("element_type", "Ty"), ("elements", ("List", "Val"))],            # struct Array  = VArr et vs
    "Fun": [("id", "Nat"), ("params", ("List", "Ty")), ("return_type", "Ty")],  # Arc<Function> = VFun id ps r
    "Mut": [("loc", "Nat"), ("var_type", "Ty")],                                # Arc<Mut>      = VMut loc t
    "IArr": [("instructions", ("List", "Instr")), ("element_type", "Ty")],      # instruction::Array = IArray es et
    "Slicing": [("lhs", "Instr"), ("start", ("Opt", "Instr")), ("stop", ("Opt", "Instr")),
                ("step", ("Opt", "Instr"))],
    "Slice": [("start", "Index"), ("end", "Index"), ("step", ("Opt", "Int"))],  # slyce::Slice
    "Range": [("start", "Int"), ("end", "Int")],
}
# fields of a record that have no Rust name (identity of an allocation)
HIDDEN_FIELDS = {("Fun", "id"), ("Mut", "loc")}

# enum Variable: variant -> (Coq constructor, payload type)
VAL_VARIANTS = {
    "Bool": ("VBool", "Bool"), "Int": ("VInt", "Int"), "Float": ("VFloat", "Float"),
    "String": ("VString", ("Arc", "Text")), "Function": ("VFun", ("Arc", "Fun")),
    "Array": ("VArr", ("Arc", "Arr")), "Tuple": ("VTup", ("Arc", ("List", "Val"))),
    "Mut": ("VMut", ("Arc", "Mut")), "Struct": ("VStruct", ("Arc", ("Map", "Val"))), "Void": ("VVoid", None),
}
EXPECT_VAL_VARIANTS = {
    "Bool": "bool", "Int": "i64", "Float": "f64", "String": "Arc < str >", "Function": "Arc < Function >",
    "Array": "Arc < Array >", "Tuple": "Arc < [ Variable ] >", "Mut": "Arc < Mut >",
    "Struct": "Arc < VariableMap >", "Void": None,
}
# the variants of enum Instruction the translated functions mention
INSTR_VARIANTS = {"Variable": ("IVar", "Val"), "Array": ("IArray", ("Arc", "IArr"))}
EXPECT_INSTR = {"Variable": ("Variable", []), "Array": ("Arc < Array >", ["Array"]),
                "BinOperation": ("Arc < BinOperation >", ["BinOperation"]),
                "Slicing": ("Arc < Slicing >", ["Slicing"])}
EXEC_ERRORS = ("IndexOutOfBounds", "NegativeLength", "NegativeExponent", "ZeroDivision", "ZeroModulo",
               "OverflowShift")
SELF_OF = {"Variable": "Val", "Array": "Arr", "Slicing": "Slicing", "Type": "Ty", "FunctionType": "FnTy"}
NAME_OF = {"Val": "Variable", "Arr": "Array", "Slicing": "Slicing", "Ty": "Type", "FnTy": "FunctionType"}


def unarc(ty):
    return ty[1] if isinstance(ty, tuple) and ty[0] == "Arc" else ty


def ctype(ty, tok=None):
    ty = unarc(ty)
    simple = {"Val": "value", "Int": "Z", "Float": "fbits", "Text": "list Z", "Char": "Z", "Instr": "instr",
              "Interp": "instr -> outcome value", "Index": "option Z", "Unit": "unit"}
    if ty in simple:
        return simple[ty]
    if ty in RECORDS:
        return "(" + " * ".join(par(ctype(t, tok)) for _, t in RECORDS[ty]) + ")"
    if isinstance(ty, tuple):
        if ty[0] in ("List", "Iter"):
            return "list " + par(ctype(ty[1], tok))
        if ty[0] in ("Opt", "Into"):
            return "option " + par(ctype(ty[1], tok))
        if ty[0] == "Res":
            return "outcome " + par(ctype(ty[1], tok))
        if ty[0] == "Map":
            return "list (ident * " + ctype(ty[1], tok) + ")"
        if ty[0] == "Tup":
            return "(" + " * ".join(par(ctype(x, tok)) for x in ty[1]) + ")"
    return T.coq_ty(ty, tok)


def tname(ty):
    names = {"Val": "Variable", "Int": "i64", "Float": "f64", "Text": "str", "Char": "char",
             "Instr": "Instruction", "Interp": "&mut Interpreter", "Index": "slyce::Index", "Unit": "()",
             "Never": "!", "Closure": "closure", "Arr": "Array", "Fun": "Function", "Mut": "Mut",
             "IArr": "instruction::Array", "Slice": "slyce::Slice", "Range": "Range<i64>"}
    if isinstance(ty, tuple) and ty[0] in ("Arc", "Res", "Into"):
        return {"Arc": "Arc<{}>", "Res": "Result<{},_>", "Into": "Result<{},Variable>"}[ty[0]].format(tname(ty[1]))
    if isinstance(ty, tuple) and ty[0] in ("List", "Opt", "Iter", "Map"):
        return {"List": "[{}]", "Opt": "Option<{}>", "Iter": "impl Iterator<Item={}>",
                "Map": "HashMap<Arc<str>,{}>"}[ty[0]].format(tname(ty[1]))
    return names.get(ty, T.type_name(ty))


def vrtype(toks, fn, anchor):
    """a Rust type (signature, `let`, turbofish) -> the translator's type"""
    toks = strip_refs(split_shr(toks))
    while toks and toks[0].k == "id" and toks[0].s in ("super", "crate", "std", "self") and len(toks) > 2 \
            and is_p(toks[1], "::"):
        toks = toks[2:]
    if not toks:
        die("empty type", anchor)
    txt = ntext(toks)
    if len(toks) == 1 and toks[0].k == "id":
        s = toks[0].s
        if s == "Self":
            if fn is None or fn.selfty not in SELF_OF:
                die("`Self` is outside the supported subset here", toks[0])
            return SELF_OF[fn.selfty]
        prim = {"Variable": "Val", "i64": "Int", "isize": "Int", "usize": "Nat", "bool": "Bool", "f64": "Float",
                "str": "Text", "String": "Text", "char": "Char", "Type": "Ty", "FunctionType": "FnTy",
                "Instruction": "Instr", "InstructionWithStr": "Instr", "Interpreter": "Interp",
                "ExecResult": ("Res", "Val"), "VariableMap": ("Map", "Val"), "Array": "Arr",
                "StructType": "Struct", "MultiType": "Multi"}
        if s in prim:
            return prim[s]
        die(f"type `{s}` is outside the supported subset", toks[0])
    if toks[0].k == "id" and len(toks) > 3 and is_p(toks[1], "<") and is_p(toks[-1], ">"):
        head, inner = toks[0].s, toks[2:-1]
        if head in ("Arc", "Box", "Rc"):
            return vrtype(inner, fn, anchor)
        if head == "Option":
            return ("Opt", vrtype(inner, fn, anchor))
        if head == "Vec":
            return ("List", vrtype(inner, fn, anchor))
        if head == "Range" and ntext(inner) == "i64":
            return "Range"
        if head == "Result":
            parts = split_top(inner, ",")
            if len(parts) == 2 and ntext(strip_path(parts[1])) in ("ExecError", "ExecStop"):
                return ("Res", vrtype(parts[0], fn, anchor))
    if is_p(toks[0], "[") and match_close(toks, 0) == len(toks) - 1:
        return ("List", vrtype(split_top(toks[1:-1], ";")[0], fn, anchor))
    die(f"type `{txt}` is outside the supported subset", toks[0])


def strip_path(toks):
    toks = list(toks)
    while len(toks) > 2 and toks[0].k == "id" and is_p(toks[1], "::"):
        toks = toks[2:]
    return toks


def vsignature(fn):
    """-> ([(name, type)], return type)"""
    toks = split_shr(fn.sig)
    if toks and is_p(toks[0], "<"):
        die("generic functions are outside the supported subset", fn.tok)
    if not toks or not is_p(toks[0], "("):
        die("malformed function signature", fn.tok)
    c = match_close(toks, 0)
    params = []
    for p in split_top(toks[1:c], ","):
        while p and is_p(p[0], "#"):               # #[var_type(..)] on a parameter
            p = p[match_close(p, 1) + 1:]
        if not p:
            continue
        if any(is_id(x, "self") for x in p) and not any(is_p(x, ":") for x in p):
            if any(is_id(x, "mut") for x in p):
                die("`&mut self` is outside the supported subset", p[0])
            if fn.selfty not in SELF_OF:
                die(f"methods of {fn.selfty} are outside the supported subset", p[0])
            params.append(("self", SELF_OF[fn.selfty]))
            continue
        if len(p) < 3 or p[0].k != "id" or not is_p(p[1], ":"):
            die("unsupported parameter form", p[0])
        ty = vrtype(p[2:], fn, p[0])
        if any(is_id(x, "mut") for x in p[2:]) and ty != "Interp":
            die("`&mut` parameters other than the interpreter are outside the supported subset", p[0])
        params.append((p[0].s, ty))
    rest = toks[c + 1:]
    if not rest or not is_p(rest[0], "->"):
        die("functions without a result are outside the supported subset", fn.tok)
    return params, vrtype(rest[1:], fn, rest[0])


def zlit(n):
    return f"{n}%Z" if n >= 0 else f"({n})%Z"


# --------------------------------------------------------------------------------------
# 2. the translator of one function (extends typefns2coq.FT)
# --------------------------------------------------------------------------------------
READINGS = {
    # pinned function -> (Coq name of its hand-written reading in the prelude, the function it recurs through)
    "Function::of_type": ("pinned_Function_of_type", "Variable::of_type"),
}


def vunify(a, b, tok, what="branches"):
    a, b = unarc(a), unarc(b)
    if a == "Never":
        return b
    if b == "Never":
        return a
    if a == "IntLit" and b in ("Int", "Nat", "IntLit"):
        return b
    if b == "IntLit" and a in ("Int", "Nat"):
        return a
    return unify(a, b, tok, what)


class VT(FT):
    def __init__(self, world, key, fn):
        super().__init__(world, key, fn)
        self.selfty = fn.selfty if fn is not None else None
        self.module = key.split("::")[0] if fn is not None and fn.selfty is None else None
        self.effect = world.effect.get(key, False)
        self.needs_effect = False
        self.depth = 0               # > 0 inside a closure

    # ---- hooks
    def ctype(self, ty, tok=None):
        return ctype(ty, tok)

    def cdefault(self, ty, tok):
        ty = unarc(ty)
        if isinstance(ty, tuple) and ty[0] == "Res":
            return "OutOfFuel"
        return T.default_of(ty, tok)

    def let_type(self, s):
        if getattr(s, "ty", None):
            return vrtype(s.ty, self.fn, s.tok)
        return None

    def outcome_ctx(self, tok, what):
        if self.depth:
            die(f"{what} inside a closure is outside the supported subset", tok)
        if isinstance(self.rty, tuple) and self.rty[0] == "Res":
            return
        if not self.effect:
            self.needs_effect = True

    def wrap_one(self, b, body, tok):
        if b[0] == "obind":
            self.outcome_ctx(tok, "`?` on a Result / a call that can panic")
            x = b[1] if is_ident(b[1]) else "'" + b[1]
            return f"obind {par(b[2])} (fun {x} =>\n{body})"
        if b[0] == "unwrap":
            self.outcome_ctx(tok, "`unwrap()`")
            return coq_match(b[2], [(f"Some {b[1]}", body), ("None", "Panic")])
        if b[0] == "letp":
            return f"let '{b[1]} := {b[2]} in\n{body}"
        if b[0] == "try" and self.depth == 0 and (self.effect or self.needs_effect):
            die("`?` on an Option in a function that can panic is outside the supported subset", tok)
        return super().wrap_one(b, body, tok)

    def leaf(self, v, tok):
        if isinstance(v.t, tuple):
            if self.depth or unarc(v.ty) != self.rty or v.ty in ("FnRef", "Ctor", "Closure"):
                die(f"a {tname(v.ty)} in result position is outside the supported subset", tok)
            return "(" + ", ".join(v.t) + ")", self.rty
        if self.depth:
            if v.ty == "Never":
                die("a panic inside a closure is outside the supported subset", tok)
            want = self.rty
            if want is not None:
                v = self.convert(v, want, tok)
            return v.t, v.ty
        rty = self.rty
        if v.ty == "Never":
            self.outcome_ctx(tok, "a panic")
            return "Panic", None
        if isinstance(rty, tuple) and rty[0] == "Res":
            if not (isinstance(v.ty, tuple) and v.ty[0] == "Res"):
                die(f"a {tname(v.ty)} where a Result is expected", tok)
            vunify(v.ty, rty, tok, "result")
            return v.t, rty
        v = self.convert(v, rty, tok)
        if self.effect or self.needs_effect:
            return app("Ok", v.t), v.ty
        return v.t, v.ty

    # ---- conversions
    def convert(self, v, target, tok):
        target = unarc(target)
        src = unarc(v.ty)
        if target is None or src == target:
            return V(v.t, src) if not isinstance(v.t, tuple) else v
        if src is None:
            return V(v.t, target)
        if src == "IntLit":
            n = int(v.t)
            if target == "Int":
                return V(zlit(n), "Int")
            if target == "Nat" and n >= 0:
                return V(str(n), "Nat")
            if target == "Val":
                self.w.need_from("Variable", "Int", "i64", tok)
                return V(app("VInt", zlit(n)), "Val")
        if target == "Val":
            wrapc = {"Bool": ("VBool", "Bool", "bool"), "Int": ("VInt", "Int", "i64"),
                     "Float": ("VFloat", "Float", "f64"), "Text": ("VString", "String", "String")}
            if src in wrapc:
                c, variant, rust = wrapc[src]
                self.w.need_from("Variable", variant, rust, tok)
                return V(app(c, v.t), "Val")
            if src == "Arr":
                self.w.need_from("Variable", "Array", "Array", tok)
                return V(app("VArr", *v.t), "Val")
            if isinstance(src, tuple) and src[0] == "List" and vunify(src[1], "Val", tok) == "Val":
                self.w.used_pins.add("Variable::from<Arc<[Variable]>>")
                return V(app("arr_of", v.t), "Val")      # From<Arc<[Variable]>> -> Array::from (pinned)
        if target == "Instr" and src == "Val":
            self.w.need_from("Instruction", "Variable", "Variable", tok)
            return V(app("IVar", v.t), "Instr")
        if target == "Index" and src == ("Opt", "Int"):
            return V(v.t, "Index")                       # slyce: From<Option<isize>> for Index (modelled)
        if {src, target} == {"Text", ("List", "Char")} or {src, target} == {"Text", ("Iter", "Char")}:
            return V(v.t, target)
        if isinstance(target, tuple) and target[0] == "Map" and isinstance(src, tuple) and src[0] in ("List", "Iter") \
                and isinstance(src[1], tuple) and src[1][0] == "Tup" and src[1][1][0] == "Str":
            return V(v.t, ("Map", vunify(src[1][1][1], target[1], tok)))
        if isinstance(target, tuple) and isinstance(src, tuple) and target[0] == src[0] and target[0] != "Tup":
            return V(v.t, (src[0], vunify(src[1], target[1], tok, "conversion")))
        if target in ("Ty",) or src in ("FnTy", "Struct"):
            return super().convert(v, target, tok)
        die(f"cannot convert {tname(src)} into {tname(target)}", tok)

    def have(self, v, target, tok, what):
        if target is None:
            return v
        if unarc(v.ty) == "IntLit" or (unarc(target) == "Index"):
            return self.convert(v, target, tok)
        if isinstance(v.t, tuple):
            if unarc(v.ty) != unarc(target):
                die(f"{what}: a {tname(v.ty)} where a {tname(target)} is expected", tok)
            return V(v.t, unarc(v.ty))
        return V(v.t, vunify(v.ty, target, tok, what))

    # ---- expressions
    def expr(self, e, env, B, expect=None):
        k = e.k
        if k == "str":
            if e.value != "":
                die("string literals other than \"\" are outside the supported subset", e.tok)
            return V("[]", "Text")
        if k == "float":
            if e.text not in ("0.0", "0.0:f64"):
                die("float literals other than 0.0 are outside the supported subset", e.tok)
            return V("F_ZERO", "Float")
        if k == "int":
            if e.suffix not in ("", "i64", "isize", "usize"):
                die(f"integer suffix {e.suffix} is outside the supported subset", e.tok)
            want = {"i64": "Int", "isize": "Int", "usize": "Nat"}.get(e.suffix, unarc(expect))
            if want == "Int":
                return V(zlit(e.value), "Int")
            if want == "Nat":
                return V(str(e.value), "Nat")
            return V(str(e.value), "IntLit")
        if k == "cast":
            v = self.expr(e.e, env, B)
            src = unarc(v.ty)
            if src == "Int" and e.ty == "usize":
                return V(app("rs_i64_as_usize", v.t), "Nat")
            if src == "Nat" and e.ty in ("i64", "isize"):
                return V(app("rs_usize_as_i64", v.t), "Int")
            if src == "Int" and e.ty in ("i64", "isize"):
                return V(v.t, "Int")                     # i64 <-> isize: the same 64 bits
            die(f"cast of {tname(src)} `as {e.ty}` is outside the supported subset", e.tok)
        if k == "unary" and e.op == "-":
            v = self.expr(e.e, env, B)
            if v.ty == "IntLit":
                return V(str(-int(v.t)), "IntLit")
            if v.ty == "Int":
                return V(app("rs_i64_neg", v.t), "Int")
            die(f"unary `-` on {tname(v.ty)} is outside the supported subset", e.tok)
        if k == "unary" and e.op == "*":
            stars, inner = 1, e.e
            while inner.k == "unary" and inner.op == "*":
                stars, inner = stars + 1, inner.e
            v = self.expr(inner, env, B)
            # bindings are references (the functions take `&self`): the first `*` removes the `&`
            if isinstance(v.ty, tuple) and v.ty[0] == "Arc" and stars >= 2:
                return V(v.t, v.ty[1])
            return v
        if k == "try":
            v = self.expr(e.e, env, B)
            if isinstance(v.ty, tuple) and v.ty[0] == "Res":
                x = self.fresh()
                B.append(("obind", x, v.t))
                return V(x, v.ty[1])
            if not (isinstance(v.ty, tuple) and v.ty[0] == "Opt"):
                die(f"`?` on {tname(v.ty)}", e.tok)
            x = self.fresh()
            B.append(("try", x, v.t))
            return V(x, v.ty[1])
        if k == "macro" and e.name in ("unreachable", "panic", "unimplemented", "todo"):
            return V("Panic", "Never")
        if k == "range":
            if e.incl:
                die("inclusive ranges are outside the supported subset", e.tok)
            lo = self.have(self.expr(e.lo, env, B, "Int"), "Int", e.tok, "range start")
            hi = self.have(self.expr(e.hi, env, B, "Int"), "Int", e.tok, "range end")
            return V((lo.t, hi.t), "Range")
        if k == "closure":
            return V(("closure", e, dict(env)), "Closure")
        if k == "tuple":
            vs = [self.expr(x, env, B) for x in e.es]
            for v in vs:
                if isinstance(v.t, tuple):
                    die("a record inside a tuple is outside the supported subset", e.tok)
            return V("(" + ", ".join(v.t for v in vs) + ")", ("Tup", tuple(unarc(v.ty) for v in vs)))
        if k == "array" and not e.es:
            return V("[]", ("List", None))
        if k == "struct":
            return self.struct(e, env, B)
        return super().expr(e, env, B, expect)

    def struct(self, e, env, B):
        name = e.path[-1]
        fields = dict(e.fields)

        def need(names):
            if sorted(fields) != sorted(names):
                die(f"struct literal {name}: fields {sorted(fields)} (expected {sorted(names)})", e.tok)
        if name == "Array" and (self.selfty is None or self.selfty != "IArrayModule"):
            need(["element_type", "elements"])
            self.w.check_struct("Array", e.tok)
            et = self.have(self.expr(fields["element_type"], env, B, "Ty"), "Ty", e.tok, "element_type")
            els = self.have(self.expr(fields["elements"], env, B, ("List", "Val")), ("List", "Val"), e.tok, "elements")
            return V((et.t, els.t), "Arr")
        if name == "Mut":
            need(["var_type", "variable"])
            vt = self.have(self.expr(fields["var_type"], env, B, "Ty"), "Ty", e.tok, "var_type")
            content = self.have(self.expr(fields["variable"], env, B, "Val"), "Val", e.tok, "variable")
            # a fresh cell: the pure reading keeps its declared type (Value.of_type; Exec.alloc_default allocates)
            return V(app("rs_new_cell", vt.t, content.t), "Val")
        if name == "BinOperation":
            need(["lhs", "rhs", "op"])
            lhs = self.have(self.expr(fields["lhs"], env, B, "Instr"), "Instr", e.tok, "lhs")
            rhs = self.have(self.expr(fields["rhs"], env, B, "Instr"), "Instr", e.tok, "rhs")
            op = self.expr(fields["op"], env, B)
            if op.ty != "BinOp":
                die("BinOperation.op is not a BinOperator", e.tok)
            self.w.need_from("Instruction", "BinOperation", "BinOperation", e.tok)
            return V(app("IBin", op.t, lhs.t, rhs.t), "Instr")
        if name == "Slice" and e.path[0] == "slyce":
            need(["start", "end", "step"])
            start = self.convert(self.expr(fields["start"], env, B), "Index", e.tok)
            end = self.convert(self.expr(fields["end"], env, B), "Index", e.tok)
            step = self.have(self.expr(fields["step"], env, B), ("Opt", "Int"), e.tok, "step")
            return V((start.t, end.t, step.t), "Slice")
        die(f"struct literal `{'::'.join(e.path)}` is outside the supported subset", e.tok)

    def path_expr(self, e, env):
        segs = e.segs
        if len(segs) == 1 and segs[0] not in env and segs[0] != "None":
            key = self.w.free_fn(segs[0], self.module)
            if key is not None:
                return V(("fnref", key), "FnRef")
        if len(segs) == 2:
            tn = self.resolve_type_name(segs[0], e.tok)
            if tn == "Variable" and segs[1] in VAL_VARIANTS:
                ctor, payload = VAL_VARIANTS[segs[1]]
                if payload is None:
                    return V(ctor, "Val")
                return V(("ctor", "Variable", segs[1]), "Ctor")
            if tn == "Instruction" and segs[1] in INSTR_VARIANTS:
                return V(("ctor", "Instruction", segs[1]), "Ctor")
            if tn == "ExecError":
                if segs[1] not in EXEC_ERRORS:
                    die(f"unknown ExecError::{segs[1]}", e.tok)
                return V("E_" + segs[1], "Err")
            if tn == "BinOperator":
                return V(segs[1], "BinOp")
            if segs == ["i64", "MAX"] or segs == ["isize", "MAX"]:
                return V("MAX_INT", "Int")
            if segs == ["Into", "into"]:
                return V(("builtin", "into"), "FnRef")
            if tn == "Variable" and segs[1] in ("into_int", "into_array"):
                return V(("builtin", segs[1]), "FnRef")
        return super().path_expr(e, env)

    def resolve_type_name(self, seg, tok):
        if seg == "Self":
            if self.selfty is None:
                die("`Self` outside an impl", tok)
            return self.selfty
        return seg

    def binary(self, e, env, B):
        op = e.op
        if op in ("&&", "||"):
            return super().binary(e, env, B)
        l = self.expr(e.l, env, B)
        lty = unarc(l.ty)
        r = self.expr(e.r, env, B, lty if lty in ("Int", "Nat", "Ty") else None)
        rty = unarc(r.ty)
        if "IntLit" in (lty, rty):
            ty = vunify(lty, rty, e.tok, f"operands of `{op}`")
            if ty == "IntLit":
                ty = "Int"
            l, r = self.convert(V(l.t, lty), ty, e.tok), self.convert(V(r.t, rty), ty, e.tok)
            lty = rty = ty
        if op in ("<", "<=", ">", ">=") and lty == rty and lty in ("Int", "Nat"):
            m = "Z" if lty == "Int" else "Nat"
            if op in ("<", "<="):
                return V(app(f"{m}.ltb" if op == "<" else f"{m}.leb", l.t, r.t), "Bool")
            return V(app(f"{m}.ltb" if op == ">" else f"{m}.leb", r.t, l.t), "Bool")
        if op == "+" and lty == rty == "Int":
            return V(app("rs_i64_add", l.t, r.t), "Int")
        if op in ("==", "!="):
            t = self.equality(l, r, e.tok, B)
            return V(t if op == "==" else app("negb", t), "Bool")
        die(f"`{op}` on {tname(l.ty)} and {tname(r.ty)} is outside the supported subset", e.tok)

    def equality(self, l, r, tok, B):
        """PartialEq::eq of the operands' type"""
        arc = isinstance(l.ty, tuple) and l.ty[0] == "Arc"
        ty = vunify(l.ty, r.ty, tok, "operands of `==`") if not isinstance(l.t, tuple) else unarc(l.ty)
        if isinstance(l.t, tuple) and unarc(r.ty) != ty:
            die(f"`==` between {tname(l.ty)} and {tname(r.ty)}", tok)
        simple = {"Bool": "Bool.eqb", "Int": "Z.eqb", "Nat": "Nat.eqb", "Float": "feq", "Text": "ident_eqb",
                  "Ty": "ty_eqb"}
        if ty in simple:
            return app(simple[ty], l.t, r.t)
        if arc and isinstance(ty, tuple) and ty[0] == "Map":
            die("`==` between two Arc<HashMap>: std's Arc<T: Eq> equality answers true for the same allocation "
                "without comparing the contents (the model's structs have no identity; compare `**a == **b`)", tok)
        if ty == "Arr":
            self.w.check_array_not_eq(tok)
            return self.user_call("Array::eq", [l, r], tok, None, B).t
        if ty == "Val":
            return self.user_call("Variable::eq", [l, r], tok, None, B).t
        if isinstance(ty, tuple) and ty[0] in ("List", "Map") and unarc(ty[1]) == "Val":
            rec = self.w.render_call(self, "Variable::eq", [])
            return app("rs_slice_eqb" if ty[0] == "List" else "rs_hashmap_eqb", rec, l.t, r.t)
        die(f"`==` on {tname(l.ty)} is outside the supported subset", tok)

    def field(self, e, env, B):
        v = self.expr(e.recv, env, B)
        ty = unarc(v.ty)
        if ty in RECORDS and isinstance(v.t, tuple):
            for i, (fname, fty) in enumerate(RECORDS[ty]):
                if fname == e.name and (ty, fname) not in HIDDEN_FIELDS:
                    self.w.check_struct(NAME_OF.get(ty, ty), e.tok)
                    return V(v.t[i], fty)
            die(f"field `{e.name}` of {tname(ty)} is outside the supported subset", e.tok)
        if ty in ("Struct", "Multi", "FnTy"):
            return super().field(e, env, B)
        die(f"field `{e.name}` of {tname(ty)} is outside the supported subset", e.tok)

    def record_of(self, prefix, rec):
        names = tuple(f"{prefix}_{f}" for f, _ in RECORDS[rec])
        return names

    def user_call(self, key, args, tok, env=None, B=None):
        fn = self.w.items.fns.get(key)
        if fn is None:
            die(f"call of {key}, which is ambiguous or not defined in the translated files", tok)
        params, ret = self.w.sig(key)
        if len(params) != len(args):
            die(f"{key}: {len(args)} arguments for {len(params)} parameters", tok)
        terms = []
        for (pn, pty), a in zip(params, args):
            v = a if isinstance(a, V) else self.expr(a, env, B, pty)
            v = self.have(v, pty, tok, f"argument `{pn}` of {key}")
            terms += flat(v)
        term = self.w.render_call(self, key, terms)
        ret0 = ret
        if self.w.effect.get(key, False) and key not in READINGS:
            ret0 = ("Res", ret)                   # a plain result that may panic: outcome
        if isinstance(ret0, tuple) and ret0[0] == "Res" and self.w.effect.get(key, False):
            if B is None:
                die(f"a call of {key} (it can panic) is outside the supported subset here", tok)
            x = self.fresh()
            B.append(("obind", x, term))
            return V(x, ret)
        if ret in RECORDS:
            if B is None:
                die(f"a call of {key} is outside the supported subset here", tok)
            names = self.record_of(self.fresh(), ret)
            B.append(("letp", "(" + ", ".join(names) + ")", term))
            return V(names, ret)
        return V(term, ret)

    def call(self, e, env, B, expect):
        f = e.f
        if f.k != "path":
            die("only calls of named functions are supported", e.tok)
        segs = f.segs
        name = "::".join(segs)
        nargs = len(e.args)
        expect = unarc(expect)
        if name == "Ok" and nargs == 1:
            inner = expect[1] if isinstance(expect, tuple) and expect[0] == "Res" else None
            v = self.expr(e.args[0], env, B, inner)
            if inner is not None:
                v = self.convert(v, inner, e.tok)
            if isinstance(v.t, tuple):
                die("Ok(<record>) is outside the supported subset", e.tok)
            return V(app("Ok", v.t), ("Res", unarc(v.ty)))
        if name == "Err" and nargs == 1:
            v = self.expr(e.args[0], env, B)
            if v.ty != "Err":
                die("Err(..) of something that is not an ExecError", e.tok)
            return V(app("Err", v.t), ("Res", None))
        if name == "Some" and nargs == 1:
            inner = expect[1] if isinstance(expect, tuple) and expect[0] == "Opt" else None
            v = self.expr(e.args[0], env, B, inner)
            if inner is not None:
                v = self.convert(v, inner, e.tok)
            if isinstance(v.t, tuple):
                die("Some(<record>) is outside the supported subset", e.tok)
            return V(app("Some", v.t), ("Opt", unarc(v.ty)))
        if name == "Arc::ptr_eq" and nargs == 2:
            a, b = self.expr(e.args[0], env, B), self.expr(e.args[1], env, B)
            ta, tb = unarc(a.ty), unarc(b.ty)
            if not (isinstance(a.ty, tuple) and a.ty[0] == "Arc") or ta != tb:
                die("Arc::ptr_eq of two different things", e.tok)
            if ta in ("Fun", "Mut"):
                return V(app("Nat.eqb", a.t[0], b.t[0]), "Bool")     # identity of the allocation
            die(f"Arc::ptr_eq on {tname(ta)}: only functions and cells have an identity in the model "
                "(Value.v: VFun id, VMut loc)", e.tok)
        if len(segs) == 1:
            key = self.w.free_fn(segs[0], self.module)
            if key is not None and segs[0] not in env:
                return self.user_call(key, e.args, e.tok, env, B)
        if len(segs) == 2:
            tn = self.resolve_type_name(segs[0], e.tok)
            table = VAL_VARIANTS if tn == "Variable" else INSTR_VARIANTS if tn == "Instruction" else None
            if table is not None and segs[1] in table and table[segs[1]][1] is not None:
                ctor, payload = table[segs[1]]
                if nargs != 1:
                    die(f"{tn}::{segs[1]} takes one argument", e.tok)
                v = self.expr(e.args[0], env, B, unarc(payload))
                v = self.convert(v, payload, e.tok) if not isinstance(v.t, tuple) else self.have(v, payload, e.tok, "payload")
                return V(app(ctor, *flat(v)), "Val" if tn == "Variable" else "Instr")
            key = f"{tn}::{segs[1]}"
            if key in self.w.items.fns:
                return self.user_call(key, e.args, e.tok, env, B)
        return super().call(e, env, B, expect)

    def method(self, e, env, B, expect):
        name, nargs = e.name, len(e.args)
        expect = unarc(expect)
        tf = getattr(e, "turbofish", None)
        if tf:
            if name != "collect":
                die("generic arguments on a method other than collect() are outside the supported subset", e.tok)
            expect = vrtype(tf, self.fn, e.tok)
            e.turbofish = None
        if name in ("clone", "as_ref", "into") and nargs == 0:
            if name == "into":
                return self.convert(self.expr(e.recv, env, B), expect, e.tok)
            return self.expr(e.recv, env, B, expect)
        r = e.recv
        if name == "unwrap" and nargs == 0 and r.k == "mcall" and r.name == "next" and r.recv.k == "path":
            return super().method(e, env, B, expect)
        v = self.expr(r, env, B)
        ty = unarc(v.ty)
        kind = ty[0] if isinstance(ty, tuple) else ty
        if name == "exec" and nargs == 1 and ty == "Instr":
            it = self.expr(e.args[0], env, B)
            if it.ty != "Interp":
                die("exec(..) of an instruction: the argument is not the interpreter", e.tok)
            return V(app(it.t, v.t), ("Res", "Val"))       # evaluation = applying the interpreter
        if ty == "Val" and name in ("into_int", "into_array") and nargs == 0:
            self.w.check_enum_as_inner(e.tok)
            return V(app("rs_" + name, v.t), ("Into", "Int" if name == "into_int" else "Arr"))
        if name == "unwrap" and nargs == 0 and kind in ("Into", "Opt"):
            inner = ty[1]
            if inner in RECORDS:
                names = self.record_of(self.fresh(), inner)
                B.append(("unwrap", "(" + ", ".join(names) + ")", v.t))
                return V(names, inner)
            x = self.fresh()
            B.append(("unwrap", x, v.t))
            return V(x, inner)
        if name == "transpose" and nargs == 0 and kind == "Opt" and isinstance(ty[1], tuple):
            if ty[1][0] == "Res":
                return V(app("rs_transpose", v.t), ("Res", ("Opt", ty[1][1])))
            if ty[1][0] == "Into":
                return V(app("rs_transpose_opt", v.t), ("Into", ("Opt", ty[1][1])))
        if name == "ok_or" and nargs == 1 and kind == "Opt":
            err = self.expr(e.args[0], env, B)
            if err.ty != "Err":
                die("ok_or(..) of something that is not an ExecError", e.tok)
            return V(app("rs_ok_or", v.t, err.t), ("Res", ty[1]))
        if kind == "Res":
            if name == "cloned" and nargs == 0:
                return v
            if name == "map" and nargs == 1:
                want = expect[1] if isinstance(expect, tuple) and expect[0] == "Res" else None
                f, fty = self.fn_value(e.args[0], [ty[1]], env, want)
                return V(app("rs_result_map", f, v.t), ("Res", fty))
        if kind == "Opt" and name == "map" and nargs == 1:
            want = expect[1] if isinstance(expect, tuple) and expect[0] == "Opt" else None
            f, fty = self.fn_value(e.args[0], [ty[1]], env, want)
            return V(app("option_map", f, v.t), ("Opt", fty))
        if ty == "Text" and name == "chars" and nargs == 0:
            return V(v.t, ("Iter", "Char"))               # a string IS the list of its chars
        if ty == "Text" and name == "len":
            die("str::len() is the length in BYTES; the model's strings are lists of chars (use chars().count())",
                e.tok)
        if ty == "Char" and name == "to_string" and nargs == 0:
            return V(f"[{v.t}]", "Text")
        if kind == "Iter":
            if name == "count" and nargs == 0:
                return V(app("length", v.t), "Nat")
            if name == "nth" and nargs == 1:
                i = self.have(self.expr(e.args[0], env, B, "Nat"), "Nat", e.tok, "index")
                return V(app("nth_error", v.t, i.t), ("Opt", ty[1]))
            if name == "next" and nargs == 0:
                return V(app("hd_error", v.t), ("Opt", ty[1]))     # a fresh iterator: its first item
            if name == "collect" and nargs == 0 and expect is not None:
                el = ty[1]
                if expect == "Text":
                    vunify(el, "Char", e.tok, "collect::<String>()")
                    return V(v.t, "Text")
                if isinstance(expect, tuple) and expect[0] == "Opt" and isinstance(el, tuple) and el[0] == "Opt":
                    inner = self.convert(V("_", ("List", el[1])), expect[1], e.tok).ty
                    return V(app("rs_collect_option", v.t), ("Opt", inner))
        if ty == "Arr":                                   # Deref<Target = [Variable]> (pinned)
            self.w.used_pins.add("Array::deref")
            if name in ("len", "get", "iter", "is_empty"):
                e2 = N("mcall", e.tok, recv=N("path", e.tok, segs=["__deref"]), name=name, args=e.args)
                env2 = dict(env)
                env2["__deref"] = V(v.t[1], ("List", "Val"))
                return super().method(e2, env2, B, expect)
        if ty == "Int" and name == "max" and nargs == 1:
            o = self.have(self.expr(e.args[0], env, B, "Int"), "Int", e.tok, "max")
            return V(app("Z.max", v.t, o.t), "Int")
        if ty == "Range" and name == "contains" and nargs == 1:
            x = self.have(self.expr(e.args[0], env, B, "Int"), "Int", e.tok, "contains")
            return V(f"{par(app('Z.leb', v.t[0], x.t))} && {par(app('Z.ltb', x.t, v.t[1]))}", "Bool")
        if ty == "Slice" and name == "apply" and nargs == 1:
            a = self.expr(e.args[0], env, B)
            aty = unarc(a.ty)
            if aty == "Arr":
                self.w.used_pins.add("Array::deref")
                a, aty = V(a.t[1], ("List", "Val")), ("List", "Val")
            if not (isinstance(aty, tuple) and aty[0] == "List"):
                die(f"Slice::apply to a {tname(aty)}", e.tok)
            x = self.fresh()
            B.append(("obind", x, app("rs_slyce_apply", v.t[0], v.t[1], v.t[2], a.t)))
            return V(x, ("Iter", aty[1]))
        if ty == "Multi" and name == "iter" and nargs == 0:
            return V(v.t, ("Iter", "Ty"))                 # MultiType::iter: the member list (T9: gen_MultiType_iter)
        if ty in NAME_OF and ty not in ("Ty", "FnTy"):
            key = f"{NAME_OF[ty]}::{name}"
            if key in self.w.items.fns:
                return self.user_call(key, [v] + e.args, e.tok, env, B)
            die(f"method `{name}` of {NAME_OF[ty]} is outside the supported subset", e.tok)
        if isinstance(v.t, tuple):
            die(f"method `{name}` on {tname(ty)} is outside the supported subset", e.tok)
        e2 = N("mcall", e.tok, recv=N("path", e.tok, segs=["__recv"]), name=name, args=e.args)
        env2 = dict(env)
        env2["__recv"] = V(v.t, ty)
        return super().method(e2, env2, B, expect)

    def fn_value(self, a, argtys, env, ret_expect=None):
        if a.k == "path" and len(a.segs) == 1 and a.segs[0] in env and env[a.segs[0]].ty == "Closure":
            _, node, cenv = env[a.segs[0]].t
            return self.fn_value(node, argtys, cenv, ret_expect)
        if a.k == "closure":
            if len(a.params) != len(argtys):
                die(f"closure with {len(a.params)} parameters where {len(argtys)} are passed", a.tok)
            env2 = dict(env)
            bs = []
            for p, ty in zip(a.params, argtys):
                alts = self.pat_alts(p, ty)
                if len(alts) != 1 or not alts[0][2]:
                    die("refutable closure parameter", p.tok)
                txt, binds, _ = alts[0]
                env2.update(binds)
                bs.append(txt if is_ident(txt) or txt == "_" else "'" + txt)
            saved = self.rty
            self.rty = ret_expect
            self.depth += 1
            try:
                body, ty = self.tail(a.body, env2, None)
            finally:
                self.rty = saved
                self.depth -= 1
            if "\n" in body:
                return f"fun {' '.join(bs)} =>\n  {ind(body)}", ty
            return f"fun {' '.join(bs)} => {body}", ty
        if a.k == "path":
            v = self.path_expr(a, env)
            if v.ty == "FnRef" and v.t[0] == "builtin":
                if len(argtys) != 1:
                    die("wrong number of arguments", a.tok)
                src = unarc(argtys[0])
                if v.t[1] == "into":
                    target = ret_expect if ret_expect is not None else src
                    x = self.convert(V("x", src), target, a.tok)
                    return f"fun x => {x.t}", x.ty
                if src != "Val":
                    die(f"Variable::{v.t[1]} applied to a {tname(src)}", a.tok)
                self.w.check_enum_as_inner(a.tok)
                return "rs_" + v.t[1], ("Into", "Int" if v.t[1] == "into_int" else "Arr")
            if v.ty == "FnRef":
                key = v.t[1]
                params, ret = self.w.sig(key)
                if len(params) != len(argtys):
                    die(f"{key} takes {len(params)} arguments, {len(argtys)} are passed", a.tok)
                for (pn, pty), aty in zip(params, argtys):
                    if pty in RECORDS:
                        die("a function over a record cannot be passed as a value here", a.tok)
                    vunify(pty, aty, a.tok, f"argument `{pn}` of {key}")
                if self.w.effect.get(key, False):
                    die(f"{key} can panic: passing it as a function is outside the supported subset", a.tok)
                return self.w.render_call(self, key, []), ret
        die("expected a closure or the path of a function", a.tok)

    def bind_let(self, s, v, B, env, rest):
        if v.ty == "Closure" and s.pat.k == "pbind":
            env2 = dict(env)
            env2[s.pat.name] = v
            body, ty = rest(env2)
            return self.wrap(B, body, s.tok), ty
        return super().bind_let(s, v, B, env, rest)

    # ---- patterns
    def pat_alts(self, p, ty):
        inner = unarc(ty)
        k = p.k
        if k in ("pbind", "pwild") and inner in RECORDS:
            n = len(RECORDS[inner])
            if k == "pwild":
                return [(" ".join("_" for _ in range(n)), {}, True)]
            names = self.record_of(coq_ident(p.name), inner)
            return [(" ".join(names), {p.name: V(names, ty)}, True)]
        if k == "pctor" and len(p.path) == 2:
            tn = self.resolve_type_name(p.path[0], p.tok)
            table = VAL_VARIANTS if (tn, inner) == ("Variable", "Val") else \
                INSTR_VARIANTS if (tn, inner) == ("Instruction", "Instr") else None
            if table is None and tn in ("Variable", "Instruction"):
                die(f"`{tn}::{p.path[1]}` pattern against {tname(ty)}", p.tok)
            if table is not None:
                if p.path[1] not in table:
                    die(f"{tn}::{p.path[1]} is outside the supported subset", p.tok)
                ctor, payload = table[p.path[1]]
                if payload is None:
                    if p.pats is not None:
                        die(f"{tn}::{p.path[1]} has no payload", p.tok)
                    return [(ctor, {}, False)]
                if p.pats is None or len(p.pats) != 1:
                    die(f"{tn}::{p.path[1]} has one payload", p.tok)
                sub = p.pats[0]
                rec = unarc(payload) in RECORDS
                if rec and sub.k not in ("pbind", "pwild"):
                    die(f"the payload of {tn}::{p.path[1]} can only be bound or ignored", sub.tok)
                return [(f"{ctor} {t if rec else par(t)}", b, False) for t, b, _ in self.pat_alts(sub, payload)]
        if k == "pbind" and ty is not None and inner != "FnTy":
            cn = coq_ident(p.name)
            return [(cn, {p.name: V(cn, ty)}, True)]
        if k == "plit" and inner == "Int":
            return [(zlit(p.value), {}, False)]
        return super().pat_alts(p, inner if inner != ty else ty)


# --------------------------------------------------------------------------------------
# 3. sources, declarations, pins, output
# --------------------------------------------------------------------------------------
SOURCES = [("src/stdlib.rs", "stdlib"), ("src/instruction/at.rs", "at"), ("src/instruction/slicing.rs", None),
           ("src/variable.rs", None), ("src/variable/array.rs", None), ("src/function.rs", None)]
WANTED = ["stdlib::len", "at::exec", "at::range", "at::create_from_instructions",
          "Slicing::exec_index", "Slicing::exec", "Array::eq", "Variable::eq", "Variable::of_type"]

SLYCE_VERSION = "0.3.1"
SLYCE_CHECKSUM = "046d1c67b37db818d93f1d04a924ddbd7396c96cf9cfaa593d038259ae484729"
SLYCE_LIB_SHA256 = "614ae54c4498a1fbc03a753681fdc9b3917f3441fef6de2efcc896eff4b1509b"

# (self type, trait or None, fn name) -> normalised token text (signature + body)
PINNED = {
    ("Function", None, "of_type"):
        "( fn_type : & FunctionType ) -> Option < Self > { "
        "let params = fn_type . params . iter ( ) . cloned ( ) . enumerate ( ) . map ( | ( i , var_type ) | Param { "
        "name : format ! ( \"p{i}\" ) . into ( ) , var_type , } ) . collect ( ) ; "
        "let returned = Variable :: of_type ( & fn_type . return_type ) ? ; "
        "Some ( Self { ident : None , params , body : Body :: Lang ( [ InstructionWithStr { "
        "str : format ! ( \"return {returned}\" ) . into ( ) , instruction : UnaryOperation { "
        "instruction : returned . into ( ) , op : UnaryOperator :: Return , } . into ( ) , } ] . into ( ) , ) , "
        "return_type : fn_type . return_type ( ) , } ) }",
    ("Array", "From < T >", "from"):
        "( value : T ) -> Self { let elements = value . into ( ) ; "
        "let element_type = elements . iter ( ) . map ( Variable :: as_type ) . reduce ( Type :: concat ) "
        ". unwrap_or ( Type :: Never ) ; Array { element_type , elements , } }",
    ("Variable", "From < Arc < [ Variable ] > >", "from"):
        "( value : Arc < [ Variable ] > ) -> Self { Array :: from ( value ) . into ( ) }",
    ("Array", "Deref", "deref"):
        "( & self ) -> & Self :: Target { & self . elements }",
    ("Slicing", "Recreate", "recreate"):
        "( & self , local_variables : & mut LocalVariables ) -> Result < Instruction , ExecError > { "
        "let lhs = self . lhs . recreate ( local_variables ) ? ; "
        "let start = self . start . as_ref ( ) . map ( | iws | iws . recreate ( local_variables ) ) . transpose ( ) ? ; "
        "let stop = self . stop . as_ref ( ) . map ( | iws | iws . recreate ( local_variables ) ) . transpose ( ) ? ; "
        "let step = self . step . as_ref ( ) . map ( | iws | iws . recreate ( local_variables ) ) . transpose ( ) ? ; "
        "Ok ( Self { lhs , start , stop , step , } . into ( ) ) }",
    ("Slicing", "ReturnType", "return_type"):
        "( & self ) -> Type { self . lhs . return_type ( ) }",
}
# Slicing::create is long: pinned by the SHA-256 of its normalised token text
PINNED_HASH = {
    ("Slicing", None, "create"): "2b16c9306f50da2b312d105254762f76891a9103d83282407caf7e2a12cca474",
}

PRELUDE = """\
(* ---- fixed vocabulary (the same text on every run) ---- *)
(* integer conversions and arithmetic as the translated functions use them: `index as usize` on a
   non-negative i64, `len as i64` on the length of a sequence in memory (< 2^63), `len + index` with
   0 <= len < 2^63 and index < 0, `-len`, `-i64::MAX`: none of them wraps or overflows *)
Definition rs_i64_as_usize (z : Z) : nat := Z.to_nat z.
Definition rs_usize_as_i64 (n : nat) : Z := Z.of_nat n.
Definition rs_i64_add (a b : Z) : Z := (a + b)%Z.
Definition rs_i64_neg (a : Z) : Z := (- a)%Z.
(* EnumAsInner: Variable::into_int / into_array (Err(self) read as None) *)
Definition rs_into_int (v : value) : option Z := match v with VInt i => Some i | _ => None end.
Definition rs_into_array (v : value) : option (ty * list value) :=
  match v with VArr et vs => Some (et, vs) | _ => None end.
Definition rs_ok_or {A : Type} (o : option A) (e : Z) : outcome A :=
  match o with Some a => Ok a | None => Err e end.
Definition rs_result_map {A B : Type} (f : A -> B) (r : outcome A) : outcome B := obind r (fun a => Ok (f a)).
Definition rs_and_then {A B : Type} (o : option A) (f : A -> option B) : option B :=
  match o with Some a => f a | None => None end.
(* Option<Result<T,E>>::transpose, Option<Result<T,Variable>>::transpose *)
Definition rs_transpose {A : Type} (o : option (outcome A)) : outcome (option A) :=
  match o with None => Ok None | Some r => obind r (fun a => Ok (Some a)) end.
Definition rs_transpose_opt {A : Type} (o : option (option A)) : option (option A) :=
  match o with None => Some None | Some None => None | Some (Some a) => Some (Some a) end.
(* collect::<Option<_>>() *)
Fixpoint rs_collect_option {A : Type} (l : list (option A)) : option (list A) :=
  match l with
  | [] => Some []
  | o :: rest => match o, rs_collect_option rest with Some a, Some r => Some (a :: r) | _, _ => None end
  end.
(* [T]: PartialEq, HashMap<K,V>: PartialEq with the element equality `eq` *)
Fixpoint rs_slice_eqb {A : Type} (eq : A -> A -> bool) (l1 l2 : list A) : bool :=
  match l1, l2 with
  | [], [] => true
  | x :: l1, y :: l2 => eq x y && rs_slice_eqb eq l1 l2
  | _, _ => false
  end.
Definition rs_hashmap_eqb {A : Type} (eq : A -> A -> bool) (m1 m2 : list (ident * A)) : bool :=
  Nat.eqb (length m1) (length m2) &&
  forallb (fun kv => match assoc (fst kv) m2 with Some w => eq (snd kv) w | None => false end) m1.
(* slyce::Slice { start, end, step }.apply(l).cloned().collect(): the crate is modelled by
   Model/Seq.v (slyce_indices; Index::from(Option<isize>) = the option), `&arr[i]` panics out of range *)
Definition rs_slyce_apply {A : Type} (start stop step : option Z) (l : list A) : outcome (list A) :=
  match select l (slyce_indices (zlen l) start stop step) with Some r => Ok r | None => Panic end.
(* Mut { var_type, variable }: a fresh cell; the pure reading keeps the declared type only *)
Definition rs_new_cell (t : ty) (content : value) : value := VMut 0 t.
(* Function::of_type (PINNED): a function of the given type whose body returns the default of the
   result type; the pure reading: identity 0, defined iff the result type has a default *)
Definition pinned_Function_of_type (of_type : ty -> option value) (ps : list ty) (r : ty) : option value :=
  match of_type r with Some _ => Some (VFun 0 ps r) | None => None end.
Fixpoint rs_value_size (v : value) : nat :=
  match v with
  | VArr _ vs | VTup vs => S (fold_right (fun x acc => rs_value_size x + acc) 0 vs)
  | VStruct fs => S (fold_right (fun kv acc => rs_value_size (snd kv) + acc) 0 fs)
  | _ => 1
  end.
"""


def norm_text(fn):
    return ntext(fn.sig) + " { " + ntext(fn.body) + " }"


class World:
    def __init__(self, repo):
        self.repo = repo
        self.items = Items()
        self.file_of = {}
        for rel, free in SOURCES:
            path = os.path.join(repo, rel)
            if not os.path.exists(path):
                raise Unsupported(f"{rel}: file not found")
            walk(tokenize(open(path, encoding="utf-8").read(), rel), self.items, None, free)
        self.instr_items = Items()
        rel = "src/instruction.rs"
        path = os.path.join(repo, rel)
        if not os.path.exists(path):
            raise Unsupported(f"{rel}: file not found")
        walk(tokenize(open(path, encoding="utf-8").read(), rel), self.instr_items, None, None)
        self.sigs = {}
        self.effect = {}
        self.roles = None
        self.used_pins = set()
        self.froms_needed = set()
        self.anchor = self.items.decls["Variable"].tok if "Variable" in self.items.decls else None
        self.check_decls()

    # ---- declarations
    def enum_table(self, decl):
        """variant -> (payload text or None, [#[from] sources] or None)"""
        out = {}
        for part in split_top(decl.body, ","):
            j, froms = 0, None
            while j < len(part) and is_p(part[j], "#"):
                c = match_close(part, j + 1)
                attr = part[j + 2:c]
                if attr and is_id(attr[0], "from"):
                    froms = [ntext(x) for x in split_top(attr[2:-1], ",") if x] if len(attr) > 1 else []
                j = c + 1
            if j >= len(part):
                continue
            if part[j].k != "id":
                die(f"unexpected token in enum {decl.name}", part[j])
            payload = None
            if j + 1 < len(part):
                if not is_p(part[j + 1], "("):
                    die(f"variant {part[j].s} of enum {decl.name}: only tuple variants are supported", part[j])
                payload = ntext(part[j + 2:match_close(part, j + 1)])
            out[part[j].s] = (payload, froms)
        return out

    def check_decls(self):
        d = self.items.decls.get("Variable")
        if d is None or d.kind != "enum":
            raise Unsupported("src/variable.rs: enum Variable not found")
        self.val_table = self.enum_table(d)
        found = {k: v[0] for k, v in self.val_table.items()}
        if found != EXPECT_VAL_VARIANTS:
            diff = sorted(set(found.items()) ^ set(EXPECT_VAL_VARIANTS.items()), key=str)
            die(f"enum Variable: variants/payloads differ from the model's `value` ({diff})", d.tok)
        ders = derives(d)
        for bad in ("PartialEq", "Eq", "Hash"):
            if bad in ders:
                die(f"enum Variable derives {bad} (its equality is read from `impl PartialEq for Variable`)", d.tok)
        self.has_enum_as_inner = "EnumAsInner" in ders
        a = self.items.decls.get("Array")
        if a is None or ntext(a.body) != "pub ( crate ) element_type : Type , pub ( crate ) elements : Arc < [ Variable ] > ,":
            die("struct Array: fields differ from `element_type: Type, elements: Arc<[Variable]>`",
                a.tok if a else d.tok)
        for bad in ("PartialEq", "Eq"):
            if bad in derives(a):
                die(f"struct Array derives {bad} (its equality is read from `impl PartialEq for Array`; with Eq, "
                    "`Arc<Array> == Arc<Array>` would take std's pointer shortcut)", a.tok)
        sl = self.items.decls.get("Slicing")
        want = ("lhs : InstructionWithStr , start : Option < InstructionWithStr > , "
                "stop : Option < InstructionWithStr > , step : Option < InstructionWithStr > ,")
        if sl is None or ntext(sl.body) != want:
            die("struct Slicing: fields differ from lhs / start / stop / step", sl.tok if sl else d.tok)
        i = self.instr_items.decls.get("Instruction")
        if i is None or i.kind != "enum":
            raise Unsupported("src/instruction.rs: enum Instruction not found")
        self.instr_table = self.enum_table(i)
        for variant, (payload, froms) in EXPECT_INSTR.items():
            got = self.instr_table.get(variant)
            if got is None or got[0] != payload or (got[1] or []) != froms and not (froms == [] and got[1] == []):
                die(f"enum Instruction: variant {variant} is not `{variant}({payload})` with #[from{froms}]", i.tok)

    def check_struct(self, name, tok):
        pass                      # struct Array / Slicing are checked once in check_decls

    def check_array_not_eq(self, tok):
        src = open(os.path.join(self.repo, "src/variable/array.rs"), encoding="utf-8").read()
        if re.search(r"impl\s+Eq\s+for\s+Array", src):
            die("`impl Eq for Array`: `Arc<Array> == Arc<Array>` would take std's pointer shortcut", tok)

    def check_enum_as_inner(self, tok):
        if not self.has_enum_as_inner:
            die("enum Variable no longer derives EnumAsInner (into_int / into_array)", tok)

    def need_from(self, enum, variant, src, tok):
        table = self.val_table if enum == "Variable" else self.instr_table
        payload, froms = table.get(variant, (None, None))
        ok = froms is not None and (src in froms or (froms == [] and payload == src))
        if enum == "Variable" and variant == "Array":
            ok = froms is not None and "Array" in froms
        if enum == "Variable" and variant == "String":
            ok = froms is not None and "String" in froms
        if not ok:
            die(f"`.into()` from {src} was read as {enum}::{variant}, but the #[from] attributes of enum {enum} "
                f"say otherwise ({froms})", tok)

    # ---- functions
    def sig(self, key):
        if key in READINGS:
            return [("fn_type", "FnTy")], ("Opt", "Val")
        if key not in self.sigs:
            self.sigs[key] = vsignature(self.items.fns[key])
        return self.sigs[key]

    def free_fn(self, name, module):
        if module is not None and f"{module}::{name}" in self.items.fns:
            return f"{module}::{name}"
        cands = [k for k, f in self.items.fns.items() if f is not None and f.selfty is None and k.endswith("::" + name)]
        if len(cands) == 1:
            return cands[0]
        return None

    def render_call(self, caller, key, terms):
        caller.calls.append(key)
        base = "gen_" + mangle(key)
        if key in READINGS:
            reading, through = READINGS[key]
            if self.roles is not None and self.roles.get(caller.key) == self.roles.get(through) is not None:
                return app(reading, "rec_" + mangle(self.roles[through]), *terms)
            return app(base, *terms)
        if self.roles is None:
            return app(base, *terms)
        root = self.roles.get(key)
        if root is not None and self.roles.get(caller.key) == root:
            rec = "rec_" + mangle(root)
            if key == root:
                return app(rec, *terms)
            return app(base + "_open", rec, *terms)
        return app(base, *terms)


def binders(params):
    out, args, tys = [], [], []
    for name, ty in params:
        cn = coq_ident(name)
        if ty in RECORDS:
            for f, fty in RECORDS[ty]:
                out.append(f"({cn}_{f} : {ctype(fty)})")
                args.append(f"{cn}_{f}")
                tys.append(ctype(fty))
        else:
            out.append(f"({cn} : {ctype(ty)})")
            args.append(cn)
            tys.append(ctype(ty))
    return " ".join(out), args, tys


def initial_env(params):
    env = {}
    for name, ty in params:
        cn = coq_ident(name)
        if ty in RECORDS:
            env[name] = V(tuple(f"{cn}_{f}" for f, _ in RECORDS[ty]), ty)
        else:
            env[name] = V(cn, ty)
    return env


def translate_body(w, key):
    fn = w.items.fns[key]
    params, ret = w.sig(key)
    tr = VT(w, key, fn)
    tr.rty = ret
    body = Parser(fn.body, fn.tok).block_body(fn.tok)
    text, ty = tr.stmts(body.stmts, 0, body.tail, initial_env(params), None, fn.tok)
    vunify(ty, ret, fn.tok, f"result of {key}")
    return text, tr


def result_type(w, key):
    params, ret = w.sig(key)
    if isinstance(ret, tuple) and ret[0] == "Res":
        return ctype(ret), "OutOfFuel"
    if w.effect.get(key, False):
        return "outcome " + par(ctype(ret)), "OutOfFuel"
    return ctype(ret), None


def check_pins(w):
    out = []
    by = {(f.selfty, f.trait, f.name): f for f in w.items.all}
    for ident, expected in PINNED.items():
        fn = by.get(ident)
        label = f"{ident[0]}::{ident[2]}" + (f" (impl {ident[1]})" if ident[1] else "")
        if fn is None:
            raise Unsupported(f"{label} not found (pinned function)")
        got = norm_text(fn)
        if got != expected:
            die(f"{label} changed (its text is pinned, its reading is written by hand):\n"
                f"  expected: {expected}\n  found:    {got}", fn.tok)
        out.append((label, got))
    for ident, digest in PINNED_HASH.items():
        fn = by.get(ident)
        label = f"{ident[0]}::{ident[2]}"
        if fn is None:
            raise Unsupported(f"{label} not found (pinned function)")
        got = hashlib.sha256(norm_text(fn).encode()).hexdigest()
        if got != digest:
            die(f"{label} changed (the SHA-256 of its token text is pinned: expected {digest}, found {got})", fn.tok)
        out.append((label, "sha256 " + got))
    # the slyce crate
    lock_path = os.path.join(w.repo, "Cargo.lock")
    if not os.path.exists(lock_path):
        raise Unsupported("Cargo.lock: file not found")
    lock = open(lock_path, encoding="utf-8").read()
    m = re.search(r'name = "slyce"\nversion = "([^"]+)"\n(?:source = "[^"]*"\n)?checksum = "([0-9a-f]+)"', lock)
    if m is None:
        raise Unsupported("Cargo.lock:1: package slyce not found")
    line = lock.count("\n", 0, m.start()) + 1
    if (m.group(1), m.group(2)) != (SLYCE_VERSION, SLYCE_CHECKSUM):
        raise Unsupported(f"Cargo.lock:{line}: slyce {m.group(1)} ({m.group(2)[:12]}..) is not the modelled "
                          f"version {SLYCE_VERSION} ({SLYCE_CHECKSUM[:12]}..); Model/Seq.v transcribes that one")
    checked = "not checked (no registry source)"
    for lib in sorted(glob.glob(os.path.expanduser(f"~/.cargo/registry/src/*/slyce-{SLYCE_VERSION}/src/lib.rs"))):
        digest = hashlib.sha256(open(lib, "rb").read()).hexdigest()
        if digest != SLYCE_LIB_SHA256:
            raise Unsupported(f"{lib}:1: slyce source differs from the transcribed one (sha256 {digest})")
        checked = "sha256 " + digest
    out.append((f"crate slyce {SLYCE_VERSION}", f"checksum {SLYCE_CHECKSUM}; src/lib.rs {checked}"))
    return out


def generate(repo):
    w = World(repo)
    pins = check_pins(w)
    for key in WANTED:
        if w.items.fns.get(key) is None:
            raise Unsupported(f"function {key} not found")
    # ---- pass 1: call graph and which plain functions can panic (fixpoint)
    for _ in range(6):
        graph, order, changed = {}, [], False
        todo = list(WANTED)
        while todo:
            key = todo.pop(0)
            if key in graph:
                continue
            if key in READINGS:
                graph[key] = [READINGS[key][1]]
            else:
                _, tr = translate_body(w, key)
                graph[key] = list(dict.fromkeys(tr.calls))
                if tr.needs_effect and not w.effect.get(key, False):
                    w.effect[key] = True
                    changed = True
            order.append(key)
            todo = [c for c in graph[key] if c not in graph] + todo
        if not changed:
            break
    else:
        raise Unsupported("internal: the panic analysis does not stabilise")
    comps = sccs(graph)
    roles, comp_of = {}, {}
    for comp in comps:
        recursive = len(comp) > 1 or comp[0] in graph[comp[0]]
        root = None
        if recursive:
            cands = sorted(comp, key=lambda k: (not k.startswith("Variable::"), order.index(k)))
            for c in cands:
                if c not in READINGS and acyclic_order([k for k in comp if k != c], graph) is not None:
                    root = c
                    break
            if root is None:
                die("mutual recursion that does not pass through one function: " + ", ".join(sorted(comp)),
                    w.items.fns[comp[0]].tok)
        for k in comp:
            roles[k] = root
            comp_of[k] = comp
    w.roles = roles
    defs, done, names = [], set(), []

    def header(key):
        fn = w.items.fns[key]
        tr = f"  (impl {fn.trait} for {fn.selfty})" if fn.trait else ""
        return f"(* {fn.tok.file}:{fn.tok.line}  fn {key}{tr} *)\n"

    def emit(key):
        if key in done:
            return
        comp, root = comp_of[key], roles[key]
        for k in comp:
            done.add(k)
        for k in comp:
            for c in graph[k]:
                if c not in comp:
                    emit(c)
        if root is None:
            text, _ = translate_body(w, key)
            b, _, _ = binders(w.sig(key)[0])
            rt, _ = result_type(w, key)
            defs.append(header(key) + f"Definition gen_{mangle(key)} {b} : {rt} :=\n  {ind(text)}.\n")
            names.append((key, "plain" + (", can panic" if w.effect.get(key) else "")))
            return
        rparams, rret = w.sig(root)
        _, rargs, rtys = binders(rparams)
        rrt, rfuel = result_type(w, root)
        rec = f"(rec_{mangle(root)} : {' -> '.join(rtys + [rrt])})"
        others = acyclic_order([k for k in comp if k != root], graph)
        for k in others:
            if k in READINGS:
                continue
            text, _ = translate_body(w, k)
            b, _, _ = binders(w.sig(k)[0])
            rt, _ = result_type(w, k)
            defs.append(header(k) + f"Definition gen_{mangle(k)}_open {rec} {b} : {rt} :=\n  {ind(text)}.\n")
        text, tr = translate_body(w, root)
        b, args, _ = binders(rparams)
        base = "gen_" + mangle(root)
        sizes = [f"size {coq_ident(n)}" for n, t in rparams if t == "Ty"] + \
                [f"rs_value_size {coq_ident(n)}" for n, t in rparams if t == "Val"]
        if not sizes:
            die(f"{root} is recursive but has no Type / Variable argument to take the fuel from",
                w.items.fns[root].tok)
        a = " ".join(args)
        out_of_fuel = rfuel if rfuel is not None else tr.cdefault(rret, w.items.fns[root].tok)
        defs.append(
            header(root)
            + f"Definition {base}_step {rec} {b} : {rrt} :=\n  {ind(text)}.\n\n"
            + f"Fixpoint {base}_f (fuel : nat) {b} {{struct fuel}} : {rrt} :=\n"
            + f"  match fuel with\n  | O => {out_of_fuel}\n"
            + f"  | S fuel => {base}_step ({base}_f fuel) {a}\n  end.\n\n"
            + f"Definition {base} {b} : {rrt} := {base}_f ({' + '.join(sizes)}) {a}.\n")
        names.append((root, "recursive"))
        for k in others:
            b, args, _ = binders(w.sig(k)[0])
            rt = ctype(w.sig(k)[1]) if k in READINGS else result_type(w, k)[0]
            opened = READINGS[k][0] if k in READINGS else f"gen_{mangle(k)}_open"
            label = f"{k}, PINNED: its reading, closed" if k in READINGS else f"{k}, closed"
            defs.append(f"(* {label} *)\nDefinition gen_{mangle(k)} {b} : {rt} :=\n"
                        f"  {opened} {base} {' '.join(args)}.\n")
            names.append((k, ("pinned, reading " + READINGS[k][0]) if k in READINGS else "through " + root))

    for key in order:
        emit(key)

    out = []
    out.append("(* GENERATED by translators/valuefns2coq.py from src/stdlib.rs (len), src/instruction/{at,slicing}.rs,\n"
               "   src/variable.rs (PartialEq, of_type), src/variable/array.rs (PartialEq) of /repo — do not edit.\n"
               "   One Coq function per Rust function, arm for arm.  Result<T,_> and functions that can panic\n"
               "   return `outcome T`; `&mut Interpreter` is the evaluation function instr -> outcome value and the\n"
               "   order of the binds is the order of evaluation; strings are lists of chars.\n"
               "   Tied to Model/Seq.v, Model/Value.v, Model/Recreate.v by Lemmas/ValueTie.v (Props/C09c.v, C19c.v). *)")
    out.append("From SSL.Model Require Import Base Ty Float Value Ops Seq Syntax.\nFrom Coq Require String.\n")
    out.append(PRELUDE)
    out.extend(defs)
    out.append("(* ---- what was read ---- *)")
    out.append("Module GenValueFnsTable.\nImport Coq.Strings.String.\nLocal Open Scope string_scope.")
    rows = [f"({coq_string(k)}, {coq_string(how)})" for k, how in names]
    out.append("Definition gen_translated : list (string * string) :=\n  [ " + ";\n    ".join(rows) + " ].")
    out.append("(* pinned: functions by their normalised token text (or its SHA-256), the slyce crate by checksum *)")
    rows = [f"({coq_string(k)},\n     {coq_string(txt)})" for k, txt in pins]
    out.append("Definition gen_pinned : list (string * string) :=\n  [ " + ";\n    ".join(rows) + " ].")
    out.append("End GenValueFnsTable.\n")
    return "\n".join(out), names, pins


def main():
    if len(sys.argv) != 3:
        sys.exit("usage: valuefns2coq.py <repo_dir> <gen_dir>")
    repo, gen = sys.argv[1], sys.argv[2]
    sys.setrecursionlimit(10000)
    try:
        text, names, pins = generate(repo)
    except Unsupported as e:
        sys.exit(f"valuefns2coq: {e}")
    except (RecursionError, KeyError, IndexError, AttributeError, TypeError, ValueError) as e:
        sys.exit(f"valuefns2coq: {SOURCES[0][0]}:0: source outside the supported subset "
                 f"(internal {type(e).__name__}: {e})")
    path = os.path.join(gen, "GenValueFns.v")
    if not os.path.exists(path) or open(path, encoding="utf-8").read() != text:
        with open(path, "w", encoding="utf-8") as f:
            f.write(text)
    ntr = sum(1 for _, how in names if not how.startswith("pinned"))
    print(f"valuefns2coq: {ntr} functions translated, {len(pins)} pinned "
          f"(functions by text, slyce {SLYCE_VERSION} by checksum), declarations of Variable / Array / "
          f"Slicing / Instruction checked")


if __name__ == "__main__":
    main()

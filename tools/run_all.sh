#!/bin/bash
# run_all.sh [tier]: every check once, one line each (used before committing)
T=${1:-quick}
cd /verif
for p in $(python3 -c "import json; print(' '.join(c['property_id'] for c in json.load(open('MANIFEST.json'))['checks']))"); do
  s=$(date +%s); out=$(./check $p --tier $T 2>&1); rc=$?
  echo "$p rc=$rc $(( $(date +%s) - s ))s | $(echo "$out" | grep -E "OK:|^VIOLATION|Traceback|Error" | head -3 | tr '\n' ' ' | cut -c1-260)"
done

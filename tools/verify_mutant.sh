#!/bin/bash
# verify_mutant.sh <worktree> <mutant_dir>: confirm in a scratch worktree that the change
# compiles, passes the existing suite, fails its demo, and that the demo passes without it.
WT=$1; D=$2
export CARGO_NET_OFFLINE=true CARGO_TARGET_DIR=$WT/target
demo=$(ls $D/demo_*.rs | head -1); name=$(basename $demo .rs)
cd $WT || exit 2
git checkout -q -- . ; git clean -fdq -e target
git apply $D/patch.diff || { echo "APPLY-FAILED"; exit 2; }
cargo build --offline 2>&1 | grep -E "^error" -A5 | head -20
tests=$(cargo test --workspace --no-fail-fast --offline 2>&1 | grep -E "^test result" | awk '{p+=$4; f+=$6} END {print p" passed "f" failed"}')
cp $demo tests/$name.rs
with=$(cargo test --offline --test $name 2>&1 | grep -E "^test result" | head -1)
git checkout -q -- . 
without=$(cargo test --offline --test $name 2>&1 | grep -E "^test result" | head -1)
rm -f tests/$name.rs
git checkout -q -- . ; git clean -fdq -e target
echo "suite-with-change: $tests | demo-with-change: $with | demo-without: $without"

#!/bin/bash
# batch_mutants.sh <prop> [checks...]: verify and run the three mutants of /tmp/mut_<prop>_out
P=$1; shift; CHECKS=${@:-$P}
for k in 1 2 3; do
  echo "--- $P mutant $k"
  /verif/tools/verify_mutant.sh /tmp/mut_$P /tmp/mut_${P}_out/$k
  /verif/tools/run_mutant.sh /tmp/mut_$P /tmp/mut_${P}_out/$k/patch.diff $CHECKS
done 2>&1 | cut -c1-400

#!/bin/bash
# t9_selftest.sh [--keep] [verif_dir [repo_dir]] — mutation self-test of translator T9
# (translators/typefns2coq.py) and its tie (Lemmas/TypeTie.v, Props/C10c.v).
#
# Works on a scratch COPY of <repo_dir>/src/variable + macros/src/var_type.rs and on a scratch copy
# of the Coq files Props/C10c.v depends on (never on /repo or on <verif_dir>/coq themselves; the
# compiled Model/Ty and Lemmas/Ty* are copied when present, compiled in the scratch copy otherwise).
# For the unmodified sources and for each small edit below it runs
#     translators/typefns2coq.py <copy> <scratch Gen>
#     coqc Gen/GenTypeFns.v ; coqc Lemmas/TypeTie.v ; coqc Props/C10c.v
# and reports the first step that fails.  Semantic edits (S) must make one of them fail;
# behaviour-preserving edits (B) must pass.  Exit status 0 iff the baseline passes, every S edit is
# caught and every B edit passes.
KEEP=0
if [ "$1" = "--keep" ]; then KEEP=1; shift; fi
VERIF=${1:-$(cd "$(dirname "$0")/.." && pwd)}
REPO=${2:-/repo}
WORK=$(mktemp -d /tmp/t9_selftest.XXXXXX)
export VERIF REPO WORK KEEP
python3 - <<'EOF'
import os, shutil, subprocess, sys, time

VERIF, REPO, WORK = os.environ["VERIF"], os.environ["REPO"], os.environ["WORK"]
TRANSLATOR = os.path.join(VERIF, "translators", "typefns2coq.py")
SRC = ["src/variable/type.rs", "src/variable/function_type.rs", "src/variable/struct_type.rs",
       "src/variable/multi_type.rs", "macros/src/var_type.rs"]
DEPS = ["Model/Base", "Model/Ty", "Lemmas/TyFuel", "Lemmas/TyEq", "Lemmas/TyMatches", "Lemmas/TyJoin",
        "Lemmas/TyQuery"]
OWN = ["Gen/GenTypeFns", "Lemmas/TypeTie", "Props/C10c"]
QFLAGS = ["-Q", "Model", "SSL.Model", "-Q", "Lemmas", "SSL.Lemmas", "-Q", "Gen", "SSL.Gen", "-Q", "Props", "SSL.Props"]
T, F, S_, M = SRC[0], SRC[1], SRC[2], SRC[3]

# (id, kind, file, old text, new text)   kind S = semantic (must be caught), B = behaviour-preserving
MUTANTS = [
    ("S01 matches: the two union arms swapped", "S", T,
     """            (Self::Multi(types), other) => types.iter().all(|var_type| var_type.matches(other)),
            (_, Self::Multi(types)) => types.iter().any(|var_type| self.matches(var_type)),
""",
     """            (_, Self::Multi(types)) => types.iter().any(|var_type| self.matches(var_type)),
            (Self::Multi(types), other) => types.iter().all(|var_type| var_type.matches(other)),
"""),
    ("S02 matches: `mut T` made covariant", "S", T,
     "            | (Self::Struct(var_type), Self::Struct(var_type2)) => {",
     "            | (Self::Mut(var_type), Self::Mut(var_type2))\n"
     "            | (Self::Struct(var_type), Self::Struct(var_type2)) => {"),
    ("S03 matches: arity test of tuples dropped", "S", T,
     "types.len() == types2.len()\n                    && zip(types.iter(), types2.iter())",
     "zip(types.iter(), types2.iter())"),
    ("S04 matches: `all` -> `any` for a union on the left", "S", T,
     "types.iter().all(|var_type| var_type.matches(other))",
     "types.iter().any(|var_type| var_type.matches(other))"),
    ("S05 concat absorbs subtypes", "S", T,
     "(first, second) if first == second => first,",
     "(first, second) if second.matches(&first) => first,"),
    ("S06 conjoin: unwrap_or(Type::Never) -> unwrap_or(Type::Any)", "S", T,
     ".unwrap_or(Type::Never),", ".unwrap_or(Type::Any),"),
    ("S07 iter_element of a union keeps the last member only", "S", T,
     "iter.map(Self::iter_element)\n                    .try_fold(first, |acc, curr| Some(acc | curr?))",
     "iter.map(Self::iter_element)\n                    .try_fold(first, |acc, curr| Some(curr?))"),
    ("S08 FunctionType::matches: parameters covariant", "S", F,
     "type2.matches(type1)", "type1.matches(type2)"),
    ("S09 StructType::matches: field test negated", "S", S_,
     "if !var_type.matches(var_type2) {", "if var_type.matches(var_type2) {"),
    ("S10 iter_element tests the second component for bool", "S", T,
     "return_tuple[0] != Type::Bool", "return_tuple[1] != Type::Bool"),
    ("S11 index_result of string is int", "S", T,
     "Type::String => Some(Type::String),", "Type::String => Some(Type::Int),"),
    ("S12 min_tuple_len takes the maximum", "S", T, "if acc < curr? {", "if acc > curr? {"),
    ("S13 matches: last arm `self == other` -> false", "S", T, "_ => self == other", "_ => false"),
    ("S14 ITERATOR_TYPE = () -> (any, any)", "S", T,
     "var_type!(() -> (bool, any))", "var_type!(() -> (any, any))"),
    ("S15 conjoin of functions joins the results", "S", T,
     "let return_type = fn1.return_type.conjoin(&fn2.return_type);",
     "let return_type = fn1.return_type.clone().concat(fn2.return_type.clone());"),
    ("S16 has_field: `all` -> `any` over a union", "S", T,
     "multi.iter().all(|t| t.has_field(ident))", "multi.iter().any(|t| t.has_field(ident))"),
    ("S17 tuple_len of a union ignores disagreement", "S", T,
     "if acc == curr? { Some(acc) } else { None }", "if acc == curr? { Some(acc) } else { Some(acc) }"),
    ("S18 BitOrAssign edited (pinned text)", "S", T,
     "(first, second) if second.matches(first) => (),", "(first, second) if first.matches(&second) => (),"),
    ("S19 construct outside the subset (`.rev()`)", "S", T,
     "multi.iter().all(Self::is_function)", "multi.iter().rev().all(Self::is_function)"),
    ("S20 MultiType no longer derives PartialEq", "S", M,
     "#[derive(Clone, Debug, Display, Eq, PartialEq)]", "#[derive(Clone, Debug, Display)]"),
    ("S21 var_type! builds unions right to left (pinned macro)", "S", SRC[4],
     "quote!(#acc | # curr)", "quote!(#curr | # acc)"),
    ("S22 Type::Mut holds a FunctionType", "S", T, "    Mut(Arc<Type>),", "    Mut(Arc<FunctionType>),"),
    ("B01 a comment and blank lines added inside matches", "B", T,
     "            (_, Self::Any) => true,",
     "            // everything is below any\n\n            (_, Self::Any)   =>   true,"),
    ("B02 bound variable renamed (types2 -> others)", "B", T,
     """            (Self::Tuple(types), Self::Tuple(types2)) => {
                types.len() == types2.len()
                    && zip(types.iter(), types2.iter())""",
     """            (Self::Tuple(types), Self::Tuple(others)) => {
                types.len() == others.len()
                    && zip(types.iter(), others.iter())"""),
    ("B03 redundant clone() added", "B", T,
     "Type::Array(element) => Some(element.as_ref().clone()),\n            Type::Multi(multi) => {\n"
     "                let mut iter = multi.iter();\n                let first = iter.next().unwrap().index_result()?;",
     "Type::Array(element) => Some(element.clone().as_ref().clone()),\n            Type::Multi(multi) => {\n"
     "                let mut iter = multi.iter();\n                let first = iter.next().unwrap().index_result()?;"),
]

def run(cmd, cwd, timeout=900):
    t0 = time.time()
    try:
        p = subprocess.run(cmd, cwd=cwd, stdout=subprocess.PIPE, stderr=subprocess.STDOUT, text=True,
                           timeout=timeout)
        return p.returncode, p.stdout, time.time() - t0
    except subprocess.TimeoutExpired as e:
        return 124, (e.stdout or "") + "\nTIMEOUT", time.time() - t0

def first_error(out):
    lines = [l for l in out.strip().splitlines() if l.strip()]
    for i, l in enumerate(lines):
        if l.startswith("File ") and i + 1 < len(lines):
            return (l.split(",")[1].strip() + ": " + " ".join(x.strip() for x in lines[i + 1:i + 3]))[:150]
    return (lines[0] if lines else "")[:200]

pristine = os.path.join(WORK, "pristine")
scratch = os.path.join(WORK, "repo")
coq = os.path.join(WORK, "coq")
for rel in SRC:
    os.makedirs(os.path.dirname(os.path.join(pristine, rel)), exist_ok=True)
    shutil.copy(os.path.join(REPO, rel), os.path.join(pristine, rel))
for d in ("Model", "Lemmas", "Gen", "Props"):
    os.makedirs(os.path.join(coq, d))
for f in OWN[1:]:
    shutil.copy(os.path.join(VERIF, "coq", f + ".v"), os.path.join(coq, f + ".v"))
print(f"scratch directory: {WORK}")
need_build = False
for f in DEPS:
    src_v, src_vo = os.path.join(VERIF, "coq", f + ".v"), os.path.join(VERIF, "coq", f + ".vo")
    shutil.copy2(src_v, os.path.join(coq, f + ".v"))
    if not need_build and os.path.exists(src_vo) and os.path.getmtime(src_vo) >= os.path.getmtime(src_v):
        shutil.copy2(src_vo, os.path.join(coq, f + ".vo"))
        if os.path.exists(os.path.join(VERIF, "coq", f + ".glob")):
            shutil.copy2(os.path.join(VERIF, "coq", f + ".glob"), os.path.join(coq, f + ".glob"))
    else:
        need_build = True
        rc, out, dt = run(["coqc"] + QFLAGS + [f + ".v"], coq)
        if rc != 0:
            print(f"cannot compile the dependency {f}.v in the scratch copy:\n{out}")
            sys.exit(2)

def attempt(edit):
    """-> (stage that failed or 'ok', detail, seconds)"""
    if os.path.exists(scratch):
        shutil.rmtree(scratch)
    shutil.copytree(pristine, scratch)
    if edit is not None:
        _, _, rel, old, new = edit
        path = os.path.join(scratch, rel)
        text = open(path, encoding="utf-8").read()
        if text.count(old) != 1:
            return "edit-does-not-apply", f"{text.count(old)} occurrences of the old text in {rel}", 0.0
        open(path, "w", encoding="utf-8").write(text.replace(old, new))
    t0 = time.time()
    for f in OWN:
        for ext in (".vo", ".glob", ".vok", ".vos"):
            p = os.path.join(coq, f + ext)
            if os.path.exists(p):
                os.remove(p)
    rc, out, _ = run([sys.executable, TRANSLATOR, scratch, os.path.join(coq, "Gen")], WORK)
    if rc != 0:
        return "translator refuses", out.strip().splitlines()[0][:200] if out.strip() else "", time.time() - t0
    for f in OWN:
        rc, out, _ = run(["coqc"] + QFLAGS + [f + ".v"], coq)
        if rc != 0:
            return f"coqc {f}.v fails", first_error(out), time.time() - t0
    return "ok", "", time.time() - t0

ok = True
stage, detail, dt = attempt(None)
print(f"{'baseline (unchanged sources)':58s} {stage:28s} {dt:5.1f}s  {detail}")
if stage != "ok":
    print("BASELINE FAILS")
    sys.exit(1)
caught = missed = passed = flagged = 0
for m in MUTANTS:
    stage, detail, dt = attempt(m)
    verdict = ""
    if stage == "edit-does-not-apply":
        verdict, ok = "EDIT DOES NOT APPLY (update the self-test)", False
    elif m[1] == "S":
        if stage == "ok":
            verdict, ok, missed = "MISSED", False, missed + 1
        else:
            caught += 1
    else:
        if stage == "ok":
            passed += 1
        else:
            verdict, ok, flagged = "FLAGGED (behaviour-preserving)", False, flagged + 1
    print(f"{m[0]:58s} {stage:28s} {dt:5.1f}s  {verdict} {detail}")
ns = sum(1 for m in MUTANTS if m[1] == "S")
nb = len(MUTANTS) - ns
print(f"semantic edits caught: {caught}/{ns}; behaviour-preserving edits accepted: {passed}/{nb}")
if os.environ.get("KEEP") != "1":
    shutil.rmtree(WORK, ignore_errors=True)
sys.exit(0 if ok else 1)
EOF

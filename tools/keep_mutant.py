#!/usr/bin/env python3
"""keep_mutant.py <src_dir> <seed_id> <property> <verify_line> <check_result...>: store a confirmed
seeded change under /verif/seeded/<seed_id>/ with what was run."""
import json, os, shutil, sys
src, sid, prop, verify = sys.argv[1:5]
result = " ".join(sys.argv[5:])
d = f"/verif/seeded/{sid}"
os.makedirs(d, exist_ok=True)
for f in os.listdir(src):
    if f.endswith((".diff", ".rs", ".json")):
        shutil.copy(os.path.join(src, f), d)
meta = json.load(open(os.path.join(d, "meta.json")))
meta["breaks_property"] = prop
meta["confirmed_in_scratch_worktree"] = verify
meta["checks_run_against_it"] = result
json.dump(meta, open(os.path.join(d, "meta.json"), "w"), indent=1)
print("kept", d)

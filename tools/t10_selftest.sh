#!/bin/bash
# t10_selftest.sh [--keep] [verif_dir [repo_dir]] — mutation self-test of translator T10
# (translators/valuefns2coq.py) and its tie (Lemmas/ValueTie.v, Props/C09c.v, Props/C19c.v).
#
# Works on a scratch COPY of the Rust files the translator reads (+ Cargo.lock) and on a scratch copy
# of the Coq files the two Props files depend on (never on /repo or on <verif_dir>/coq themselves; the
# compiled dependencies are copied when present and fresh, compiled in the scratch copy otherwise).
# For the unmodified sources and for each small edit below it runs
#     translators/valuefns2coq.py <copy> <scratch Gen>
#     coqc Gen/GenValueFns.v ; coqc Lemmas/ValueTie.v ; coqc Props/C09c.v ; coqc Props/C19c.v
# and reports the first step that fails.  Semantic edits (S) must make one of them fail;
# behaviour-preserving edits (B) must pass.  Exit status 0 iff the baseline passes, every S edit is
# caught and every B edit passes.
KEEP=0
if [ "$1" = "--keep" ]; then KEEP=1; shift; fi
VERIF=${1:-$(cd "$(dirname "$0")/.." && pwd)}
REPO=${2:-/repo}
WORK=$(mktemp -d /tmp/t10_selftest.XXXXXX)
export VERIF REPO WORK KEEP
python3 - <<'EOF'
import os, re, shutil, subprocess, sys, time

VERIF, REPO, WORK = os.environ["VERIF"], os.environ["REPO"], os.environ["WORK"]
TRANSLATOR = os.path.join(VERIF, "translators", "valuefns2coq.py")
SRC = ["src/stdlib.rs", "src/instruction.rs", "src/instruction/at.rs", "src/instruction/slicing.rs",
       "src/variable.rs", "src/variable/array.rs", "src/function.rs", "Cargo.lock"]
OWN = ["Gen/GenValueFns", "Lemmas/ValueTie", "Props/C09c", "Props/C19c"]
QFLAGS = ["-Q", "Model", "SSL.Model", "-Q", "Lemmas", "SSL.Lemmas", "-Q", "Gen", "SSL.Gen", "-Q", "Props", "SSL.Props"]
LEN, AT, SL, VAR, ARR, FUN, LOCK = SRC[0], SRC[2], SRC[3], SRC[4], SRC[5], SRC[6], SRC[7]

# (id, kind, file, old text, new text)   kind S = semantic (must be caught), B = behaviour-preserving
MUTANTS = [
    ("S01 negative index uses the byte length (len of a string)", "S", LEN,
     "Variable::String(string) => string.chars().count(),", "Variable::String(string) => string.len(),"),
    ("S02 index below -len clamps to 0", "S", AT,
     """        if index < 0 {
            return Err(ExecError::IndexOutOfBounds);
        }
        index as usize""",
     """        index.max(0) as usize"""),
    ("S03 recreate drops a constant start 0 (wrong under a negative step)", "S", SL,
     """            .map(|iws| iws.recreate(local_variables))
            .transpose()?;
        let stop = self""",
     """            .map(|iws| iws.recreate(local_variables))
            .transpose()?
            .filter(|s| !matches!(s.instruction, Instruction::Variable(Variable::Int(0))));
        let stop = self"""),
    ("S04 struct arm compares pointers (Arc::ptr_eq)", "S", VAR,
     "(Variable::Struct(value1), Variable::Struct(value2)) => **value1 == **value2,",
     "(Variable::Struct(value1), Variable::Struct(value2)) => Arc::ptr_eq(value1, value2),"),
    ("S05 struct arm compares the Arcs (std's same-allocation shortcut)", "S", VAR,
     "(Variable::Struct(value1), Variable::Struct(value2)) => **value1 == **value2,",
     "(Variable::Struct(value1), Variable::Struct(value2)) => value1 == value2,"),
    ("S06 array equality compares the stored element types", "S", ARR,
     "self.elements == other.elements",
     "self.element_type == other.element_type && self.elements == other.elements"),
    ("S07 default of a union takes the last member", "S", VAR,
     "multi_type.iter().next().and_then(Self::of_type)", "multi_type.iter().last().and_then(Self::of_type)"),
    ("S08 default function returns ()", "S", FUN,
     "instruction: returned.into(),", "instruction: Variable::Void.into(),"),
    ("S09 at: index 0 resolved through the negative branch", "S", AT, "if index >= 0 {", "if index > 0 {"),
    ("S10 at: out of bounds reported as ZeroDivision (strings)", "S", AT,
     ".nth(index)\n            .ok_or(ExecError::IndexOutOfBounds)", ".nth(index)\n            .ok_or(ExecError::ZeroDivision)"),
    ("S11 at folding: bounds check inverted", "S", AT,
     "if !range(array.instructions.len()).contains(&value) =>", "if range(array.instructions.len()).contains(&value) =>"),
    ("S12 at folding: range -len..len+1", "S", AT, "-value..value\n", "-value..value + 1\n"),
    ("S13 slicing: the clamp at -i64::MAX dropped", "S", SL,
     ".map(|i| i.max(-i64::MAX) as isize);", ".map(|i| i as isize);"),
    ("S14 slicing: stop evaluated before start", "S", SL,
     """        let start = Slicing::exec_index(&self.start, interpreter)?.into();
        let end = Slicing::exec_index(&self.stop, interpreter)?.into();""",
     """        let end = Slicing::exec_index(&self.stop, interpreter)?.into();
        let start = Slicing::exec_index(&self.start, interpreter)?.into();"""),
    ("S15 slicing: start and end swapped on the way to slyce", "S", SL,
     "slyce::Slice { start, end, step }", "slyce::Slice { start: end, end: start, step }"),
    ("S16 slicing: the step is ignored", "S", SL,
     "slyce::Slice { start, end, step }", "slyce::Slice { start, end, step: None }"),
    ("S17 equality: tuples are never equal", "S", VAR,
     """            | (Variable::String(value1), Variable::String(value2))
            | (Variable::Tuple(value1), Variable::Tuple(value2)) => value1 == value2,""",
     """            | (Variable::String(value1), Variable::String(value2)) => value1 == value2,"""),
    ("S18 equality: cells compared as always equal", "S", VAR,
     "| (Variable::Mut(value1), Variable::Mut(value2)) => Arc::ptr_eq(value1, value2),",
     "=> Arc::ptr_eq(value1, value2),\n            (Variable::Mut(_), Variable::Mut(_)) => true,"),
    ("S19 default of any is undefined", "S", VAR, "Type::Any => Some(Variable::Void),", "Type::Any => None,"),
    ("S20 default int is 1", "S", VAR, "Type::Int => Some(0.into()),", "Type::Int => Some(1.into()),"),
    ("S21 default array forgets its element type", "S", VAR,
     "element_type: arc.as_ref().clone(),", "element_type: Type::Any,"),
    ("S22 default cell declared as `mut any`", "S", VAR,
     "var_type: arc.as_ref().clone(),", "var_type: Type::Any,"),
    ("S23 slyce upgraded in Cargo.lock", "S", LOCK,
     'name = "slyce"\nversion = "0.3.1"', 'name = "slyce"\nversion = "0.3.2"'),
    ("S24 Array derives PartialEq and Eq", "S", ARR,
     "#[derive(Display)]\n#[display(\"{}\", self.string(0))]\npub struct Array {",
     "#[derive(Display, PartialEq, Eq)]\n#[display(\"{}\", self.string(0))]\npub struct Array {"),
    ("S25 len of an array counts one more", "S", LEN,
     "Variable::Array(var) => var.len(),", "Variable::Array(var) => var.len() + 1,"),
    ("B01 comments and spacing", "B", AT,
     "    let index = index.into_int().unwrap();",
     "    // the checker guarantees an int\n\n    let index   =   index.into_int().unwrap();"),
    ("B02 bound variable renamed (string -> text)", "B", AT,
     "        Variable::String(string) => string\n", "        Variable::String(text) => text\n"),
    ("B03 redundant clone() added", "B", VAR,
     "Type::Mut(arc) => Some(\n                Mut {\n                    var_type: arc.as_ref().clone(),",
     "Type::Mut(arc) => Some(\n                Mut {\n                    var_type: arc.as_ref().clone().clone(),"),
]

def run(cmd, cwd, timeout=1800):
    t0 = time.time()
    try:
        p = subprocess.run(cmd, cwd=cwd, stdout=subprocess.PIPE, stderr=subprocess.STDOUT, text=True,
                           timeout=timeout)
        return p.returncode, p.stdout, time.time() - t0
    except subprocess.TimeoutExpired as e:
        return 124, (e.stdout or "") + "\nTIMEOUT", time.time() - t0

def first_error(out):
    lines = [l for l in out.strip().splitlines() if l.strip()]
    for i, l in enumerate(lines):
        if l.startswith("File ") and i + 1 < len(lines) and "Error" in " ".join(lines[i + 1:i + 3]):
            return (l.split(",")[1].strip() + ": " + " ".join(x.strip() for x in lines[i + 1:i + 3]))[:150]
    return (lines[-1] if lines else "")[:200]

def deps_of(f, seen, order):
    """transitive SSL.* dependencies of coq/<f>.v, dependencies first"""
    if f in seen:
        return
    seen.add(f)
    path = os.path.join(VERIF, "coq", f + ".v")
    if not os.path.exists(path):
        return
    src = open(path, encoding="utf-8").read()
    for m in re.finditer(r"From\s+SSL\.(\w+)\s+Require\s+(?:Import\s+|Export\s+)?([^.]*)\.", src):
        for name in m.group(2).split():
            deps_of(f"{m.group(1)}/{name}", seen, order)
    order.append(f)

order, seen = [], set()
for f in OWN[1:]:
    deps_of(f, seen, order)
DEPS = [f for f in order if f not in OWN]

pristine = os.path.join(WORK, "pristine")
scratch = os.path.join(WORK, "repo")
coq = os.path.join(WORK, "coq")
for rel in SRC:
    os.makedirs(os.path.dirname(os.path.join(pristine, rel)), exist_ok=True)
    shutil.copy(os.path.join(REPO, rel), os.path.join(pristine, rel))
for d in ("Model", "Lemmas", "Gen", "Props"):
    os.makedirs(os.path.join(coq, d))
for f in OWN[1:]:
    shutil.copy(os.path.join(VERIF, "coq", f + ".v"), os.path.join(coq, f + ".v"))
print(f"scratch directory: {WORK}")
need_build = False
for f in DEPS:
    src_v, src_vo = os.path.join(VERIF, "coq", f + ".v"), os.path.join(VERIF, "coq", f + ".vo")
    shutil.copy2(src_v, os.path.join(coq, f + ".v"))
    if not need_build and os.path.exists(src_vo) and os.path.getmtime(src_vo) >= os.path.getmtime(src_v):
        shutil.copy2(src_vo, os.path.join(coq, f + ".vo"))
    else:
        if not need_build:
            print(f"(compiling the dependencies from {f}.v on in the scratch copy)")
        need_build = True
        rc, out, dt = run(["coqc"] + QFLAGS + [f + ".v"], coq)
        if rc != 0:
            print(f"cannot compile the dependency {f}.v in the scratch copy:\n{out}")
            sys.exit(2)

def attempt(edit):
    """-> (stage that failed or 'ok', detail, seconds)"""
    if os.path.exists(scratch):
        shutil.rmtree(scratch)
    shutil.copytree(pristine, scratch)
    if edit is not None:
        _, _, rel, old, new = edit
        path = os.path.join(scratch, rel)
        text = open(path, encoding="utf-8").read()
        if text.count(old) != 1:
            return "edit-does-not-apply", f"{text.count(old)} occurrences of the old text in {rel}", 0.0
        open(path, "w", encoding="utf-8").write(text.replace(old, new))
    t0 = time.time()
    for f in OWN:
        for ext in (".vo", ".glob", ".vok", ".vos"):
            p = os.path.join(coq, f + ext)
            if os.path.exists(p):
                os.remove(p)
    rc, out, _ = run([sys.executable, TRANSLATOR, scratch, os.path.join(coq, "Gen")], WORK)
    if rc != 0:
        return "translator refuses", out.strip().splitlines()[0][:200] if out.strip() else "", time.time() - t0
    for f in OWN:
        rc, out, _ = run(["coqc"] + QFLAGS + [f + ".v"], coq)
        if rc != 0:
            return f"coqc {f}.v fails", first_error(out), time.time() - t0
    return "ok", "", time.time() - t0

ok = True
stage, detail, dt = attempt(None)
print(f"{'baseline (unchanged sources)':68s} {stage:28s} {dt:5.1f}s  {detail}")
if stage != "ok":
    print("BASELINE FAILS")
    sys.exit(1)
caught = missed = passed = flagged = 0
for m in MUTANTS:
    stage, detail, dt = attempt(m)
    verdict = ""
    if stage == "edit-does-not-apply":
        verdict, ok = "EDIT DOES NOT APPLY (update the self-test)", False
    elif m[1] == "S":
        if stage == "ok":
            verdict, ok, missed = "MISSED", False, missed + 1
        else:
            caught += 1
    else:
        if stage == "ok":
            passed += 1
        else:
            verdict, ok, flagged = "FLAGGED (behaviour-preserving)", False, flagged + 1
    print(f"{m[0]:68s} {stage:28s} {dt:5.1f}s  {verdict} {detail}")
ns = sum(1 for m in MUTANTS if m[1] == "S")
nb = len(MUTANTS) - ns
print(f"semantic edits caught: {caught}/{ns}; behaviour-preserving edits accepted: {passed}/{nb}")
if os.environ.get("KEEP") != "1":
    shutil.rmtree(WORK, ignore_errors=True)
sys.exit(0 if ok else 1)
EOF

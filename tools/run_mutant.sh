#!/bin/bash
# run_mutant.sh <worktree> <patch> <check-id...>: apply the change in the scratch worktree, run the
# given checks (quick) against THAT checkout (VERIF_REPO), undo, and restore the Gen files from /repo.
# (/repo itself is never touched, so concurrent work reading /repo is not disturbed.)
WT=$1; P=$2; shift; shift
git -C $WT checkout -q -- . ; git -C $WT clean -fdq -e target; git -C $WT checkout -q --detach $(git -C /repo rev-parse HEAD); git -C $WT apply $P || { echo APPLY-FAILED; exit 2; }
for c in "$@"; do
  out=$(cd /verif && VERIF_REPO=$WT timeout 2400 ./check $c --tier quick 2>&1); rc=$?
  echo "== $c rc=$rc"; echo "$out" | grep -E "^VIOLATION|OK:" | head -3; echo "$out" | grep -A1 "^VIOLATION" | grep -v "^VIOLATION\|^--" | head -2 | cut -c1-330
done
git -C $WT checkout -q -- .
cd /verif && for t in translators/*2coq.py; do python3 $t /repo coq/Gen >/dev/null; done

#!/bin/bash
# run_mutant.sh <patch> <check-id...>: apply the change to /repo, run the given checks (quick), undo.
P=$1; shift
cd /repo && git diff --quiet || { echo "/repo not clean"; exit 2; }
git -C /repo apply $P || { echo APPLY-FAILED; exit 2; }
for c in "$@"; do
  out=$(cd /verif && timeout 1800 ./check $c --tier quick 2>&1); rc=$?
  echo "== $c rc=$rc"; echo "$out" | grep -E "^VIOLATION|^KNOWN|OK:" | head -4; echo "$out" | grep -A1 "^VIOLATION" | grep -v "^VIOLATION\|^--" | head -2 | cut -c1-300
done
git -C /repo checkout -- .

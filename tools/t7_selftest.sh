#!/bin/bash
# t7_selftest.sh [--keep] [verif_dir [repo_dir]] — mutation self-test of translator T7 and its tie.
#
# Works on a scratch COPY of <repo_dir>/src and a scratch copy of the Coq files that
# Props/C08c.v depends on (never on /repo or on <verif_dir>/coq themselves).  For the unmodified
# sources and for each one-token edit below it runs
#     translators/scalar2coq.py <copy> <scratch Gen>   and   make Props/C08c.vo
# and reports which of the two fails.  Semantic edits must make one of them fail; behaviour-
# preserving edits should make neither fail.  Exit status 0 iff the baseline passes, every
# semantic edit is caught and every behaviour-preserving edit passes.
KEEP=0
if [ "$1" = "--keep" ]; then KEEP=1; shift; fi
VERIF=${1:-$(cd "$(dirname "$0")/.." && pwd)}
REPO=${2:-/repo}
WORK=$(mktemp -d /tmp/t7_selftest.XXXXXX)
export VERIF REPO WORK KEEP
python3 - <<'EOF'
import os, shutil, subprocess, sys, time

VERIF, REPO, WORK = os.environ["VERIF"], os.environ["REPO"], os.environ["WORK"]
TRANSLATOR = os.path.join(VERIF, "translators", "scalar2coq.py")
B = "src/instruction/bin_op"
FILES = ["Model/Base.v", "Model/Ty.v", "Model/Float.v", "Model/Value.v", "Model/Ops.v", "Model/Seq.v",
         "Model/Syntax.v", "Model/Rt.v", "Model/Recreate.v", "Model/Exec.v", "Lemmas/OpsLemmas.v",
         "Lemmas/OpsLemmas2.v", "Lemmas/ExecLemmas.v",
         "Model/GenGlue.v", "Gen/GenScalar.v", "Lemmas/ScalarTie.v", "Props/C08c.v"]

# (id, kind, file, old text, new text, which occurrence (0-based))
#   kind S = semantic edit (must be caught), B = behaviour-preserving edit (should pass),
#   F = behaviour-preserving edit that is known to be flagged (reported, does not count)
MUTANTS = [
    ("S01 shift bound 0..=63 -> 0..=64 (exec)", "S", f"{B}/shift.rs", "0..=63", "0..=64", 1),
    ("S02 shift bound 0..=63 -> 0..=64 (folding guard)", "S", f"{B}/shift.rs", "0..=63", "0..=64", 0),
    ("S03 shift bound 0..=63 -> 1..=63 (exec)", "S", f"{B}/shift.rs", "0..=63", "1..=63", 1),
    ("S04 pow guard exp < 0 -> exp <= 0", "S", f"{B}/math/pow.rs", "if exp < 0", "if exp <= 0", 0),
    ("S05 subtract wrapping_sub -> wrapping_add", "S", f"{B}/math/subtract.rs", "wrapping_sub", "wrapping_add", 0),
    ("S06 subtract operands swapped (int)", "S", f"{B}/math/subtract.rs", "lhs.wrapping_sub(rhs)", "rhs.wrapping_sub(lhs)", 0),
    ("S07 comparison operands swapped (lhs oper rhs)", "S", f"{B}/math.rs", "(lhs oper rhs)", "(rhs oper lhs)", 0),
    ("S08 divide: zero arm moved below the int arm", "S", f"{B}/math/divide.rs",
     """        (_, Variable::Int(0)) => Err(ExecError::ZeroDivision),
        (Variable::Int(dividend), Variable::Int(divisor)) => {
            Ok(dividend.wrapping_div(divisor).into())
        }
""",
     """        (Variable::Int(dividend), Variable::Int(divisor)) => {
            Ok(dividend.wrapping_div(divisor).into())
        }
        (_, Variable::Int(0)) => Err(ExecError::ZeroDivision),
""", 0),
    ("S09 ^= dispatched to bitwise_or::exec", "S", "src/instruction/bin_op.rs",
     "assign::exec(lhs, rhs, xor::exec)", "assign::exec(lhs, rhs, bitwise_or::exec)", 0),
    ("S10 / dispatched to modulo::exec", "S", "src/instruction/bin_op.rs",
     "BinOperator::Divide => divide::exec(lhs, rhs)?", "BinOperator::Divide => modulo::exec(lhs, rhs)?", 0),
    ("S11 pow loop: exp >>= 1 -> exp >>= 2", "S", f"{B}/math/pow.rs", "exp >>= 1", "exp >>= 2", 0),
    ("S12 pow loop: exp & 1 == 1 -> exp & 1 == 0", "S", f"{B}/math/pow.rs", "exp & 1 == 1", "exp & 1 == 0", 0),
    ("S13 pow loop: acc starts at 0", "S", f"{B}/math/pow.rs", "let mut acc: i64 = 1", "let mut acc: i64 = 0", 0),
    ("S14 pow loop: base squared with wrapping_add", "S", f"{B}/math/pow.rs",
     "base = base.wrapping_mul(base)", "base = base.wrapping_add(base)", 0),
    ("S15 modulo by zero reports ZeroDivision (exec)", "S", f"{B}/math/modulo.rs",
     "Err(ExecError::ZeroModulo)", "Err(ExecError::ZeroDivision)", 1),
    ("S16 modulo by zero reports ZeroDivision (folding)", "S", f"{B}/math/modulo.rs",
     "Err(ExecError::ZeroModulo)", "Err(ExecError::ZeroDivision)", 0),
    ("S17 bitwise_and template uses the or operator", "S", f"{B}/bitwise.rs", "[lhs & rhs]", "[lhs | rhs]", 0),
    ("S18 string concatenation order", "S", f"{B}/math/add.rs", '"{value1}{value2}"', '"{value2}{value1}"', 0),
    ("S19 Array::concat operands swapped", "S", f"{B}/math/add.rs", "Array::concat(array1, array2)", "Array::concat(array2, array1)", 0),
    ("S20 == implemented with !=", "S", "src/instruction/bin_op.rs", "(lhs == rhs).into()", "(lhs != rhs).into()", 0),
    ("S21 divide folding rebuilds a Modulo node", "S", f"{B}/math/divide.rs", "op: BinOperator::Divide", "op: BinOperator::Modulo", 0),
    ("S22 create_from_instructions_with_exec swaps operands", "S", "src/instruction/bin_op.rs",
     "exec(lhs, rhs).into()", "exec(rhs, lhs).into()", 0),
    ("S23 recreate: < folded with lower_equal", "S", "src/instruction/bin_op.rs",
     "BinOperator::Lower => Ok(lower::create_from_instructions(lhs, rhs))",
     "BinOperator::Lower => Ok(lower_equal::create_from_instructions(lhs, rhs))", 0),
    ("S24 > instantiated with >=", "S", f"{B}/math.rs", "[greater] [Greater] [>];", "[greater] [Greater] [>=];", 0),
    ("S25 exponent cast as u32", "S", f"{B}/math/pow.rs", "exp as u64", "exp as u32", 0),
    ("S26 assign::exec applies function(rhs, current)", "S", f"{B}/assign.rs",
     "*lhs = function(lhs.clone(), rhs);", "*lhs = function(rhs, lhs.clone());", 0),
    ("S27 right operand evaluated first", "S", "src/instruction/bin_op.rs",
     """        let lhs = self.lhs.exec(interpreter)?;
        if let BinOperator::And = self.op {""",
     """        let rhs = self.rhs.exec(interpreter)?;
        let lhs = self.lhs.exec(interpreter)?;
        if let BinOperator::And = self.op {""", 0),
    ("S28 shift operands swapped (lhs << rhs)", "S", f"{B}/shift.rs", "[lhs << rhs]", "[rhs << lhs]", 0),
    ("S29 powf operands swapped", "S", f"{B}/math/pow.rs", "base.powf(exp)", "exp.powf(base)", 0),
    ("S30 ! on bool is the identity", "S", "src/instruction/prefix_op.rs", "(!var).into()", "(var).into()", 0),
    ("S31 unary minus on float is the identity", "S", "src/instruction/prefix_op.rs", "var!(-num)", "var!(num)", 0),
    ("S32 <<= dispatched to rshift::exec", "S", "src/instruction/bin_op.rs",
     "assign::try_exec(lhs, rhs, lshift::exec)?", "assign::try_exec(lhs, rhs, rshift::exec)?", 0),
    ("S33 multiply: float arm uses /", "S", f"{B}/math/multiply.rs", "(lhs * rhs)", "(lhs / rhs)", 0),
    ("S34 add: catch-all arm moved to the top", "S", f"{B}/math/add.rs",
     """    match (lhs, rhs) {
        (Variable::Int(value1), Variable::Int(value2)) => value1.wrapping_add(value2).into(),""",
     """    match (lhs, rhs) {
        (lhs, rhs) => panic!("Tried to do {lhs} + {rhs} which is imposible"),
        (Variable::Int(value1), Variable::Int(value2)) => value1.wrapping_add(value2).into(),""", 0),
    ("S35 not: folding keeps a UnaryMinus node", "S", "src/instruction/prefix_op.rs",
     "UnaryOperation {instruction, op: UnaryOperator::Not }", "UnaryOperation {instruction, op: UnaryOperator::UnaryMinus }", 0),
    ("S36 plain i64 addition instead of wrapping_add", "S", f"{B}/math/add.rs",
     "value1.wrapping_add(value2).into()", "(value1 + value2).into()", 0),
    ("S37 pow: negative-exponent arm moved below the int arm", "S", f"{B}/math/pow.rs",
     """        (_, Variable::Int(exp)) if exp < 0 => Err(ExecError::NegativeExponent),
        (Variable::Int(base), Variable::Int(exp)) => Ok(wrapping_pow(base, exp as u64).into()),
""",
     """        (Variable::Int(base), Variable::Int(exp)) => Ok(wrapping_pow(base, exp as u64).into()),
        (_, Variable::Int(exp)) if exp < 0 => Err(ExecError::NegativeExponent),
""", 0),
    ("S38 shift: range test written rhs < 0 || rhs > 64", "S", f"{B}/shift.rs",
     "if !(0..=63).contains(rhs) {", "if *rhs < 0 || *rhs > 64 {", 0),
    # ---- behaviour-preserving edits
    ("B01 comment added", "B", f"{B}/math/add.rs", "pub fn exec(", "// sums\npub fn exec(", 0),
    ("B02 bound variables renamed consistently", "B", f"{B}/math/subtract.rs",
     "(Variable::Int(lhs), Variable::Int(rhs)) => lhs.wrapping_sub(rhs).into()",
     "(Variable::Int(a), Variable::Int(b)) => a.wrapping_sub(b).into()", 0),
    ("B03 two disjoint arms reordered (int / float of add)", "B", f"{B}/math/add.rs",
     """        (Variable::Int(value1), Variable::Int(value2)) => value1.wrapping_add(value2).into(),
        (Variable::Float(value1), Variable::Float(value2)) => (value1 + value2).into(),
""",
     """        (Variable::Float(value1), Variable::Float(value2)) => (value1 + value2).into(),
        (Variable::Int(value1), Variable::Int(value2)) => value1.wrapping_add(value2).into(),
""", 0),
    ("B04 block arm written inline", "B", f"{B}/math/divide.rs",
     """(Variable::Int(dividend), Variable::Int(divisor)) => {
            Ok(dividend.wrapping_div(divisor).into())
        }""",
     "(Variable::Int(dividend), Variable::Int(divisor)) => Ok(dividend.wrapping_div(divisor).into()),", 0),
    ("B05 two dispatch arms reordered (Add / Subtract)", "B", "src/instruction/bin_op.rs",
     """            BinOperator::Add => add::exec(lhs, rhs),
            BinOperator::Subtract => subtract::exec(lhs, rhs),
""",
     """            BinOperator::Subtract => subtract::exec(lhs, rhs),
            BinOperator::Add => add::exec(lhs, rhs),
""", 0),
    ("B06 range written 0..64 (exec)", "B", f"{B}/shift.rs", "0..=63", "0..64", 1),
    ("B07 parameter renamed (divide::exec)", "B", f"{B}/math/divide.rs",
     """pub fn exec(dividend: Variable, divisor: Variable) -> Result<Variable, ExecError> {
    match (dividend, divisor) {""",
     """pub fn exec(p: Variable, q: Variable) -> Result<Variable, ExecError> {
    match (p, q) {""", 0),
    ("B08 guard written 0 > exp", "B", f"{B}/math/pow.rs", "if exp < 0", "if 0 > exp", 0),
    ("F01 loop condition written exp != 0 (u64 is modelled on Z: flagged)", "F", f"{B}/math/pow.rs", "while exp > 0", "while exp != 0", 0),
    ("B09 shift: range test written rhs < 0 || rhs > 63", "B", f"{B}/shift.rs",
     "if !(0..=63).contains(rhs) {", "if *rhs < 0 || *rhs > 63 {", 0),
    ("B11 divide: float arm moved above the int arm", "B", f"{B}/math/divide.rs",
     """        (Variable::Int(dividend), Variable::Int(divisor)) => {
            Ok(dividend.wrapping_div(divisor).into())
        }
        (Variable::Float(dividend), Variable::Float(divisor)) => Ok((dividend / divisor).into()),
""",
     """        (Variable::Float(dividend), Variable::Float(divisor)) => Ok((dividend / divisor).into()),
        (Variable::Int(dividend), Variable::Int(divisor)) => {
            Ok(dividend.wrapping_div(divisor).into())
        }
""", 0),
    ("B10 panic message changed", "B", f"{B}/math/multiply.rs", 'panic!("Tried to do {lhs} * {rhs}")', 'panic!("cannot multiply")', 0),
]


def sh(cmd, cwd=None, timeout=1800):
    try:
        p = subprocess.run(cmd, cwd=cwd, stdout=subprocess.PIPE, stderr=subprocess.STDOUT, timeout=timeout,
                           text=True)
        return p.returncode, p.stdout
    except subprocess.TimeoutExpired as e:
        return 124, (e.stdout or "") + "\nTIMEOUT"


def setup():
    coq = os.path.join(WORK, "coq")
    for f in FILES:
        os.makedirs(os.path.join(coq, os.path.dirname(f)), exist_ok=True)
        base = os.path.join(VERIF, "coq", f[:-2])
        for ext in (".v", ".vo", ".glob", ".vos", ".vok"):
            if os.path.exists(base + ext):
                shutil.copy2(base + ext, os.path.join(coq, f[:-2] + ext))     # keeps time stamps
    with open(os.path.join(coq, "_CoqProject"), "w") as fh:
        fh.write("-Q Model SSL.Model\n-Q Lemmas SSL.Lemmas\n-Q Gen SSL.Gen\n-Q Props SSL.Props\n"
                 + "\n".join(FILES) + "\n")
    rc, out = sh(["coq_makefile", "-f", "_CoqProject", "-o", "Makefile"], cwd=coq)
    if rc:
        sys.exit("coq_makefile failed:\n" + out)
    return coq


def run(coq, src_root):
    """-> (verdict, detail)"""
    rc, out = sh([sys.executable, TRANSLATOR, src_root, os.path.join(coq, "Gen")], timeout=120)
    if rc:
        lines = [l for l in out.strip().split("\n") if l.strip()]
        first = next((l for l in lines if l.startswith("scalar2coq:")), lines[0] if lines else "")
        return "translator fails", first[:230]
    rc, out = sh(["make", "-j4", "Props/C08c.vo"], cwd=coq, timeout=1800)
    if rc:
        where = ""
        lines = out.split("\n")
        for i, l in enumerate(lines):
            if l.startswith("File "):
                where = l.split(",")[0].replace('File "./', "").rstrip('"') + "," + l.split(",")[1]
                break
        lemma = ""
        if where:
            fn, ln = where.split(", line ")
            try:
                src = open(os.path.join(coq, fn)).read().split("\n")
                for k in range(int(ln) - 1, -1, -1):
                    w = src[k].split()
                    if w and w[0] in ("Lemma", "Theorem", "Definition", "Fixpoint"):
                        lemma = w[1].rstrip(":")
                        break
            except OSError:
                pass
        return "proof fails", f"{where} ({lemma})" if where else out[-200:].replace("\n", " ")
    return "nothing fails", ""


def main():
    coq = setup()
    pristine = os.path.join(WORK, "pristine")
    shutil.copytree(os.path.join(REPO, "src"), os.path.join(pristine, "src"))
    rows = []
    t0 = time.time()
    verdict, detail = run(coq, pristine)
    rows.append(("baseline (unmodified sources)", "-", verdict, detail))
    ok = verdict == "nothing fails"
    if not ok:
        print("BASELINE FAILS:", verdict, detail)
    for mid, kind, rel, old, new, occ in (MUTANTS if ok else []):
        mroot = os.path.join(WORK, "mutant")
        shutil.rmtree(mroot, ignore_errors=True)
        shutil.copytree(os.path.join(pristine, "src"), os.path.join(mroot, "src"))
        path = os.path.join(mroot, rel)
        text = open(path, encoding="utf-8").read()
        pos = -1
        for _ in range(occ + 1):
            pos = text.find(old, pos + 1)
            if pos < 0:
                break
        if pos < 0:
            rows.append((mid, kind, "EDIT NOT APPLICABLE", f"text not found in {rel}"))
            ok = False
            continue
        open(path, "w", encoding="utf-8").write(text[:pos] + new + text[pos + len(old):])
        verdict, detail = run(coq, mroot)
        rows.append((mid, kind, verdict, detail))
        caught = verdict != "nothing fails"
        if (kind == "S" and not caught) or (kind == "B" and caught):
            ok = False
        print(f"{mid:58s} {verdict:17s} {detail}", flush=True)
    # restore the scratch Gen from the pristine sources (harmless; the scratch dir is removed anyway)
    print()
    print("| edit | kind | result | where |")
    print("|---|---|---|---|")
    for mid, kind, verdict, detail in rows:
        print(f"| {mid} | {kind} | {verdict} | {detail} |")
    s_total = sum(1 for r in rows if r[1] == "S")
    s_caught = sum(1 for r in rows if r[1] == "S" and r[2] in ("translator fails", "proof fails"))
    b_total = sum(1 for r in rows if r[1] == "B")
    b_pass = sum(1 for r in rows if r[1] == "B" and r[2] == "nothing fails")
    print(f"\nsemantic edits caught: {s_caught}/{s_total}; behaviour-preserving edits passing: {b_pass}/{b_total}; "
          f"{time.time() - t0:.0f} s")
    print("T7 SELF-TEST " + ("OK" if ok else "FAILED"))
    sys.exit(0 if ok else 1)


main()
EOF
RC=$?
if [ "$KEEP" = 1 ]; then echo "scratch kept in $WORK"; else rm -rf "$WORK"; fi
exit $RC

#!/bin/sh
# builds build/ocaml/driver from the fresh extraction; run from anywhere
set -e
V=$(cd "$(dirname "$0")/.." && pwd)
B=$V/build/ocaml
mkdir -p "$B"
cd "$B"
coqc -Q "$V/coq/Model" SSL.Model -Q "$V/coq/Gen" SSL.Gen "$V/coq/Extract/Extract.v" >/dev/null
cp "$V"/ocaml/*.ml "$B"/
ocamlfind ocamlopt -w -a -o driver model.mli model.ml sexp.ml conv.ml lanes.ml driver.ml

#!/bin/sh
# builds build/ocaml/driver from the fresh extraction; run from anywhere
set -e
V=$(cd "$(dirname "$0")/.." && pwd)
B=$V/build/ocaml
mkdir -p "$B"
cd "$B"
coqc -Q "$V/coq/Model" SSL.Model -Q "$V/coq/Gen" SSL.Gen "$V/coq/Extract/Extract.v" >/dev/null
rm -f "$B"/lane_*.ml
cp "$V"/ocaml/*.ml "$B"/
# lane_*.ml are optional plug-in handler modules (each calls Plug.register at load time)
PLUGS=$(ls lane_*.ml 2>/dev/null | sort | tr '\n' ' ')
ocamlfind ocamlopt -w -a -o driver model.mli model.ml sexp.ml conv.ml plug.ml $PLUGS lanes.ml driver.ml

#!/bin/sh
# builds build/ocaml/driver from the fresh extraction; run from anywhere
set -e
V=$(cd "$(dirname "$0")/.." && pwd)
B=$V/build/ocaml
mkdir -p "$B"
# the model files Extract.v loads must be compiled against the CURRENT Gen files (a regenerated
# grammar or table leaves stale .vo files otherwise): bring them up to date first
if [ -f "$V/coq/Makefile" ]; then (cd "$V/coq" && make -j16 Extract/Extract.vo > "$B/make.log" 2>&1) || true; fi
cd "$B"
extract() { coqc -Q "$V/coq/Model" SSL.Model -Q "$V/coq/Gen" SSL.Gen "$V/coq/Extract/Extract.v" > /dev/null; }
if ! extract 2> "$B/extract.err"; then
  # stale compiled files somewhere in the cone of Extract.v: rebuild the model directory as a whole, once
  if [ -f "$V/coq/Makefile" ]; then (cd "$V/coq" && make -j16 $(ls Model/*.v Gen/*.v | sed 's/\.v$/.vo/') Extract/Extract.vo >> "$B/make.log" 2>&1) || true; fi
  extract
fi
rm -f "$B"/lane_*.ml
cp "$V"/ocaml/*.ml "$B"/
# lane_*.ml are optional plug-in handler modules (each calls Plug.register at load time)
PLUGS=$(ls lane_*.ml 2>/dev/null | sort | tr '\n' ' ')
ocamlfind ocamlopt -w -a -o driver model.mli model.ml sexp.ml conv.ml plug.ml $PLUGS lanes.ml driver.ml

(* lane L14: the Pratt parser model on token sequences, with the table the code builds
   (Model.table_of_levels applied to the regenerated GenPratt.pratt_levels).

     (pratt TOK ...)        TOK = (a N) an atom numbered N | (o RULE) an operator token, RULE being a
                            rule name of the shared numbering (op_names) or its number
   prints the tree the model's pratt_parse builds:
     (atom N) | (pre RULE t) | (post RULE t) | (in RULE l r)
   or `none` when the model's parser does not answer (pest would panic), `!fuel` if the model
   ran out of fuel (PrattLemmas.pratt_never_out_of_fuel: never).
     (pratt-table)          prints the table as (RULE AFFIX PREC) ... *)
open Model
open Sexp
open Conv

let n_of_int (k : int) : n = if k = 0 then N0 else Npos (pos_of_int k)
let rec int_of_pos (p : positive) : int =
  match p with XH -> 1 | XO q -> 2 * int_of_pos q | XI q -> 2 * int_of_pos q + 1
let int_of_n (k : n) : int = match k with N0 -> 0 | Npos p -> int_of_pos p

let names : (int * string) list =
  List.map (fun (k, s) -> (int_of_n k, string_of_ident s)) op_names

let rule_of_string (s : string) : n =
  match List.find_opt (fun (_, nm) -> nm = s) names with
  | Some (k, _) -> n_of_int k
  | None -> (match int_of_string_opt s with
             | Some k when List.mem_assoc k names -> n_of_int k
             | _ -> raise (Bad ("operator rule " ^ s)))

let rule_name (k : n) : string =
  match List.assoc_opt (int_of_n k) names with Some s -> s | None -> string_of_int (int_of_n k)

let the_table = table_of_levels pratt_levels

let tok_of = function
  | L [A "a"; A k] -> TAtom (n_of_int (int_of_string k))
  | L [A "o"; A r] | L [A "o"; S r] -> TOp (rule_of_string r)
  | _ -> raise (Bad "pratt token")

let rec show t : string =
  match t with
  | PAtom a -> "(atom " ^ string_of_int (int_of_n a) ^ ")"
  | PPre (o, t) -> "(pre " ^ rule_name o ^ " " ^ show t ^ ")"
  | PPost (o, t) -> "(post " ^ rule_name o ^ " " ^ show t ^ ")"
  | PIn (o, l, r) -> "(in " ^ rule_name o ^ " " ^ show l ^ " " ^ show r ^ ")"

let affix_name = function Prefix -> "prefix" | Postfix -> "postfix" | InfixL -> "infixl" | InfixR -> "infixr"

let () = Plug.register (fun s ->
  match s with
  | L (A "pratt" :: toks) ->
      let toks = List.map tok_of toks in
      (match pratt_run (tlookup the_table) toks with
       | Ok (t, []) -> Some (show t)
       | Ok (_, _) -> Some "none"
       | OutOfFuel -> Some "!fuel"
       | _ -> Some "none")
  | L [A "pratt-table"] ->
      Some (String.concat " " (List.rev_map (fun (o, (af, p)) ->
        "(" ^ rule_name o ^ " " ^ affix_name af ^ " " ^ string_of_int (int_of_nat p) ^ ")") the_table))
  | _ -> None)

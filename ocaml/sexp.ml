(* Minimal S-expressions: atoms, quoted strings (backslash escapes for
   backslash, double quote, n, t, r and u{HEX}), lists. *)
type t = A of string | S of string | L of t list

exception Parse_error of string

let parse (s : string) : t =
  let n = String.length s in
  let pos = ref 0 in
  let peek () = if !pos < n then Some s.[!pos] else None in
  let rec skip () =
    match peek () with
    | Some (' ' | '\t' | '\n' | '\r') -> incr pos; skip ()
    | _ -> () in
  let rec value () =
    skip ();
    match peek () with
    | None -> raise (Parse_error "eof")
    | Some '(' ->
        incr pos;
        let items = ref [] in
        let rec loop () =
          skip ();
          match peek () with
          | Some ')' -> incr pos
          | None -> raise (Parse_error "unclosed")
          | _ -> items := value () :: !items; loop () in
        loop ();
        L (List.rev !items)
    | Some ')' -> raise (Parse_error "unexpected )")
    | Some '"' ->
        incr pos;
        let b = Buffer.create 16 in
        let rec loop () =
          match peek () with
          | None -> raise (Parse_error "unclosed string")
          | Some '"' -> incr pos
          | Some '\\' ->
              incr pos;
              (match peek () with
               | Some 'n' -> Buffer.add_char b '\n'; incr pos
               | Some 't' -> Buffer.add_char b '\t'; incr pos
               | Some 'r' -> Buffer.add_char b '\r'; incr pos
               | Some 'u' ->
                   (* \u{HEX} -> utf8 *)
                   incr pos;
                   if peek () <> Some '{' then raise (Parse_error "bad \\u");
                   incr pos;
                   let st = !pos in
                   while peek () <> Some '}' do incr pos done;
                   let hex = String.sub s st (!pos - st) in
                   incr pos;
                   let cp = int_of_string ("0x" ^ hex) in
                   Buffer.add_utf_8_uchar b (Uchar.of_int cp)
               | Some c -> Buffer.add_char b c; incr pos
               | None -> raise (Parse_error "bad escape"));
              loop ()
          | Some c -> Buffer.add_char b c; incr pos; loop () in
        loop ();
        S (Buffer.contents b)
    | Some _ ->
        let st = !pos in
        let rec loop () =
          match peek () with
          | Some (' ' | '\t' | '\n' | '\r' | '(' | ')' | '"') | None -> ()
          | _ -> incr pos; loop () in
        loop ();
        A (String.sub s st (!pos - st)) in
  let v = value () in
  skip ();
  if !pos <> n then raise (Parse_error "trailing");
  v

(* code points of a UTF-8 string (input is valid UTF-8 by construction) *)
let code_points (s : string) : int list =
  let n = String.length s in
  let byte i = Char.code s.[i] in
  let rec go i acc =
    if i >= n then List.rev acc
    else
      let b0 = byte i in
      if b0 < 0x80 then go (i + 1) (b0 :: acc)
      else if b0 < 0xE0 && i + 1 < n then
        go (i + 2) ((((b0 land 0x1F) lsl 6) lor (byte (i+1) land 0x3F)) :: acc)
      else if b0 < 0xF0 && i + 2 < n then
        go (i + 3) ((((b0 land 0x0F) lsl 12) lor ((byte (i+1) land 0x3F) lsl 6)
                     lor (byte (i+2) land 0x3F)) :: acc)
      else if i + 3 < n then
        go (i + 4) ((((b0 land 0x07) lsl 18) lor ((byte (i+1) land 0x3F) lsl 12)
                     lor ((byte (i+2) land 0x3F) lsl 6) lor (byte (i+3) land 0x3F)) :: acc)
      else go (i + 1) (0xFFFD :: acc) in
  go 0 []

let of_code_points (l : int list) : string =
  let b = Buffer.create 16 in
  List.iter (fun c ->
    if Uchar.is_valid c then Buffer.add_utf_8_uchar b (Uchar.of_int c)
    else Buffer.add_string b (Printf.sprintf "<U+%X>" c)) l;
  Buffer.contents b

(* printable quoting used for results: same escapes as the parser reads *)
let quote (s : string) : string =
  let b = Buffer.create (String.length s + 2) in
  Buffer.add_char b '"';
  List.iter (fun c ->
    if c = 34 then Buffer.add_string b "\\\""
    else if c = 92 then Buffer.add_string b "\\\\"
    else if c >= 32 && c < 127 then Buffer.add_char b (Char.chr c)
    else Buffer.add_string b (Printf.sprintf "\\u{%x}" c)) (code_points s);
  Buffer.add_char b '"';
  Buffer.contents b

(* program-level commands: surface AST (S-expression) -> Check -> Recreate -> Exec *)
open Model
open Sexp
open Conv

let name_of = function A s -> ident_of_string s | S s -> ident_of_string s | _ -> raise (Bad "name")

let binop_of = function
  | "+" -> Add | "-" -> Subtract | "*" -> Multiply | "/" -> Divide | "%" -> Modulo | "**" -> Pow
  | "==" -> Equal | "!=" -> NotEqual | ">" -> Greater | ">=" -> GreaterOrEqual | "<" -> Lower
  | "<=" -> LowerOrEqual | "&&" -> And | "||" -> Or | "&" -> BitwiseAnd | "|" -> BitwiseOr
  | "^" -> Xor | "<<" -> LShift | ">>" -> RShift | "?" -> Filter | "@" -> Map | "\\" -> Partition
  | "=" -> Assign | "+=" -> AssignAdd | "-=" -> AssignSubtract | "*=" -> AssignMultiply
  | "/=" -> AssignDivide | "%=" -> AssignModulo | "<<=" -> AssignLShift | ">>=" -> AssignRShift
  | "&=" -> AssignBitwiseAnd | "|=" -> AssignBitwiseOr | "^=" -> AssignXor | "**=" -> AssignPow
  | s -> raise (Bad ("binop " ^ s))

let postop_of = function
  | "$+" -> USum | "$*" -> UProduct | "$&&" -> UAll | "$||" -> UAny | "$&" -> UBitAnd
  | "$|" -> UBitOr | "$]" -> UCollect | "~" -> UIter | s -> raise (Bad ("postfix " ^ s))

let opt f = function A "none" -> None | x -> Some (f x)
let params_of = function
  | L ps -> List.map (function L [n; t] -> (name_of n, ty_of_sexp t) | _ -> raise (Bad "param")) ps
  | _ -> raise (Bad "params")
let op_atom = function A s -> s | S s -> s | _ -> raise (Bad "op")

let rec sx_of (s : Sexp.t) : sx =
  match s with
  | L [A "id"; n] -> XIdent (name_of n)
  | L [A "c"; v] -> XConst (val_of_sexp v)
  | L [A "mut"; t; e] -> XMut (opt ty_of_sexp t, sx_of e)
  | L (A "tuple" :: es) -> XTuple (List.map sx_of es)
  | L (A "array" :: es) -> XArray (List.map sx_of es)
  | L [A "repeat"; v; n] -> XArrayRepeat (sx_of v, sx_of n)
  | L [A "fn"; ps; ret; L body] -> XFunction (params_of ps, opt ty_of_sexp ret, List.map line_of body)
  | L (A "struct" :: fs) ->
      XStruct (List.map (function
        | L [k; A "none"] -> (name_of k, None)
        | L [k; e] -> (name_of k, Some (sx_of e))
        | _ -> raise (Bad "struct field")) fs)
  | L (A "mod" :: body) -> XMod (List.map line_of body)
  | L [A "pre"; A "not"; e] -> XPrefix (PNot, sx_of e)
  | L [A "pre"; A "neg"; e] -> XPrefix (PNeg, sx_of e)
  | L [A "pre"; A "deref"; e] -> XPrefix (PDeref, sx_of e)
  | L [A "bin"; o; l; r] -> XInfix (binop_of (op_atom o), sx_of l, sx_of r)
  | L [A "reduce"; it; init; f] -> XReduce (sx_of it, sx_of init, sx_of f)
  | L [A "at"; e; i] -> XAt (sx_of e, sx_of i)
  | L [A "slice"; e; a; b; c] -> XSlice (sx_of e, opt sx_of a, opt sx_of b, opt sx_of c)
  | L (A "call" :: f :: args) -> XCall (sx_of f, List.map sx_of args)
  | L [A "tacc"; e; A k] -> XTupleAccess (sx_of e, nat_of_int (int_of_string k))
  | L [A "facc"; e; n] -> XFieldAccess (sx_of e, name_of n)
  | L [A "tfilter"; e; t] -> XTypeFilter (sx_of e, ty_of_sexp t)
  | L [A "post"; e; o] -> XPostfix (postop_of (op_atom o), sx_of e)
  | _ -> raise (Bad "expr")

and stm_of (s : Sexp.t) : sstm =
  match s with
  | L [A "expr"; e] -> SExpr (sx_of e)
  | L (A "block" :: body) -> SBlock (List.map line_of body)
  | L [A "if"; c; t; f] -> SIfElse (sx_of c, stm_of t, opt stm_of f)
  | L [A "ifset"; n; t; e; b; f] -> SSetIfElse (name_of n, ty_of_sexp t, sx_of e, stm_of b, opt stm_of f)
  | L (A "match" :: e :: arms) -> SMatch (sx_of e, List.map arm_of arms)
  | L [A "return"; r] -> SRet (opt stm_of r)
  | L [A "loop"; b] -> SLoop (stm_of b)
  | L [A "while"; c; b] -> SWhile (sx_of c, stm_of b)
  | L [A "whileset"; n; t; e; b] -> SWhileSet (name_of n, ty_of_sexp t, sx_of e, stm_of b)
  | L [A "for"; n; e; b] -> SFor (name_of n, sx_of e, stm_of b)
  | A "break" -> SBrk
  | A "continue" -> SCont
  | _ -> raise (Bad "stm")

and arm_of (s : Sexp.t) : sarm =
  match s with
  | L [A "atype"; n; t; b] -> AType (name_of n, ty_of_sexp t, stm_of b)
  | L [A "aval"; L vs; b] -> AValue (List.map sx_of vs, stm_of b)
  | L [A "aother"; b] -> AOther (stm_of b)
  | _ -> raise (Bad "arm")

and line_of (s : Sexp.t) : sline =
  match s with
  | L [A "fndecl"; n; ps; ret; L body] -> LFnDecl (name_of n, params_of ps, opt ty_of_sexp ret, List.map line_of body)
  | L [A "set"; n; st] -> LSet (name_of n, stm_of st)
  | L [A "destruct"; L ids; st] -> LDestruct (List.map name_of ids, stm_of st)
  | L [A "stm"; st] -> LStm (stm_of st)
  | _ -> raise (Bad "line")

(* ---- environment: store with std.len + helper closures, built once ---- *)
let powf_stub (_ : z) (_ : z) : z = cANON_NAN
let big_fuel = nat_of_int (try int_of_string (Sys.getenv "VERIF_EXEC_FUEL") with _ -> 3000)
let chk_fuel = nat_of_int 4000

let dummy_pre = { p_map = O; p_filter = O; p_iter = O; p_int_sum = O; p_float_sum = O;
                  p_string_sum = O; p_int_product = O; p_float_product = O }
let dummy_red = { r_all = VVoid; r_any = VVoid; r_and = VVoid; r_or = VVoid; r_sums = []; r_products = [] }

type env = { st : store; pre : prelude; red : reducers; std : value }

let len_closure = { c_name = Some (ident_of_string "len");
                    c_params = [(ident_of_string "variable", concat (TArr TAny) TString)];
                    c_body = BNative O; c_ret = TInt }

let env : env option ref = ref None

let fid_of = function VFun (id, _, _) -> id | _ -> raise (Bad "helper is not a function")

(* run a whole program: parse_top then run_code; returns store and signal *)
let run_lines (e : env) (parse_scopes : scopes) (lines : sline list) =
  match parse_top powf_stub e.red chk_fuel parse_scopes [ { l_vars = []; l_fn = None; l_loop = false } ] lines with
  | Ok (is, _) ->
      let ((st, _), sg) = run_code powf_stub e.pre big_fuel e.st [[]] is VVoid in
      `Ran (is, st, sg)
  | Err z -> `ParseErr z
  | Panic -> `ParsePanic
  | OutOfFuel -> `ParseFuel

let boot (helpers : (string * sline list) list) : env =
  let st0 = { s_funs = [len_closure]; s_cells = []; s_log = [] } in
  let len_v = VFun (O, [concat (TArr TAny) TString], TInt) in
  let std = VStruct [(ident_of_string "len", len_v)] in
  let e = ref { st = st0; pre = dummy_pre; red = dummy_red; std = std } in
  let get name =
    let lines = List.assoc name helpers in
    let scopes = [[(ident_of_string "std", std)]] in
    match run_lines !e scopes lines with
    | `Ran (_, st, SVal v) -> e := { !e with st = st }; v
    | _ -> raise (Bad ("helper " ^ name ^ " failed to boot")) in
  let m = get "MAP" in let f = get "FILTER" in let it = get "ITER" in
  e := { !e with pre = { !e.pre with p_map = fid_of m; p_filter = fid_of f; p_iter = fid_of it } };
  let a = get "AND" in let o = get "OR" in let al = get "ALL" in let an = get "ANY" in
  e := { !e with red = { !e.red with r_all = al; r_any = an; r_and = a; r_or = o } };
  let ip = get "INT_PRODUCT" in let fp = get "FLOAT_PRODUCT" in
  let is_ = get "INT_SUM" in let fs = get "FLOAT_SUM" in let ss = get "STRING_SUM" in
  e := { !e with pre = { !e.pre with p_int_sum = fid_of is_; p_float_sum = fid_of fs;
                                     p_string_sum = fid_of ss; p_int_product = fid_of ip;
                                     p_float_product = fid_of fp } };
  (* `$+` / `$*` plant one of these (reduce.rs::plant), in the order sum.rs / product.rs list them *)
  let it_of t = TFun ([], TTup [TBool; t]) in
  e := { !e with red = { !e.red with r_sums = [(it_of TInt, is_); (it_of TFloat, fs); (it_of TString, ss)];
                                     r_products = [(it_of TInt, ip); (it_of TFloat, fp)] } };
  !e

(* canonical printing with the store: cells show their content, ids renumbered by first appearance *)
let show_value (types : bool) (st : store) (v : value) : string =
  let funs = ref [] and muts = ref [] in
  let idx l x = (let rec go i = function [] -> (l := !l @ [x]; i) | y :: r -> if y = x then i else go (i + 1) r in go 0 !l) in
  let rec go depth v =
    if depth > 64 then "(deep)" else
    match v with
    | VFun (id, ps, r) ->
        let k = idx funs (int_of_nat id) in
        if types then "(fun " ^ string_of_int k ^ " " ^ ty_to_string (TFun (ps, r)) ^ ")"
        else "(fun " ^ string_of_int k ^ ")"
    | VMut (loc, t) ->
        let k = idx muts (int_of_nat loc) in
        let content = (match List.nth_opt st.s_cells (int_of_nat loc) with
                       | Some c -> go (depth + 1) c | None -> "(dangling)") in
        if types then "(mut " ^ string_of_int k ^ " " ^ ty_to_string t ^ " " ^ content ^ ")"
        else "(mut " ^ string_of_int k ^ " " ^ content ^ ")"
    | VArr (et, vs) ->
        let e = String.concat "" (List.map (fun x -> " " ^ go (depth + 1) x) vs) in
        if types then "(arrt " ^ ty_to_string et ^ e ^ ")" else "(arr" ^ e ^ ")"
    | VTup vs -> "(tup" ^ String.concat "" (List.map (fun x -> " " ^ go (depth + 1) x) vs) ^ ")"
    | VStruct fs ->
        let l = List.sort compare (List.map (fun (k, x) -> (string_of_ident k, x)) fs) in
        "(struct" ^ String.concat "" (List.map (fun (k, x) -> " (" ^ k ^ " " ^ go (depth + 1) x ^ ")") l) ^ ")"
    | _ -> val_to_string types v in
  go 0 v

let helpers_file () = try Sys.getenv "VERIF_HELPERS" with Not_found -> "helpers.sx"

let get_env () : env =
  match !env with
  | Some e -> e
  | None ->
      let ic = open_in (helpers_file ()) in
      let hs = ref [] in
      (try while true do
         let line = input_line ic in
         if String.length line > 0 then
           match Sexp.parse line with
           | L [A "helper"; A name; L lines] -> hs := (name, List.map line_of lines) :: !hs
           | _ -> raise (Bad "helpers file")
       done with End_of_file -> close_in ic);
      let e = boot !hs in
      env := Some e; e

let run_prog (types : bool) (with_ty : bool) (lines : Sexp.t list) : string =
  let e = get_env () in
  let scopes = [[(ident_of_string "std", e.std)]] in
  match run_lines e scopes (List.map line_of lines) with
  | `ParseErr z -> if int_of_z z = 100 then "reject" else "reject " ^ err_name z
  | `ParsePanic -> "!panic parse"
  | `ParseFuel -> "!fuel parse"
  | `Ran (is, st, sg) ->
      let r = (match sg with
        | SVal v -> "ok " ^ show_value types st v
        | SError z -> "err " ^ err_name z
        | SPanic -> "!panic exec"
        | SFuel -> "!fuel exec"
        | _ -> "!signal") in
      if with_ty then
        r ^ " :: " ^ (match code_rt is with Ok t -> ty_to_string t | _ -> "!rt-panic")
      else r

let () = Plug.register (fun s ->
  match s with
  | L (A "prog" :: lines) -> Some (run_prog false false lines)
  | L (A "prog-t" :: lines) -> Some (run_prog true false lines)
  | L (A "prog-ty" :: lines) -> Some (run_prog true true lines)
  | _ -> None)

(* pluggable command handlers: each lane module registers `Sexp.t -> string option` *)
let handlers : (Sexp.t -> string option) list ref = ref []
let register h = handlers := h :: !handlers

(* driver: reads one S-expression case per line on stdin, prints one canonical
   result per line on stdout.  Links the extracted model (model.ml). *)
open Model
open Sexp
open Conv

let ty_query (name : string) (t : ty) (arg : Sexp.t option) : string =
  let o = opt_to_string ty_to_string in
  match name, arg with
  | "index_result", _ -> o (index_result t)
  | "element_type", _ -> o (element_type t)
  | "return_type", _ -> o (fn_return_type t)
  | "mut_element_type", _ -> o (mut_element_type_spec t)
  | "params", _ -> opt_to_string tys_to_string (params t)
  | "flatten_tuple", _ -> opt_to_string tys_to_string (flatten_tuple t)
  | "is_function", _ -> bool_to_string (is_function t)
  | "is_tuple", _ -> bool_to_string (is_tuple t)
  | "is_mut", _ -> bool_to_string (is_mut t)
  | "is_iterator", _ -> bool_to_string (is_iterator t)
  | "is_struct", _ -> bool_to_string (is_struct t)
  | "can_be_indexed", _ -> bool_to_string (can_be_indexed t)
  | "tuple_len", _ -> opt_to_string (fun n -> string_of_int (int_of_nat n)) (tuple_len t)
  | "min_tuple_len", _ -> opt_to_string (fun n -> string_of_int (int_of_nat n)) (min_tuple_len t)
  | "iter_element", _ -> o (iter_element t)
  | "tuple_element_at", Some (A i) -> o (tuple_element_at (nat_of_int (int_of_string i)) t)
  | "field_type", Some (A k) -> o (field_type (ident_of_string k) t)
  | "has_field", Some (A k) -> bool_to_string (has_field (ident_of_string k) t)
  | _ -> raise (Bad ("query " ^ name))

let ty_laws (a : ty) (b : ty) (c : ty) : string =
  let le = matches and eq = ty_eqb in
  let x = ident_of_string "x" and y = ident_of_string "y" in
  let laws = [
    le a a; le TNever a; le a TAny;
    (not (le a b && le b c)) || le a c;
    le a (concat a b); le b (concat a b);
    le (concat a b) c = (le a c && le b c);
    le (conjoin a b) a; le (conjoin a b) b;
    le (TArr a) (TArr b) = le a b;
    le (TTup [a; c]) (TTup [b; c]) = le a b;
    le (TStruct [(x, a)]) (TStruct [(x, b)]) = le a b;
    le (TStruct [(x, a); (y, c)]) (TStruct [(x, a)]);
    le (TFun ([a], c)) (TFun ([b], c)) = le b a;
    le (TFun ([], a)) (TFun ([], b)) = le a b;
    le (TMut a) (TMut b) = eq a b;
    eq a b = eq b a;
    (not (eq a b)) || (le a b && le b a);
    eq (concat a b) (concat b a);
    eq (concat a a) a ] in
  String.concat " " (List.map (fun b -> if b then "1" else "0") laws)

let handle (s : Sexp.t) : string =
  match s with
  | L [A "ty-laws"; a; b; c] -> ty_laws (ty_of_sexp a) (ty_of_sexp b) (ty_of_sexp c)
  | L [A "ty-id"; a] -> ty_to_string (ty_of_sexp a)
  | L [A "ty-wf"; a] -> bool_to_string (wf_ty (ty_of_sexp a))
  | L [A "ty-eq"; a; b] -> bool_to_string (ty_eqb (ty_of_sexp a) (ty_of_sexp b))
  | L [A "ty-matches"; a; b] -> bool_to_string (matches (ty_of_sexp a) (ty_of_sexp b))
  | L [A "ty-concat"; a; b] -> ty_to_string (concat (ty_of_sexp a) (ty_of_sexp b))
  | L [A "ty-conjoin"; a; b] -> ty_to_string (conjoin (ty_of_sexp a) (ty_of_sexp b))
  | L [A "ty-q"; A name; a] -> ty_query name (ty_of_sexp a) None
  | L [A "ty-q"; A name; a; arg] -> ty_query name (ty_of_sexp a) (Some arg)
  | _ -> Lanes.handle s

let () =
  try
    while true do
      let line = input_line stdin in
      if String.length line > 0 then begin
        let out =
          try handle (Sexp.parse line)
          with
          | Bad m -> "!bad " ^ m
          | Sexp.Parse_error m -> "!parse " ^ m
          | Stack_overflow -> "!stack"
          | Failure m -> "!fail " ^ m in
        print_string out; print_newline ()
      end
    done
  with End_of_file -> ()

(* lane L6: (peg RULENAME "text") -> the token forest the PEG model (Model/Peg.v run on
   Gen/GenGrammar.v) produces:   ok (rule start end child...) ...  |  fail  |  !fuel
   Positions are counted in Unicode scalar values.  The consumed length is not printed:
   pest's API does not expose it, so the harness could not print it either. *)
open Model
open Sexp

let rec int_of_pos = function
  | XH -> 1
  | XO p -> 2 * int_of_pos p
  | XI p -> 2 * int_of_pos p + 1

let int_of_n = function N0 -> 0 | Npos p -> int_of_pos p

let int_of_nat (n : nat) : int =
  let rec go acc = function O -> acc | S m -> go (acc + 1) m in
  go 0 n

let names : (int, string) Hashtbl.t = Hashtbl.create 256
let numbers : (string, n) Hashtbl.t = Hashtbl.create 256

let () =
  List.iter (fun (k, cps) ->
      let s = Conv.string_of_ident cps in
      Hashtbl.replace names (int_of_n k) s;
      Hashtbl.replace numbers s k)
    rule_names

let rule_name (r : n) : string =
  match Hashtbl.find_opt names (int_of_n r) with
  | Some s -> s
  | None -> Printf.sprintf "?rule%d" (int_of_n r)

let rec print_tree (b : Buffer.t) (t : tree) : unit =
  let Node (r, s, e, kids) = t in
  Buffer.add_char b '(';
  Buffer.add_string b (rule_name r);
  Buffer.add_char b ' ';
  Buffer.add_string b (string_of_int (int_of_nat s));
  Buffer.add_char b ' ';
  Buffer.add_string b (string_of_int (int_of_nat e));
  List.iter (fun k -> Buffer.add_char b ' '; print_tree b k) kids;
  Buffer.add_char b ')'

let run (rule : string) (text : string) : string =
  match Hashtbl.find_opt numbers rule with
  | None -> raise (Conv.Bad ("peg: unknown rule " ^ rule))
  | Some r ->
      let input = List.map Conv.z_of_int (Sexp.code_points text) in
      (match parse_rule grammar r input with
       | Ok (_, forest) ->
           let b = Buffer.create 256 in
           Buffer.add_string b "ok";
           List.iter (fun t -> Buffer.add_char b ' '; print_tree b t) forest;
           Buffer.contents b
       | Err _ -> "fail"
       | Panic -> "!panic"
       | OutOfFuel -> "!fuel")

let () =
  Plug.register (fun s ->
      match s with
      | L [A "peg"; A rule; S text] -> Some (run rule text)
      (* consumed length according to the model only (not observable through pest) *)
      | L [A "peg-len"; A rule; S text] ->
          (match Hashtbl.find_opt numbers rule with
           | None -> raise (Conv.Bad ("peg: unknown rule " ^ rule))
           | Some r ->
               let input = List.map Conv.z_of_int (Sexp.code_points text) in
               Some (match parse_rule grammar r input with
                     | Ok (n, _) -> "ok " ^ string_of_int (int_of_nat n)
                     | Err _ -> "fail" | Panic -> "!panic" | OutOfFuel -> "!fuel"))
      | _ -> None)

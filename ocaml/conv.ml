(* Conversions between OCaml data / S-expressions and the extracted model's data. *)
open Model
open Sexp

(* ---- numbers ---- *)
let rec pos_of_int (n : int) : positive =
  if n = 1 then XH
  else if n land 1 = 0 then XO (pos_of_int (n lsr 1))
  else XI (pos_of_int (n lsr 1))

let z_of_int (n : int) : z =
  if n = 0 then Z0 else if n > 0 then Zpos (pos_of_int n)
  else Zneg (pos_of_int (-n))

let rec nat_of_int (n : int) : nat = if n <= 0 then O else S (nat_of_int (n - 1))
let rec int_of_nat (n : nat) : int = match n with O -> 0 | S m -> 1 + int_of_nat m

(* decimal string (optional leading '-') -> z, any magnitude *)
let z_of_string (s : string) : z =
  let neg = String.length s > 0 && s.[0] = '-' in
  let start = if neg then 1 else 0 in
  let ten = z_of_int 10 in
  let acc = ref Z0 in
  for i = start to String.length s - 1 do
    let d = Char.code s.[i] - 48 in
    if d < 0 || d > 9 then failwith ("bad int " ^ s);
    acc := Z.add (Z.mul !acc ten) (z_of_int d)
  done;
  if neg then Z.opp !acc else !acc

let rec pos_to_string_acc (p : positive) : int list =
  (* little-endian list of bits *)
  match p with XH -> [1] | XO q -> 0 :: pos_to_string_acc q | XI q -> 1 :: pos_to_string_acc q

(* z -> decimal string via repeated doubling on a decimal digit array *)
let string_of_pos (p : positive) : string =
  let bits = List.rev (pos_to_string_acc p) in (* big-endian *)
  let digits = ref [0] in (* little-endian decimal *)
  let double_add b =
    let carry = ref b in
    digits := List.map (fun d -> let v = d * 2 + !carry in carry := v / 10; v mod 10) !digits;
    if !carry > 0 then digits := !digits @ [!carry] in
  List.iter double_add bits;
  String.concat "" (List.rev_map string_of_int !digits)

let string_of_z (x : z) : string =
  match x with Z0 -> "0" | Zpos p -> string_of_pos p | Zneg p -> "-" ^ string_of_pos p

let int_of_z (x : z) : int = int_of_string (string_of_z x)

(* ---- identifiers / strings ---- *)
let ident_of_string (s : string) : ident = List.map z_of_int (code_points s)
let string_of_ident (i : ident) : string = of_code_points (List.map int_of_z i)

(* ---- types ---- *)
exception Bad of string

let rec ty_of_sexp (s : Sexp.t) : ty =
  match s with
  | A "bool" -> TBool | A "int" -> TInt | A "float" -> TFloat | A "string" -> TString
  | A "void" -> TVoid | A "any" -> TAny | A "never" -> TNever
  | L [A "fun"; L ps; r] -> TFun (List.map ty_of_sexp ps, ty_of_sexp r)
  | L [A "arr"; e] -> TArr (ty_of_sexp e)
  | L (A "tup" :: ts) -> TTup (List.map ty_of_sexp ts)
  | L (A "multi" :: ms) ->
      (* unions are only ever built through `|` *)
      (match concat_all (List.map ty_of_sexp ms) with
       | Some t -> t | None -> raise (Bad "empty multi"))
  | L (A "rawmulti" :: ms) -> TMulti (List.map ty_of_sexp ms)
  | L [A "mut"; e] -> TMut (ty_of_sexp e)
  | L (A "struct" :: fs) ->
      (* HashMap: a later duplicate key overwrites the earlier one *)
      let add acc (k, v) = List.filter (fun (k', _) -> not (ident_eqb k k')) acc @ [(k, v)] in
      TStruct (List.fold_left add []
        (List.map (function
           | L [A k; t] -> (ident_of_string k, ty_of_sexp t)
           | _ -> raise (Bad "struct field")) fs))
  | _ -> raise (Bad "type")

(* canonical text: union members sorted by their text, struct fields by name *)
let rec ty_to_string (t : ty) : string =
  match t with
  | TBool -> "bool" | TInt -> "int" | TFloat -> "float" | TString -> "string"
  | TVoid -> "void" | TAny -> "any" | TNever -> "never"
  | TFun (ps, r) ->
      "(fun (" ^ String.concat " " (List.map ty_to_string ps) ^ ") " ^ ty_to_string r ^ ")"
  | TArr e -> "(arr " ^ ty_to_string e ^ ")"
  | TTup ts -> "(tup" ^ String.concat "" (List.map (fun t -> " " ^ ty_to_string t) ts) ^ ")"
  | TMulti ms ->
      let l = List.sort_uniq compare (List.map ty_to_string ms) in
      "(multi" ^ String.concat "" (List.map (fun t -> " " ^ t) l) ^ ")"
  | TMut e -> "(mut " ^ ty_to_string e ^ ")"
  | TStruct fs ->
      let l = List.sort compare
          (List.map (fun (k, v) -> "(" ^ string_of_ident k ^ " " ^ ty_to_string v ^ ")") fs) in
      "(struct" ^ String.concat "" (List.map (fun t -> " " ^ t) l) ^ ")"

let opt_to_string f = function None -> "none" | Some x -> f x
let bool_to_string b = if b then "true" else "false"
let tys_to_string l = "(" ^ String.concat " " (List.map ty_to_string l) ^ ")"

(* all permutations of a list (used for order-sensitivity reports) *)
let rec permutations (l : 'a list) : 'a list list =
  match l with
  | [] -> [[]]
  | _ ->
      List.concat (List.mapi (fun i x ->
        let rest = List.filteri (fun j _ -> j <> i) l in
        List.map (fun p -> x :: p) (permutations rest)) l)

(* ---- values ---- *)
let rec val_of_sexp (s : Sexp.t) : value =
  match s with
  | A "void" -> VVoid
  | L [A "i"; A n] -> VInt (z_of_string n)
  | L [A "f"; A "nan"] -> VFloat cANON_NAN
  | L [A "f"; A n] -> VFloat (z_of_string n)
  | L [A "b"; A b] -> VBool (b = "true")
  | L [A "fun"; A id; L [A "fun"; L ps; r]] ->
      VFun (nat_of_int (int_of_string id), List.map ty_of_sexp ps, ty_of_sexp r)
  | L [A "mut"; A id; t; _] -> VMut (nat_of_int (int_of_string id), ty_of_sexp t)
  | L [A "mut"; A id; t] -> VMut (nat_of_int (int_of_string id), ty_of_sexp t)
  | L [A "s"; S str] -> VString (ident_of_string str)
  | L (A "arr" :: vs) -> arr_of (List.map val_of_sexp vs)
  | L (A "arrt" :: t :: vs) -> VArr (ty_of_sexp t, List.map val_of_sexp vs)
  | L (A "tup" :: vs) -> VTup (List.map val_of_sexp vs)
  | L (A "struct" :: fs) ->
      let add acc (k, v) = List.filter (fun (k', _) -> not (ident_eqb k k')) acc @ [(k, v)] in
      VStruct (List.fold_left add []
        (List.map (function
           | L [A k; v] -> (ident_of_string k, val_of_sexp v)
           | _ -> raise (Bad "struct field")) fs))
  | _ -> raise (Bad "value")

let rec val_to_string (types : bool) (v : value) : string =
  let sub = val_to_string types in
  match v with
  | VBool b -> "(b " ^ bool_to_string b ^ ")"
  | VInt z -> "(i " ^ string_of_z z ^ ")"
  | VFloat f -> if f_is_nan f then "(f nan)" else "(f " ^ string_of_z f ^ ")"
  | VString s -> "(s " ^ Sexp.quote (string_of_ident s) ^ ")"
  | VFun (id, ps, r) ->
      if types then "(fun " ^ string_of_int (int_of_nat id) ^ " " ^ ty_to_string (TFun (ps, r)) ^ ")"
      else "(fun " ^ string_of_int (int_of_nat id) ^ ")"
  | VArr (et, vs) ->
      let e = String.concat "" (List.map (fun x -> " " ^ sub x) vs) in
      if types then "(arrt " ^ ty_to_string et ^ e ^ ")" else "(arr" ^ e ^ ")"
  | VTup vs -> "(tup" ^ String.concat "" (List.map (fun x -> " " ^ sub x) vs) ^ ")"
  | VMut (loc, t) ->
      if types then "(mut " ^ string_of_int (int_of_nat loc) ^ " " ^ ty_to_string t ^ ")"
      else "(mut " ^ string_of_int (int_of_nat loc) ^ ")"
  | VStruct fs ->
      let l = List.sort compare (List.map (fun (k, x) -> (string_of_ident k, sub x)) fs) in
      "(struct" ^ String.concat "" (List.map (fun (k, x) -> " (" ^ k ^ " " ^ x ^ ")") l) ^ ")"
  | VVoid -> "void"

let err_name (e : z) : string =
  match int_of_z e with
  | 0 -> "IndexOutOfBounds" | 1 -> "NegativeLength" | 2 -> "NegativeExponent"
  | 3 -> "ZeroDivision" | 4 -> "ZeroModulo" | 5 -> "OverflowShift" | n -> "E" ^ string_of_int n

let outcome_to_string (types : bool) (o : value outcome) : string =
  match o with
  | Ok v -> "ok " ^ val_to_string types v
  | Err e -> "err " ^ err_name e
  | Panic -> "!panic"
  | OutOfFuel -> "!fuel"

let binop_of_string = function
  | "add" -> Add | "sub" -> Subtract | "mul" -> Multiply | "div" -> Divide | "mod" -> Modulo
  | "pow" -> Pow | "eq" -> Equal | "ne" -> NotEqual | "gt" -> Greater | "ge" -> GreaterOrEqual
  | "lt" -> Lower | "le" -> LowerOrEqual | "band" -> BitwiseAnd | "bor" -> BitwiseOr
  | "xor" -> Xor | "shl" -> LShift | "shr" -> RShift | "and" -> And | "or" -> Or
  | s -> raise (Bad ("binop " ^ s))
let unop_of_string = function
  | "not" -> UNot | "neg" -> UUnaryMinus | s -> raise (Bad ("unop " ^ s))

(* lane L5-print, model side: Model/Print.v + Model/TypeParse.v + Model/ValueParse.v.
   Same commands and line formats as harness/src/lane_print.rs:

   (ty-print T)        -> "text"   print_ty of T; union members / struct fields in the order
                                   they are written in T (the list order of the model)
   (ty-print-parse T)  -> ok <canonical T'> | reject        tp_parse_type (print_ty T)
   (ty-parse "text")   -> ok <canonical T>  | reject        tp_parse_type text
   (val-debug V) (val-display V) -> "text"
   (val-roundtrip V)   -> "debug text" => ok <typed canonical value> | reject <Variant>
   (val-read "text")   -> ok <typed canonical value> | reject <Variant>    vp_parse_value
   (float-debug BITS) (float-display BITS) -> "text"   the driver's implementation of the
                                   two float parameters of the model (compared with Rust's)
   (float-read "text") -> ok BITS | reject
   (val-id V)          -> typed canonical text of V itself
   model only:
   (ty-reprint "text") -> "text'"  print_ty of the type the text parses to (parsed order)
   (unescape "text")   -> ok "text" | reject            pr_unescape

   The parameters of Print.v are supplied here:
   - P (needs a \u{..} escape in a str Debug): a table of code-point ranges read from the
     file named by VERIF_ESC_TABLE (written by the lane from the toolchain's own answer);
     without it: C0 controls, DEL, C1 controls, U+AD and the combining diacriticals;
   - dbg_float / disp_float: shortest round-trip digits (fewest digits that read back, closest
     to the value, ties up) found from the exact decimal expansion, laid out as core::fmt::float does;
   - parse_float: OCaml's float_of_string (correctly rounded strtod) on the decimal text. *)
open Model
open Sexp
open Conv

(* ------------------------------------------------------------------ P *)
let esc_ranges : (int * int) array Lazy.t = lazy (
  match Sys.getenv_opt "VERIF_ESC_TABLE" with
  | Some path when Sys.file_exists path ->
      let ic = open_in path in
      let n = in_channel_length ic in
      let s = really_input_string ic n in
      close_in ic;
      let toks = String.split_on_char ' ' (String.trim (String.concat " " (String.split_on_char '\n' s))) in
      Array.of_list (List.filter_map (fun t ->
        match String.split_on_char '-' t with
        | [a; b] -> Some (int_of_string a, int_of_string b)
        | _ -> None) toks)
  | _ -> [| (0, 31); (127, 159); (173, 173); (0x300, 0x36f) |])

let needs_escape (c : int) : bool =
  let a = Lazy.force esc_ranges in
  let lo = ref 0 and hi = ref (Array.length a - 1) and found = ref false in
  while not !found && !lo <= !hi do
    let mid = (!lo + !hi) / 2 in
    let (x, y) = a.(mid) in
    if c < x then hi := mid - 1 else if c > y then lo := mid + 1 else found := true
  done;
  !found

let p_model (c : z) : bool = needs_escape (int_of_z c)

(* ------------------------------------------------------------------ floats *)
let float_of_bits_z (b : z) : float =
  Int64.float_of_bits (Int64.of_string ("0u" ^ string_of_z b))

let bits_z_of_float (f : float) : z =
  if Float.is_nan f then cANON_NAN
  else z_of_string (Printf.sprintf "%Lu" (Int64.bits_of_float f))

(* shortest digits d1..dn and exponent e with |x| = d1.d2..dn * 10^e, as core::num::flt2dec
   strategy (Grisu with Dragon fallback) defines them: the fewest digits that read back as
   x; among those the closest to x; an exact tie goes up.  Found from the exact decimal
   expansion of x (printf %.1100e is exact in glibc): for p = 1, 2, .. the expansion cut to
   p digits and that plus one unit in the last place are the only p-digit candidates. *)
let shortest (x : float) : string * int =
  let x = Float.abs x in
  let s = Printf.sprintf "%.1100e" x in
  let epos = String.index s 'e' in
  let e = int_of_string (String.sub s (epos + 1) (String.length s - epos - 1)) in
  let digits = String.concat "" (String.split_on_char '.' (String.sub s 0 epos)) in
  let n = String.length digits in
  let reads_back (d : string) (e : int) : bool =
    let t = String.sub d 0 1 ^ (if String.length d > 1 then "." ^ String.sub d 1 (String.length d - 1) else "")
            ^ "e" ^ string_of_int e in
    float_of_string t = x in
  (* d + 1 unit in the last place; a carry out of the first digit gives 10..0 *)
  let bump (d : string) (e : int) : string * int =
    let b = Bytes.of_string d in
    let i = ref (Bytes.length b - 1) in
    let carry = ref true in
    while !carry && !i >= 0 do
      if Bytes.get b !i = '9' then (Bytes.set b !i '0'; decr i)
      else (Bytes.set b !i (Char.chr (Char.code (Bytes.get b !i) + 1)); carry := false)
    done;
    if !carry then ("1" ^ Bytes.to_string b |> fun t -> String.sub t 0 (String.length d), e + 1)
    else (Bytes.to_string b, e) in
  let rec find p =
    let lo = String.sub digits 0 p in
    let rem = String.sub digits p (n - p) in
    let rem_zero = String.for_all (fun c -> c = '0') rem in
    let (hi, ehi) = bump lo e in
    let ok_lo = reads_back lo e in
    let ok_hi = (not rem_zero) && reads_back hi ehi in
    if p >= 17 && not ok_lo && not ok_hi then (lo, e)
    else if ok_lo && ok_hi then
      (* closest; tie goes up: compare the remainder with 5000.. *)
      let half = "5" ^ String.make (String.length rem - 1) '0' in
      if compare rem half >= 0 then (hi, ehi) else (lo, e)
    else if ok_lo then (lo, e)
    else if ok_hi then (hi, ehi)
    else find (p + 1) in
  let (d, e) = find 1 in
  let k = ref (String.length d) in
  while !k > 1 && d.[!k - 1] = '0' do decr k done;
  (String.sub d 0 !k, e)

let decimal_layout (digits : string) (e : int) (min_frac : int) : string =
  let n = String.length digits in
  if e < 0 then "0." ^ String.make (- e - 1) '0' ^ digits
  else if n <= e + 1 then
    digits ^ String.make (e + 1 - n) '0' ^ (if min_frac > 0 then "." ^ String.make min_frac '0' else "")
  else String.sub digits 0 (e + 1) ^ "." ^ String.sub digits (e + 1) (n - e - 1)

let float_text (debug : bool) (x : float) : string =
  if Float.is_nan x then "NaN"
  else if x = Float.infinity then "inf"
  else if x = Float.neg_infinity then "-inf"
  else
    let sign = if Int64.compare (Int64.bits_of_float x) 0L < 0 then "-" else "" in
    if x = 0.0 then sign ^ (if debug then "0.0" else "0")
    else
      let (digits, e) = shortest x in
      let a = Float.abs x in
      if debug && (a < 1e-4 || a >= 1e16) then
        let n = String.length digits in
        sign ^ String.sub digits 0 1 ^ (if n > 1 then "." ^ String.sub digits 1 (n - 1) else "")
        ^ "e" ^ string_of_int e
      else sign ^ decimal_layout digits e (if debug then 1 else 0)

let dbg_float (b : z) : z list = ident_of_string (float_text true (float_of_bits_z b))
let disp_float (b : z) : z list = ident_of_string (float_text false (float_of_bits_z b))

(* `str::parse::<f64>` restricted to what can reach it through the grammar rules `float` /
   `minus_float` after the removal of ' ' and '_' : -?d+(.d+)?([eE][+-]?d+)? *)
let parse_float (s : z list) : z option =
  let t = string_of_ident s in
  let n = String.length t in
  let i = ref 0 in
  let digits () = let st = !i in while !i < n && t.[!i] >= '0' && t.[!i] <= '9' do incr i done; !i > st in
  if !i < n && t.[!i] = '-' then incr i;
  let ok =
    digits ()
    && (if !i < n && t.[!i] = '.' then (incr i; digits ()) else true)
    && (if !i < n && (t.[!i] = 'e' || t.[!i] = 'E') then begin
          incr i;
          if !i < n && (t.[!i] = '+' || t.[!i] = '-') then incr i;
          digits ()
        end else true)
    && !i = n in
  if ok then Some (bits_z_of_float (float_of_string t)) else None

(* ------------------------------------------------------------------ values with cells / names *)
let cells : (int, value) Hashtbl.t = Hashtbl.create 16
let names : (int, z list list) Hashtbl.t = Hashtbl.create 16

let rec pval_of_sexp (s : Sexp.t) : value =
  match s with
  | L [A "mutv"; t; v] ->
      let c = pval_of_sexp v in
      let loc = Hashtbl.length cells in
      Hashtbl.replace cells loc c;
      VMut (nat_of_int loc, ty_of_sexp t)
  | L [A "funv"; L ps; r] ->
      let id = Hashtbl.length names in
      let ps = List.map (function
        | L [A k; t] -> (ident_of_string k, ty_of_sexp t)
        | _ -> raise (Bad "funv param")) ps in
      Hashtbl.replace names id (List.map fst ps);
      VFun (nat_of_int id, List.map snd ps, ty_of_sexp r)
  | L (A "arr" :: vs) -> arr_of (List.map pval_of_sexp vs)
  | L (A "tup" :: vs) -> VTup (List.map pval_of_sexp vs)
  | L (A "struct" :: fs) ->
      let add acc (k, v) = List.filter (fun (k', _) -> not (ident_eqb k k')) acc @ [(k, v)] in
      VStruct (List.fold_left add []
        (List.map (function
           | L [A k; v] -> (ident_of_string k, pval_of_sexp v)
           | _ -> raise (Bad "struct field")) fs))
  | _ -> val_of_sexp s

let with_value (s : Sexp.t) (f : value -> 'a) : 'a =
  Hashtbl.reset cells; Hashtbl.reset names;
  f (pval_of_sexp s)

let fnames (id : nat) : z list list =
  match Hashtbl.find_opt names (int_of_nat id) with Some l -> l | None -> []
let cell (loc : nat) : value option = Hashtbl.find_opt cells (int_of_nat loc)

let debug_text v = debug_val p_model dbg_float disp_float fnames cell v
let display_text v = display_val p_model dbg_float disp_float fnames cell v

let err_variant (e : z) : string =
  match int_of_z e with
  | -1 -> "Parsing"
  | -2 -> "IntegerOverflow"
  | -3 -> "CannotBeParsed"
  | -4 -> "CannotUnescapeString"
  | n -> "E" ^ string_of_int n

let show_read (o : value outcome) : string =
  match o with
  | Ok v -> "ok " ^ val_to_string true v
  | Err e -> "reject " ^ err_variant e
  | Panic -> "!panic"
  | OutOfFuel -> "!fuel"

let show_ty (o : ty outcome) : string =
  match o with
  | Ok t -> "ok " ^ ty_to_string t
  | Err _ -> "reject"
  | Panic -> "!panic"
  | OutOfFuel -> "!fuel"

let text s = Sexp.quote (string_of_ident s)

let () =
  Plug.register (fun s ->
      match s with
      | L [A "ty-print"; t] -> Some (text (print_ty (ty_of_sexp t)))
      | L [A "ty-print-parse"; t] -> Some (show_ty (tp_parse_type (print_ty (ty_of_sexp t))))
      | L [A "ty-parse"; S str] -> Some (show_ty (tp_parse_type (ident_of_string str)))
      | L [A "ty-reprint"; S str] ->
          (* model only: print_ty of what the text parses to, members/fields in parsed order *)
          Some (match tp_parse_type (ident_of_string str) with
                | Ok t -> text (print_ty t)
                | Err _ -> "reject" | Panic -> "!panic" | OutOfFuel -> "!fuel")
      | L [A "val-id"; v] -> Some (with_value v (fun v -> val_to_string true v))
      | L [A "val-debug"; v] -> Some (with_value v (fun v -> text (debug_text v)))
      | L [A "val-display"; v] -> Some (with_value v (fun v -> text (display_text v)))
      | L [A "val-roundtrip"; v] ->
          Some (with_value v (fun v ->
            let t = debug_text v in
            text t ^ " => " ^ show_read (vp_parse_value parse_float t)))
      | L [A "val-read"; S str] -> Some (show_read (vp_parse_value parse_float (ident_of_string str)))
      | L [A "float-debug"; A bits] -> Some (text (dbg_float (z_of_string bits)))
      | L [A "float-display"; A bits] -> Some (text (disp_float (z_of_string bits)))
      | L [A "float-read"; S str] ->
          Some (match parse_float (ident_of_string str) with
                | Some b -> if f_is_nan b then "ok nan" else "ok " ^ string_of_z b
                | None -> "reject")
      | L [A "unescape"; S str] ->
          Some (match pr_unescape (ident_of_string str) with
                | Some r -> "ok " ^ text r
                | None -> "reject")
      | _ -> None)

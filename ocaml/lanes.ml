(* commands of the later lanes; extended as the model grows *)
open Conv
let handle (_ : Sexp.t) : string = raise (Bad "unknown command")

(* commands of the later lanes; extended as the model grows *)
open Model
open Sexp
open Conv

(* powf is external (libm): the model leaves it abstract; lanes never compare its value *)
let powf_stub (_ : z) (_ : z) : z = cANON_NAN

let handle (s : Sexp.t) : string =
  match s with
  | L [A "op"; A name; a; b] ->
      outcome_to_string false (op_exec powf_stub (binop_of_string name) (val_of_sexp a) (val_of_sexp b))
  | L [A "unop"; A name; a] ->
      outcome_to_string false (unop_exec (unop_of_string name) (val_of_sexp a))
  | _ -> raise (Bad "unknown command")

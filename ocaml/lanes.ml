(* commands of the later lanes; extended as the model grows *)
open Model
open Sexp
open Conv

(* powf is external (libm): the model leaves it abstract; lanes never compare its value *)
let powf_stub (_ : z) (_ : z) : z = cANON_NAN

let handle (s : Sexp.t) : string =
  match s with
  | L [A "op"; A name; a; b] ->
      outcome_to_string false (op_exec powf_stub (binop_of_string name) (val_of_sexp a) (val_of_sexp b))
  | L [A "unop"; A name; a] ->
      outcome_to_string false (unop_exec (unop_of_string name) (val_of_sexp a))
  | L [A "at"; v; i] -> outcome_to_string false (at_exec (val_of_sexp v) (val_of_sexp i))
  | L [A "len"; v] ->
      (match len_exec (val_of_sexp v) with
       | Ok n -> "ok (i " ^ string_of_z n ^ ")" | Err e -> "err " ^ err_name e
       | Panic -> "!panic" | OutOfFuel -> "!fuel")
  | L [A "slice"; v; a; b; c] ->
      let o = function A "none" -> None | x -> Some (val_of_sexp x) in
      outcome_to_string false (slice_exec (val_of_sexp v) (o a) (o b) (o c))
  | L [A "slyce"; A n; a; b; c] | L [A "pyslice"; A n; a; b; c] ->
      let o = function A "none" -> None | A x -> Some (z_of_string x) | _ -> raise (Bad "idx") in
      let f = (match s with L (A "slyce" :: _) -> slyce_indices | _ -> py_slice) in
      "(" ^ String.concat " " (List.map string_of_z (f (z_of_string n) (o a) (o b) (o c))) ^ ")"
  | L [A "has-type"; v; t] -> bool_to_string (has_type (val_of_sexp v) (ty_of_sexp t))
  | L [A "untyped"; v] -> val_to_string false (val_of_sexp v)
  | L [A "wf-val"; v] -> bool_to_string (wf_val (val_of_sexp v))
  | _ ->
      let rec first = function
        | [] -> raise (Bad "unknown command")
        | h :: rest -> (match h s with Some r -> r | None -> first rest) in
      first !Plug.handlers

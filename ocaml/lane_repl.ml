(* REPL route and batch route of the MODEL (property C17), over the surface-AST protocol of the
   program lanes, mirroring coq/Model/Repl.v ([repl_step] / [repl_run] / [batch_run]) on the
   extracted [parse_top] / [run_code]:

     (repl  (name ..) (input line ..) (input line ..) ..)   one interpreter; every input is parsed
                                                            against the CURRENT scopes, then run
                                                            unscoped in it
     (batch (name ..) line ..)                              parse once against the start
                                                            interpreter, run unscoped in the
                                                            start state
   [line] is a line in the syntax of lane_prog.ml (`(set n stm)`, `(fndecl ..)`, `(stm ..)`, ..).
   Output, as harness/src/lanes.rs prints it:  [RES VARS] [RES VARS] ..   with
     RES  = ok VALUE | err NAME | reject [NAME] | !panic parse | !fuel parse | !panic exec | !fuel exec
     VARS = ((name VALUE) (name unbound) ..)   functions and cells numbered by first appearance
                                               across the names of one step.
   The start interpreter is the one of `prog`: the booted store and the scope [std]. *)
open Model
open Sexp
open Conv
open Lane_prog

let e_new = [ { l_vars = []; l_fn = None; l_loop = false } ]

type step = Rejected of z | PPanic | PFuel | Ran of signal

(* Repl.repl_step *)
let repl_step (e : env) ((st, sc) : store * scopes) (input : sline list) : step * (store * scopes) =
  match parse_top powf_stub e.red chk_fuel sc e_new input with
  | Ok (is, _) ->
      let ((st', sc'), sg) = run_code powf_stub e.pre big_fuel st sc is VVoid in
      (Ran sg, (st', sc'))
  | Err z -> (Rejected z, (st, sc))
  | Panic -> (PPanic, (st, sc))
  | OutOfFuel -> (PFuel, (st, sc))

(* values, with one numbering of functions and cells shared by a whole VARS list *)
let shower (st : store) =
  let funs = ref [] and muts = ref [] in
  let idx l x = (let rec go i = function [] -> (l := !l @ [x]; i) | y :: r -> if y = x then i else go (i + 1) r in go 0 !l) in
  let rec go depth v =
    if depth > 64 then "(deep)" else
    match v with
    | VFun (id, _, _) -> "(fun " ^ string_of_int (idx funs (int_of_nat id)) ^ ")"
    | VMut (loc, _) ->
        let k = idx muts (int_of_nat loc) in
        let content = (match List.nth_opt st.s_cells (int_of_nat loc) with
                       | Some c -> go (depth + 1) c | None -> "(dangling)") in
        "(mut " ^ string_of_int k ^ " " ^ content ^ ")"
    | VArr (_, vs) -> "(arr" ^ String.concat "" (List.map (fun x -> " " ^ go (depth + 1) x) vs) ^ ")"
    | VTup vs -> "(tup" ^ String.concat "" (List.map (fun x -> " " ^ go (depth + 1) x) vs) ^ ")"
    | VStruct fs ->
        let l = List.sort compare (List.map (fun (k, x) -> (string_of_ident k, x)) fs) in
        "(struct" ^ String.concat "" (List.map (fun (k, x) -> " (" ^ k ^ " " ^ go (depth + 1) x ^ ")") l) ^ ")"
    | _ -> val_to_string false v in
  go 0

let show_step (st : store) = function
  | Rejected z -> if int_of_z z = 100 then "reject" else "reject " ^ err_name z
  | PPanic -> "!panic parse"
  | PFuel -> "!fuel parse"
  | Ran (SVal v) -> "ok " ^ shower st v
  | Ran (SError z) -> "err " ^ err_name z
  | Ran SPanic -> "!panic exec"
  | Ran SFuel -> "!fuel exec"
  | Ran _ -> "!signal"

let show_vars (names : Sexp.t list) ((st, sc) : store * scopes) : string =
  let sh = shower st in
  "(" ^ String.concat " " (List.map (fun n ->
      let s = (match n with A s -> s | S s -> s | _ -> raise (Bad "name")) in
      match scopes_get (ident_of_string s) sc with
      | Some v -> "(" ^ s ^ " " ^ sh v ^ ")"
      | None -> "(" ^ s ^ " unbound)") names) ^ ")"

let start (e : env) : store * scopes = (e.st, [[(ident_of_string "std", e.std)]])

let run_repl (names : Sexp.t list) (inputs : Sexp.t list) : string =
  let e = get_env () in
  let it = ref (start e) in
  String.concat " " (List.map (fun inp ->
    let lines = (match inp with
      | L (A "input" :: ls) -> List.map line_of ls
      | l -> [line_of l]) in                     (* a bare line = a one-statement input *)
    let (o, it') = repl_step e !it lines in
    it := it';
    "[" ^ show_step (fst it') o ^ " " ^ show_vars names it' ^ "]") inputs)

(* Repl.batch_run *)
let run_batch (names : Sexp.t list) (lines : Sexp.t list) : string =
  let e = get_env () in
  let (o, it') = repl_step e (start e) (List.map line_of lines) in
  match o with
  | Rejected _ | PPanic | PFuel -> show_step (fst it') o      (* as the harness: no VARS when parsing failed *)
  | Ran _ -> "[" ^ show_step (fst it') o ^ " " ^ show_vars names it' ^ "]"

let () = Plug.register (fun s ->
  match s with
  | L (A "repl" :: L names :: inputs) -> Some (run_repl names inputs)
  | L (A "batch" :: L names :: lines) -> Some (run_batch names lines)
  | _ -> None)

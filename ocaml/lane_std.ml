(* lane L12 (C18): the extracted standard-library model.

   (std-table)
       the regenerated table Gen/GenStdlib.v (the one the theorems of Props/C18.v quantify over),
       printed exactly like the harness prints the live `std` value for (std-exports).
   (std-sigs)
       one entry per Rust export: `path ; conv/demand per parameter ; Rust return type`
   (std MODULE NAME ARG..)
       the modelled value of the export NAME of the struct MODULE ("std" for len):
       `ok VALUE`, `unmodelled` (libm, case mapping, Display, parse_float, fs/io), or
       `!panic` when the model says the implementation reaches an unwrap / unreachable!().
   (std-accepts PATH ARG..)
       does every argument pass the glue's conversion and the body's demands (param_accepts)? *)
open Model
open Sexp
open Conv

exception Unmodelled

let path_string (path : ident list) (name : ident) : string =
  String.concat "." (List.map string_of_ident path @ [string_of_ident name])

let entry_string (e : export) : string =
  match e with
  | EFn (path, name, ps, _, dret, _, _) ->
      path_string path name ^ " :: " ^ ty_to_string (TFun (List.map (fun p -> p.p_declared) ps, dret))
  | EConst (path, name, _, t, _) -> path_string path name ^ " :: " ^ ty_to_string t
  | ELang (path, name, ps, dret) ->
      path_string path name ^ " :: " ^ ty_to_string (TFun (List.map snd ps, dret))

let conv_string = function
  | CvBool -> "bool" | CvI64 -> "i64" | CvF64 -> "f64" | CvArcStr -> "Arc<str>" | CvRefStr -> "&str"
  | CvArcArray -> "Arc<Array>" | CvRefArray -> "&Array" | CvRefSlice -> "&[Variable]"
  | CvRefVariable -> "&Variable"

let tag_string = function
  | KBool -> "bool" | KInt -> "int" | KFloat -> "float" | KString -> "string" | KFun -> "function"
  | KArr -> "array" | KTup -> "tuple" | KMut -> "mut" | KStruct -> "struct" | KVoid -> "void"

let demand_string = function
  | DNone -> ""
  | DTags ks -> "/tags(" ^ String.concat "," (List.map tag_string ks) ^ ")"
  | DElems k -> "/elems(" ^ tag_string k ^ ")"

let rec rty_string = function
  | RUnit -> "()" | RBool -> "bool" | RI32 -> "i32" | RI64 -> "i64" | RU32 -> "u32" | RUsize -> "usize"
  | RF64 -> "f64" | RRefStr -> "&str" | RArcStr -> "Arc<str>" | RString -> "String"
  | RArcRefStr -> "Arc<&str>" | RArcArray -> "Arc<Array>" | RArray -> "Array" | RRefArray -> "&Array"
  | RRefSlice -> "&[Variable]" | RArcSlice -> "Arc<[Variable]>" | RRefVariable -> "&Variable"
  | RVariable -> "Variable" | RIoError -> "io::Error"
  | ROption t -> "Option<" ^ rty_string t ^ ">"
  | RResult (t, e) -> "Result<" ^ rty_string t ^ "," ^ rty_string e ^ ">"
  | RResultExec t -> "Result<" ^ rty_string t ^ ",ExecError>"

let find_export (full : string) : export option =
  List.find_opt (fun e ->
    match e with
    | EFn (p, n, _, _, _, _, _) | EConst (p, n, _, _, _) | ELang (p, n, _, _) -> path_string p n = full)
    stdlib_exports

let eval (m : string) (n : string) (args : value list) : string =
  let un1 _ _ = raise Unmodelled and un2 _ _ _ = raise Unmodelled in
  try
    match std_eval un1 un2 (fun _ -> raise Unmodelled) (fun _ -> raise Unmodelled)
            (fun _ -> raise Unmodelled) (fun _ -> raise Unmodelled)
            (ident_of_string m) (ident_of_string n) args with
    | Some v -> "ok " ^ val_to_string true v
    | None ->
        (* not in std_eval: either outside the model (fs, io, operators) or ill-kinded arguments *)
        (match find_export (if m = "std" then "std." ^ n else "std." ^ m ^ "." ^ n) with
         | Some (EFn (_, _, ps, _, _, _, _)) when List.length ps = List.length args
                                             && List.for_all2 param_accepts ps args -> "unmodelled"
         | Some (EFn _) -> "!panic"
         | _ -> "unmodelled")
  with Unmodelled -> "unmodelled"

let () = Plug.register (fun s ->
  match s with
  | L [A "std-table"] ->
      Some ("ok " ^ String.concat " | " (List.sort compare (List.map entry_string stdlib_exports)))
  | L [A "std-sigs"] ->
      Some ("ok " ^ String.concat " | " (List.filter_map (fun e ->
        match e with
        | EFn (p, n, ps, r, _, _, _) ->
            Some (path_string p n ^ " ; "
                  ^ String.concat "," (List.map (fun q -> conv_string q.p_conv ^ demand_string q.p_demand) ps)
                  ^ " ; " ^ rty_string r)
        | _ -> None) stdlib_exports))
  | L (A "std" :: A m :: A n :: args) -> Some (eval m n (List.map val_of_sexp args))
  | L (A "std-accepts" :: A full :: args) ->
      (match find_export full with
       | Some (EFn (_, _, ps, _, _, _, _)) ->
           let vs = List.map val_of_sexp args in
           Some (bool_to_string (List.length ps = List.length vs && List.for_all2 param_accepts ps vs))
       | _ -> Some "none")
  | _ -> None)

(* lane L6 (front part): the model's own front-end.  Source text -> Peg (Gen/GenGrammar)
   -> Front (Model/Front.v) -> Check -> Recreate -> Exec.

   (src "text") (src-t "text") (src-ty "text")   = run / run-t / run-ty of the harness
   (src-eager-ty "text")                          same, literal errors reported by Front at once
   (front "text")          the surface AST:  ok LINE ...  |  reject  |  !panic front  |  !fuel front
   (ast-id LINE ...)       the same printer applied to an AST given as S-expressions
   (type-from-str "text")  Type::from_str      -> canonical type | reject
   (value-from-str "text") Variable::from_str  -> ok VALUE (hidden element types shown) | reject *)
open Model
open Sexp
open Conv

(* str::parse::<f64> is correctly rounded, and so is strtod; Front has already checked that
   the text has Rust's float syntax *)
let parse_float (s : z list) : z option =
  let txt = string_of_ident s in
  match float_of_string_opt txt with
  | None -> None
  | Some f ->
      if Float.is_nan f then Some cANON_NAN
      else Some (z_of_string (Printf.sprintf "%Lu" (Int64.bits_of_float f)))


let zs_of_string (s : string) : z list = List.map z_of_int (Sexp.code_points s)

(* ---- printing the surface AST in the format of lanes/sast.py::sx ---- *)
let atom_ok (s : string) : bool =
  s <> "" && not (String.exists (fun c -> c = '(' || c = ')' || c = '"' || c = ' ' || c = '\\'
                                          || Char.code c < 33 || Char.code c > 126) s)
let atom (s : string) : string = if atom_ok s then s else Sexp.quote s
let pname (n : ident) : string = atom (string_of_ident n)

let binop_str (o : binop) : string =
  match o with
  | Add -> "+" | Subtract -> "-" | Multiply -> "*" | Divide -> "/" | Modulo -> "%" | Pow -> "**"
  | Equal -> "==" | NotEqual -> "!=" | Greater -> ">" | GreaterOrEqual -> ">=" | Lower -> "<"
  | LowerOrEqual -> "<=" | And -> "&&" | Or -> "||" | BitwiseAnd -> "&" | BitwiseOr -> "|"
  | Xor -> "^" | LShift -> "<<" | RShift -> ">>" | Filter -> "?" | Map -> "@" | Partition -> "\\"
  | Assign -> "=" | AssignAdd -> "+=" | AssignSubtract -> "-=" | AssignMultiply -> "*="
  | AssignDivide -> "/=" | AssignModulo -> "%=" | AssignLShift -> "<<=" | AssignRShift -> ">>="
  | AssignBitwiseAnd -> "&=" | AssignBitwiseOr -> "|=" | AssignXor -> "^=" | AssignPow -> "**="
  | At -> "!at" | FunctionCall -> "!call"

let unop_str (o : unop) : string =
  match o with
  | USum -> "$+" | UProduct -> "$*" | UAll -> "$&&" | UAny -> "$||" | UBitAnd -> "$&"
  | UBitOr -> "$|" | UCollect -> "$]" | UIter -> "~" | _ -> "!unop"

let popt f = function None -> "none" | Some x -> f x
let plist f l = String.concat " " (List.map f l)
let pparams (ps : (ident * ty) list) : string =
  "(" ^ plist (fun (n, t) -> "(" ^ pname n ^ " " ^ ty_to_string t ^ ")") ps ^ ")"

let rec psx (e : sx) : string =
  match e with
  | XIdent n -> "(id " ^ pname n ^ ")"
  | XConst v -> "(c " ^ val_to_string false v ^ ")"
  | XMut (t, e) -> "(mut " ^ popt ty_to_string t ^ " " ^ psx e ^ ")"
  | XTuple es -> "(tuple" ^ String.concat "" (List.map (fun x -> " " ^ psx x) es) ^ ")"
  | XArray es -> "(array" ^ String.concat "" (List.map (fun x -> " " ^ psx x) es) ^ ")"
  | XArrayRepeat (v, n) -> "(repeat " ^ psx v ^ " " ^ psx n ^ ")"
  | XFunction (ps, ret, body) ->
      "(fn " ^ pparams ps ^ " " ^ popt ty_to_string ret ^ " (" ^ plist pline body ^ "))"
  | XStruct fs ->
      "(struct" ^ String.concat "" (List.map (fun (k, v) -> " (" ^ pname k ^ " " ^ popt psx v ^ ")") fs) ^ ")"
  | XMod body -> "(mod" ^ String.concat "" (List.map (fun l -> " " ^ pline l) body) ^ ")"
  | XPrefix (op, e) ->
      let o = (match (op : prefix_op) with PNot -> "not" | PNeg -> "neg" | PDeref -> "deref") in
      "(pre " ^ o ^ " " ^ psx e ^ ")"
  | XInfix (o, l, r) -> "(bin " ^ atom (binop_str o) ^ " " ^ psx l ^ " " ^ psx r ^ ")"
  | XReduce (it, init, f) -> "(reduce " ^ psx it ^ " " ^ psx init ^ " " ^ psx f ^ ")"
  | XAt (e, i) -> "(at " ^ psx e ^ " " ^ psx i ^ ")"
  | XSlice (e, a, b, c) -> "(slice " ^ psx e ^ " " ^ popt psx a ^ " " ^ popt psx b ^ " " ^ popt psx c ^ ")"
  | XCall (f, args) -> "(call " ^ psx f ^ String.concat "" (List.map (fun x -> " " ^ psx x) args) ^ ")"
  | XTupleAccess (e, k) -> "(tacc " ^ psx e ^ " " ^ string_of_int (int_of_nat k) ^ ")"
  | XFieldAccess (e, n) -> "(facc " ^ psx e ^ " " ^ pname n ^ ")"
  | XTypeFilter (e, t) -> "(tfilter " ^ psx e ^ " " ^ ty_to_string t ^ ")"
  | XPostfix (o, e) -> "(post " ^ psx e ^ " " ^ atom (unop_str o) ^ ")"

and pstm (s : sstm) : string =
  match s with
  | SExpr e -> "(expr " ^ psx e ^ ")"
  | SBlock body -> "(block" ^ String.concat "" (List.map (fun l -> " " ^ pline l) body) ^ ")"
  | SIfElse (c, t, f) -> "(if " ^ psx c ^ " " ^ pstm t ^ " " ^ popt pstm f ^ ")"
  | SSetIfElse (n, t, e, b, f) ->
      "(ifset " ^ pname n ^ " " ^ ty_to_string t ^ " " ^ psx e ^ " " ^ pstm b ^ " " ^ popt pstm f ^ ")"
  | SMatch (e, arms) -> "(match " ^ psx e ^ String.concat "" (List.map (fun a -> " " ^ parm a) arms) ^ ")"
  | SRet r -> "(return " ^ popt pstm r ^ ")"
  | SLoop b -> "(loop " ^ pstm b ^ ")"
  | SWhile (c, b) -> "(while " ^ psx c ^ " " ^ pstm b ^ ")"
  | SWhileSet (n, t, e, b) ->
      "(whileset " ^ pname n ^ " " ^ ty_to_string t ^ " " ^ psx e ^ " " ^ pstm b ^ ")"
  | SFor (n, e, b) -> "(for " ^ pname n ^ " " ^ psx e ^ " " ^ pstm b ^ ")"
  | SBrk -> "break"
  | SCont -> "continue"

and parm (a : sarm) : string =
  match a with
  | AType (n, t, b) -> "(atype " ^ pname n ^ " " ^ ty_to_string t ^ " " ^ pstm b ^ ")"
  | AValue (vs, b) -> "(aval (" ^ plist psx vs ^ ") " ^ pstm b ^ ")"
  | AOther b -> "(aother " ^ pstm b ^ ")"

and pline (l : sline) : string =
  match l with
  | LFnDecl (n, ps, ret, body) ->
      "(fndecl " ^ pname n ^ " " ^ pparams ps ^ " " ^ popt ty_to_string ret ^ " (" ^ plist pline body ^ "))"
  | LSet (n, s) -> "(set " ^ pname n ^ " " ^ pstm s ^ ")"
  | LDestruct (ids, s) -> "(destruct (" ^ plist pname ids ^ ") " ^ pstm s ^ ")"
  | LStm s -> "(stm " ^ pstm s ^ ")"

let show_lines (ls : sline list) : string =
  "ok" ^ String.concat "" (List.map (fun l -> " " ^ pline l) ls)

(* ---- commands ---- *)
let front (eager : bool) (text : string) : sline list outcome =
  parse_program_with parse_float eager (zs_of_string text)

let front_cmd (text : string) : string =
  match front false text with
  | Ok ls -> show_lines ls
  | Err _ -> "reject"
  | Panic -> "!panic front"
  | OutOfFuel -> "!fuel front"

(* f64::powf: Rust calls the platform's libm `pow`, and so does OCaml's ( ** ) *)
let bits_of_float (f : float) : z =
  if Float.is_nan f then cANON_NAN else z_of_string (Printf.sprintf "%Lu" (Int64.bits_of_float f))
let float_of_bits (b : z) : float = Int64.float_of_bits (Int64.of_string ("0u" ^ string_of_z b))
let powf_libm (a : z) (b : z) : z = bits_of_float (Float.pow (float_of_bits a) (float_of_bits b))

(* loops run at most [exec_fuel] iterations before the model gives up (`!fuel exec`); the
   programs of the lanes are far below that, and a text that does not terminate is found out
   quickly (the lane does not run it on the implementation) *)
let exec_fuel =
  nat_of_int (try int_of_string (Sys.getenv "VERIF_SRC_FUEL") with _ -> 20000)

(* Lane_prog.run_lines with libm's pow instead of the stub *)
let run_lines (e : Lane_prog.env) (parse_scopes : scopes) (lines : sline list) =
  match parse_top powf_libm e.Lane_prog.red Lane_prog.chk_fuel parse_scopes
          [ { l_vars = []; l_fn = None; l_loop = false } ] lines with
  | Ok (is, _) ->
      let ((st, _), sg) = run_code powf_libm e.Lane_prog.pre exec_fuel e.Lane_prog.st [[]] is VVoid in
      `Ran (is, st, sg)
  | Err z -> `ParseErr z
  | Panic -> `ParsePanic
  | OutOfFuel -> `ParseFuel

(* same printing as Lane_prog.run_prog *)
let run_src (eager : bool) (types : bool) (with_ty : bool) (text : string) : string =
  match front eager text with
  | Err _ -> "reject"
  | Panic -> "!panic front"
  | OutOfFuel -> "!fuel front"
  | Ok lines ->
      let e = Lane_prog.get_env () in
      let scopes = [[(ident_of_string "std", e.Lane_prog.std)]] in
      (match run_lines e scopes lines with
       | `ParseErr z -> if int_of_z z = 100 then "reject" else "reject " ^ err_name z
       | `ParsePanic -> "!panic parse"
       | `ParseFuel -> "!fuel parse"
       | `Ran (is, st, sg) ->
           let r = (match sg with
             | SVal v -> "ok " ^ Lane_prog.show_value types st v
             | SError z -> "err " ^ err_name z
             | SPanic -> "!panic exec"
             | SFuel -> "!fuel exec"
             | _ -> "!signal") in
           if with_ty then
             r ^ " :: " ^ (match code_rt is with Ok t -> ty_to_string t | _ -> "!rt-panic")
           else r)

let type_from_str (text : string) : string =
  match parse_type_str (zs_of_string text) with
  | Ok t -> ty_to_string t
  | Err _ -> "reject"
  | Panic -> "!panic front"
  | OutOfFuel -> "!fuel front"

let value_from_str (text : string) : string =
  match parse_value_str parse_float (zs_of_string text) with
  | Ok v -> "ok " ^ val_to_string true v
  | Err _ -> "reject"
  | Panic -> "!panic front"
  | OutOfFuel -> "!fuel front"

let () = Plug.register (fun s ->
  match s with
  | L [A "src"; S t] -> Some (run_src false false false t)
  | L [A "src-t"; S t] -> Some (run_src false true false t)
  | L [A "src-ty"; S t] -> Some (run_src false true true t)
  | L [A "src-eager-ty"; S t] -> Some (run_src true true true t)
  | L [A "front"; S t] -> Some (front_cmd t)
  | L (A "ast-id" :: lines) -> Some (show_lines (List.map Lane_prog.line_of lines))
  | L [A "type-from-str"; S t] -> Some (type_from_str t)
  | L [A "value-from-str"; S t] -> Some (value_from_str t)
  | _ -> None)

"""Lane L7 — whole programs: the model (Check -> Recreate -> Exec, extracted) vs the
implementation on generated programs; the static type reported for each program is checked
against the value it yields (C01), panics are C02/C03 violations."""
import os
from . import common, progen, sast

HELPERS = os.path.join(common.BUILD, "helpers.sx")
SIX = {"IndexOutOfBounds", "NegativeLength", "NegativeExponent", "ZeroDivision", "ZeroModulo", "OverflowShift"}


def esc(text):
    return text.replace("\\", "\\\\").replace('"', '\\"').replace("\n", " ")


def norm_impl(out):
    if out.startswith("reject "):
        v = out[7:].split(" ")[0]
        return "reject " + v if v in SIX else "reject"
    if out.startswith("!panic"):
        return "!panic"
    return out


def norm_model(out):
    if out.startswith("!panic"):
        return "!panic"
    return out


def classify(out):
    if out.startswith("ok "):
        return "ok"
    if out.startswith("err "):
        return "err"
    if out.startswith("reject"):
        return "reject"
    return "bang"


def run_programs(rep, progs, tag, props_for_panic=("C02", "C03"), compare_model=True):
    """progs: list of surface ASTs.  Returns (model_out, impl_out)."""
    mc = ["(prog-ty " + " ".join(sast.sx(l) for l in p) + ")" for p in progs]
    ic = ['(run-ty "' + esc(sast.program(p)) + '")' for p in progs]
    env = {"VERIF_HELPERS": HELPERS}
    mo = common.run_cases(common.DRIVER, mc, env=env, timeout=900)
    # model first: a program on which the model runs out of fuel (or time) is not sent to the
    # implementation, where it would spin until the shard timeout
    live = [k for k in range(len(progs)) if not mo[k].startswith(("!fuel", "!timeout", "!died"))]
    if not compare_model:
        # implementation-only use (the model is known not to be faithful on these programs): the
        # property's own oracles (no panic, value inhabits the static type) still apply
        live = list(range(len(progs)))
    lo = common.run_cases(common.HARNESS, [ic[k] for k in live], timeout=300)
    io = ["!skipped"] * len(progs)
    for k, o in zip(live, lo):
        io[k] = o
    rep.evaluations += 2 * len(progs)
    rep.compared += len(progs)
    rep.distinct.update(ic)
    typed = []
    # a panic is attributed to the phase it happens in: Code::parse alone is run again on the
    # programs that panicked ((parse-ty ..)); when that returns, the panic was at run time (C02),
    # otherwise inside the parser/checker (C03)
    pk = [k for k in range(len(progs)) if io[k].startswith("!panic")]
    po = common.run_cases(common.HARNESS, ['(parse-ty "' + esc(sast.program(progs[k])) + '")' for k in pk], timeout=120)
    panic_phase = {k: ("parse" if o.startswith("!") else "exec") for k, o in zip(pk, po)}
    for k, p in enumerate(progs):
        m, i = norm_model(mo[k]), norm_impl(io[k])
        rep.count(f"{tag}.impl.{classify(i)}")
        if i.startswith("!panic"):
            rep.violations.append({"property": "C02" if panic_phase.get(k) == "exec" else "C03",
                                   "lane": tag, "what": "implementation panics: " + io[k][:160],
                                   "program": sast.program(p), "case": ic[k]})
        if m.startswith(("!fuel", "!timeout", "!died")) and compare_model:
            rep.count(f"{tag}.model-fuel")
            continue
        if i.startswith("!died") or i.startswith("!timeout"):
            # the model finished and the implementation (run on its own, see common._run_shard)
            # did not: reported as a disagreement
            rep.count(f"{tag}.impl-no-result")
        if m != i and compare_model:
            rep.disagreements.append({"lane": tag, "case": ic[k], "model": m, "impl": i,
                                      "program": sast.program(p), "model_case": mc[k], "ast": p})
        if i.startswith("ok ") and " :: " in i:
            v, t = i[3:].split(" :: ", 1)
            typed.append((k, v, t))
    # C01: the value belongs to the static type reported for the program (by tag and contents)
    if typed:
        qs = [f"(has-type {v} {t})" for _, v, t in typed]
        ans = common.run_cases(common.DRIVER, qs, env=env)
        rep.evaluations += len(qs)
        for (k, v, t), a in zip(typed, ans):
            if a != "true":
                rep.violations.append({"property": "C01", "lane": tag,
                                       "what": f"result {v[:200]} does not inhabit the static type {t} ({a})",
                                       "program": sast.program(progs[k]), "case": ic[k]})
    return mo, io


def run(rep, tier):
    rnd = common.rng("L7")
    n = 6000 if tier == "thorough" else 800
    progs = []
    stats = {}
    for k in range(n):
        p, st = progen.program(rnd, n_lines=rnd.randrange(2, 9), max_depth=rnd.choice([2, 3, 3, 4]))
        progs.append(p)
        for key, v in st.items():
            stats[key] = stats.get(key, 0) + v
    for key, v in sorted(stats.items()):
        rep.count("L7.gen." + key, v)
    for p in progs[:2]:
        rep.sample({"lane": "L7", "program": sast.program(p)})
    run_programs(rep, progs, "L7")


def untyped(outs):
    """strip hidden element types / declared cell types from `ok VALUE :: TYPE` lines"""
    idx, qs = [], []
    for k, o in enumerate(outs):
        o = norm_impl(o)
        if o.startswith("ok "):
            idx.append(k)
            qs.append("(untyped " + o[3:].split(" :: ")[0] + ")")
    ans = common.run_cases(common.DRIVER, qs, env={"VERIF_HELPERS": HELPERS}) if qs else []
    res = [norm_impl(o).split(" :: ")[0] for o in outs]
    for k, a in zip(idx, ans):
        res[k] = "ok " + a
    return res


def shrink_disagreement(d, budget=120):
    """minimise a disagreeing program (line-level delta debugging on the AST); returns a dict with
    the shrunk program and both commands, or None"""
    from . import shrink
    if "ast" not in d:
        return None
    env = {"VERIF_HELPERS": HELPERS}

    def outs(p):
        mc = "(prog-ty " + " ".join(sast.sx(l) for l in p) + ")"
        ic = '(run-ty "' + esc(sast.program(p)) + '")'
        m = norm_model(common.run_cases(common.DRIVER, [mc], env=env, timeout=60)[0])
        if m.startswith("!fuel") or m.startswith("!timeout"):
            # a candidate that does not terminate in the model (a removed loop increment, say) is
            # never sent to the implementation: it would spin there until the shard timeout
            return "!fuel", "!timeout", mc, ic
        i = norm_impl(common.run_cases(common.HARNESS, [ic], timeout=20)[0])
        return m, i, mc, ic

    def bad(p):
        m, i, _, _ = outs(p)
        return m != i and not m.startswith("!fuel") and not i.startswith(("!died", "!timeout"))
    try:
        q = shrink.shrink(d["ast"], bad, budget=budget)
        m, i, mc, ic = outs(q)
        return {"program": sast.program(q), "model": m, "impl": i, "model_case": mc, "case": ic}
    except Exception as e:  # shrinking is best effort
        return {"error": str(e)}

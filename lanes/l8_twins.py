"""Lane L8 — constant folding is unobservable (C04): each generated program is paired with
its constant-hidden twin (every literal c replaced by a call of an opaque typed identity on c).
Implementation vs implementation is the property oracle; both are also compared with the model."""
import copy
from . import common, progen, sast, l7_programs, corpus

HIDE = [
    ["fndecl", "hi", [["x", "int"]], "int", [["stm", ["return", ["expr", ["id", "x"]]]]]],
    ["fndecl", "hb", [["x", "bool"]], "bool", [["stm", ["return", ["expr", ["id", "x"]]]]]],
    ["fndecl", "hf", [["x", "float"]], "float", [["stm", ["return", ["expr", ["id", "x"]]]]]],
    ["fndecl", "hs", [["x", "string"]], "string", [["stm", ["return", ["expr", ["id", "x"]]]]]],
]
SIX = l7_programs.SIX


def hide(node):
    """replace every literal by a call of the matching opaque identity"""
    if isinstance(node, list):
        if len(node) == 2 and node[0] == "c" and node[1] != "void":
            k = node[1][0]
            f = {"i": "hi", "b": "hb", "f": "hf", "s": "hs"}[k]
            return ["call", ["id", f], node]
        if node and node[0] == "tacc":
            return ["tacc", hide(node[1]), node[2]]
        # parameter lists and types are not expressions (a parameter may be called `c`)
        if node and node[0] == "fndecl" and len(node) == 5:
            return node[:4] + [hide(node[4])]
        if node and node[0] == "fn" and len(node) == 4:
            return node[:3] + [hide(node[3])]
        if node and node[0] in ("mut", "tfilter") and len(node) == 3:
            return [node[0], node[1], hide(node[2])] if node[0] == "mut" else [node[0], hide(node[1]), node[2]]
        if node and node[0] in ("ifset", "whileset"):
            return node[:3] + [hide(x) for x in node[3:]]
        if node and node[0] == "atype":
            return node[:3] + [hide(x) for x in node[3:]]
        return [hide(x) for x in node]
    return node


def outcome_class(o):
    if o.startswith("ok "):
        return "ok"
    if o.startswith("err "):
        return "err"
    if o.startswith("reject "):
        v = o[7:].split(" ")[0]
        return "fold-error" if v in SIX else "static-reject"
    if o == "reject":
        return "static-reject"
    return "bang"


def strip_type(o):
    return o.split(" :: ")[0]


def run(rep, tier):
    rnd = common.rng("L8")
    n = 3000 if tier == "thorough" else 500
    progs = []
    for k in range(n):
        p, _ = progen.program(rnd, n_lines=rnd.randrange(2, 8), max_depth=rnd.choice([2, 3, 3]))
        progs.append(p)
    progs += [e[2] for e in corpus.CORPUS if "C04" in e[1] or "C07" in e[1] or "C12" in e[1]]
    plain = [HIDE + p for p in progs]
    twins = [HIDE + hide(p) for p in progs]
    mo_p, io_p = l7_programs.run_programs(rep, plain, "L8.plain")
    mo_t, io_t = l7_programs.run_programs(rep, twins, "L8.twin")
    for k in range(len(progs)):
        a, b = io_p[k], io_t[k]
        ca, cb = outcome_class(a), outcome_class(b)
        rep.count(f"L8.pair.{ca}/{cb}")
        if "bang" in (ca, cb):
            continue   # panics are reported by run_programs under C02/C03
        ok = True
        why = ""
        if ca == "fold-error":
            ok = True   # the one permitted difference
        elif ca == "static-reject" or cb == "static-reject":
            ok = ca == cb
            why = "acceptance differs"
        elif ca == "ok":
            ok = cb == "ok" and strip_type(a) == strip_type(b)
            why = "results differ" if cb == "ok" else "twin fails at run time where the literal program succeeds"
        elif ca == "err":
            ok = cb == "err" and strip_type(a) == strip_type(b)
            why = "literal program fails at run time where the twin succeeds" if cb == "ok" else "different run-time errors"
        if cb == "fold-error" and ca != "fold-error":
            ok = False
            why = "twin reports a parse-time fold error the literal program does not"
        if not ok:
            rep.violations.append({"property": "C04", "lane": "L8",
                                   "what": f"constant-hidden twin behaves differently ({why}): literal {a[:120]} / hidden {b[:120]}",
                                   "program": sast.program(plain[k]),
                                   "case": '(run-ty "' + l7_programs.esc(sast.program(plain[k])) + '")',
                                   "twin": sast.program(twins[k])})
    rep.sample({"lane": "L8", "literal": sast.program(plain[0]), "hidden": sast.program(twins[0])})

"""Lane L7b — evaluation order (C07), systematically: every syntactic position that has operands
gets logging operands `t(k)` / `tb(k, b)`; the expected log (source order, exactly once, short
circuit, only the chosen branch, candidates until the first match) is computed in Python from the
property text.  Each form runs at top level, inside a function body and inside a loop body, with
literal and run-time operands (the folding pass sees different things in each)."""
import itertools
from . import common, sast, l7_programs
from .sast import I, B, S, V, VOID


def E(e):
    return ["stm", ["expr", e]]


def ret(e):
    return ["stm", ["return", ["expr", e]]]


PRE = [
    ["set", "log", ["expr", ["mut", ["arr", "int"], ["array"]]]],
    ["fndecl", "t", [["n", "int"]], "int", [E(["bin", "+=", V("log"), ["array", V("n")]]), ret(V("n"))]],
    ["fndecl", "tb", [["n", "int"], ["b", "bool"]], "bool", [E(["bin", "+=", V("log"), ["array", V("n")]]), ret(V("b"))]],
    ["fndecl", "ta", [["n", "int"], ["a", ["arr", "int"]]], ["arr", "int"], [E(["bin", "+=", V("log"), ["array", V("n")]]), ret(V("a"))]],
    ["fndecl", "ts", [["n", "int"], ["a", "string"]], "string", [E(["bin", "+=", V("log"), ["array", V("n")]]), ret(V("a"))]],
    ["fndecl", "tf", [["n", "int"]], ["fun", ["int", "int"], "int"], [
        E(["bin", "+=", V("log"), ["array", V("n")]]),
        ret(["fn", [["a", "int"], ["b", "int"]], "int", [ret(["bin", "-", V("a"), V("b")])]])]],
    ["fndecl", "tf1", [["n", "int"]], ["fun", ["int"], "int"], [
        E(["bin", "+=", V("log"), ["array", V("n")]]),
        ret(["fn", [["a", "int"]], "int", [ret(["bin", "+", V("a"), I(1)])]])]],
    ["fndecl", "tc", [["n", "int"], ["c", ["mut", "int"]]], ["mut", "int"], [E(["bin", "+=", V("log"), ["array", V("n")]]), ret(V("c"))]],
    ["set", "cell", ["expr", ["mut", None, I(100)]]],
    # an iterator at a static type that is a UNION of iterator types (the planted `match` of `$+` / `$*`)
    ["fndecl", "tu", [["n", "int"]], ["multi", ["fun", [], ["tup", "bool", "int"]], ["fun", [], ["tup", "bool", "float"]]], [
        E(["bin", "+=", V("log"), ["array", V("n")]]), ret(["post", ["array", I(1), I(2), I(3)], "~"])]],
    ["fndecl", "ti", [["n", "int"]], ["fun", [], ["tup", "bool", "int"]], [
        E(["bin", "+=", V("log"), ["array", V("n")]]), ret(["post", ["array", I(1), I(2), I(3)], "~"])]],
]


def T(k):
    return ["call", V("t"), I(k)]


def TB(k, b):
    return ["call", V("tb"), I(k), B(b)]


def forms():
    """yield (name, expression AST, expected log)"""
    out = []
    for op in ["+", "-", "*", "/", "%", "**", "<<", ">>", "&", "|", "^", "<", "<=", ">", ">=", "==", "!="]:
        out.append((f"bin{op}", ["bin", op, T(1), T(2)], [1, 2]))
        out.append((f"bin{op}.rhs-lit", ["bin", op, T(1), I(2)], [1]))
        out.append((f"bin{op}.lhs-lit", ["bin", op, I(5), T(2)], [2]))
        out.append((f"bin{op}.nested", ["bin", op, ["bin", "+", T(1), T(2)], ["bin", "+", T(3), T(4)]], [1, 2, 3, 4]))
    for a, b in itertools.product([True, False], repeat=2):
        out.append((f"and.{a}{b}", ["bin", "&&", TB(1, a), TB(2, b)], [1, 2] if a else [1]))
        out.append((f"or.{a}{b}", ["bin", "||", TB(1, a), TB(2, b)], [1] if a else [1, 2]))
    for a in (True, False):
        out.append((f"and.rt-lit.{a}.false", ["bin", "&&", TB(1, a), B(False)], [1]))
        out.append((f"and.rt-lit.{a}.true", ["bin", "&&", TB(1, a), B(True)], [1]))
        out.append((f"or.rt-lit.{a}.true", ["bin", "||", TB(1, a), B(True)], [1]))
        out.append((f"or.rt-lit.{a}.false", ["bin", "||", TB(1, a), B(False)], [1]))
        out.append((f"and.lit-rt.false.{a}", ["bin", "&&", B(False), TB(2, a)], []))
        out.append((f"and.lit-rt.true.{a}", ["bin", "&&", B(True), TB(2, a)], [2]))
        out.append((f"or.lit-rt.true.{a}", ["bin", "||", B(True), TB(2, a)], []))
        out.append((f"or.lit-rt.false.{a}", ["bin", "||", B(False), TB(2, a)], [2]))
        out.append((f"and3.{a}", ["bin", "&&", ["bin", "&&", TB(1, True), TB(2, a)], TB(3, True)], [1, 2, 3] if a else [1, 2]))
    out.append(("call", ["call", ["call", V("tf"), I(1)], T(2), T(3)], [1, 2, 3]))
    out.append(("array", ["array", T(1), T(2), T(3)], [1, 2, 3]))
    out.append(("array.mixed", ["array", T(1), I(7), T(3)], [1, 3]))
    out.append(("tuple", ["tuple", T(1), T(2), T(3)], [1, 2, 3]))
    out.append(("struct", ["struct", ["a", T(1)], ["b", T(2)], ["c", T(3)]], [1, 2, 3]))
    out.append(("repeat", ["repeat", T(1), T(2)], [1, 2]))
    out.append(("repeat.len-lit", ["repeat", T(1), I(2)], [1]))
    out.append(("at", ["at", ["call", V("ta"), I(1), ["array", I(5), I(6)]], T(0)], [1, 0]))
    out.append(("at.lit-array", ["at", ["array", T(1), T(2)], T(0)], [1, 2, 0]))
    for seqname, seq in (("arr", ["call", V("ta"), I(9), ["array", I(5), I(6), I(7)]]),
                         ("empty-arr", ["call", V("ta"), I(9), ["slice", ["array", I(1)], I(0), I(0), None]]),
                         ("str", ["call", V("ts"), I(9), S("abc")]), ("empty-str", ["call", V("ts"), I(9), S("")]),
                         ("lit-arr", ["array", I(5), I(6), I(7)]), ("lit-empty-str", S(""))):
        for pa, pb, pc in itertools.product([False, True], repeat=3):
            if not (pa or pb or pc):
                continue
            e = ["slice", seq, T(0) if pa else None, T(2) if pb else None, T(1) if pc else None]
            exp = ([9] if seq[0] == "call" else []) + ([0] if pa else []) + ([2] if pb else []) + ([1] if pc else [])
            out.append((f"slice.{seqname}.{int(pa)}{int(pb)}{int(pc)}", e, exp))
    out.append(("assign", ["bin", "=", ["call", V("tc"), I(1), V("cell")], T(2)], [1, 2]))
    for op in ["+=", "-=", "*=", "/=", "%=", "**=", "<<=", ">>=", "&=", "|=", "^="]:
        out.append((f"assign{op}", ["bin", op, ["call", V("tc"), I(1), V("cell")], T(2)], [1, 2]))
    out.append(("reduce", ["reduce", ["post", ["call", V("ta"), I(1), ["array", I(5)]], "~"], T(2),
                           ["fn", [["a", "int"], ["b", "int"]], "int", [ret(["bin", "+", ["bin", "+", V("a"), V("b")], T(3)])]]], [1, 2, 3]))
    out.append(("neg", ["pre", "neg", T(1)], [1]))
    out.append(("tacc", ["tacc", ["tuple", T(1), T(2)], 0], [1, 2]))
    # a container literal accessed at a CONSTANT position: every element is still evaluated
    for k, nk in ((0, "0"), (1, "1"), (2, "2"), (["pre", "neg", I(1)], "m1"), (["pre", "neg", I(3)], "m3")):
        ke = I(k) if isinstance(k, int) else k
        out.append((f"at.lit-array.const-{nk}", ["at", ["array", T(1), T(2), T(3)], ke], [1, 2, 3]))
        out.append((f"at.lit-array-mixed.const-{nk}", ["at", ["array", T(1), I(7), T(3)], ke], [1, 3]))
    for k in (0, 1, 2):
        out.append((f"tacc.lit.{k}", ["tacc", ["tuple", T(1), T(2), T(3)], k], [1, 2, 3]))
        out.append((f"tacc.lit-mixed.{k}", ["tacc", ["tuple", T(1), I(7), T(3)], k], [1, 3]))
    for f in ("a", "b", "c"):
        out.append((f"facc.lit.{f}", ["facc", ["struct", ["a", T(1)], ["b", T(2)], ["c", T(3)]], f], [1, 2, 3]))
        out.append((f"facc.lit-mixed.{f}", ["facc", ["struct", ["a", T(1)], ["b", I(7)], ["c", T(3)]], f], [1, 3]))
    out.append(("slice.lit-array.const", ["slice", ["array", T(1), T(2), T(3)], I(1), I(2), None], [1, 2, 3]))
    out.append(("len.lit-array", ["call", ["facc", V("std"), "len"], ["array", T(1), T(2)]], [1, 2]))
    out.append(("repeat.zero-len", ["repeat", T(1), I(0)], [1]))
    out.append(("eq.lit-arrays", ["bin", "==", ["array", T(1), T(2)], ["array", T(3)]], [1, 2, 3]))
    out.append(("array-of-array.at", ["at", ["at", ["array", ["array", T(1), T(2)], ["array", T(3)]], I(1)], I(0)], [1, 2, 3]))
    # STATEMENT-level forms live in stm_forms; here: mixed constant / computed operands keep source order
    out.append(("array.const-then-computed", ["array", I(9), T(1), I(8), T(2)], [1, 2]))
    # struct literals whose field names are not in alphabetical order: source order, not name order
    out.append(("struct.names-unordered", ["struct", ["zero", T(1)], ["one", T(2)], ["two", T(3)]], [1, 2, 3]))
    out.append(("struct.names-reversed", ["struct", ["c", T(1)], ["b", T(2)], ["a", T(3)]], [1, 2, 3]))
    out.append(("struct.names-unordered.facc", ["facc", ["struct", ["y", T(1)], ["x", T(2)]], "x"], [1, 2]))
    out.append(("struct.names-unordered.mixed", ["struct", ["z", T(1)], ["m", I(7)], ["a", T(3)]], [1, 3]))
    # the operand of every postfix reducer is evaluated once (also where a dispatch on its type is planted)
    for red in ("$+", "$*"):
        out.append((f"reduce-postfix{red}.union-operand", ["post", ["call", V("tu"), I(1)], red], [1]))
        out.append((f"reduce-postfix{red}.int-operand", ["post", ["call", V("ti"), I(1)], red], [1]))
    for red in ("$&", "$|", "$]"):
        out.append((f"reduce-postfix{red}", ["post", ["call", V("ti"), I(1)], red], [1]))
    out.append(("typefilter.operand", ["post", ["tfilter", ["call", V("ti"), I(1)], "int"], "$]"], [1]))
    out.append(("map.operands", ["post", ["bin", "@", ["call", V("ti"), I(1)], ["call", V("tf1"), I(2)]], "$]"], [1, 2]))
    out.append(("mul-zero", ["bin", "*", T(1), I(0)], [1]))
    out.append(("zero-mul", ["bin", "*", I(0), T(1)], [1]))
    out.append(("sub-self", ["bin", "-", T(1), T(1)], [1, 1]))
    out.append(("and-false-lit-left-nested", ["bin", "||", ["bin", "&&", TB(1, True), B(False)], TB(2, True)], [1, 2]))
    return out


def stm_forms():
    """statement-level forms: (name, lines producing variable `r`, expected log)"""
    out = []
    blk = lambda *ls: ["block"] + list(ls)
    for c in (True, False):
        out.append((f"if.{c}", [["set", "r", ["if", TB(1, c), blk(E(T(2))), blk(E(T(3)))]]], [1, 2] if c else [1, 3]))
        out.append((f"if-noelse.{c}", [["set", "r", ["if", TB(1, c), blk(E(T(2))), None]]], [1, 2] if c else [1]))
        out.append((f"if-lit.{c}", [["set", "r", ["if", B(c), blk(E(T(2))), blk(E(T(3)))]]], [2] if c else [3]))
    for scrut in (1, 2, 3, 4, 9):
        exp = [0]
        arms = [[1, 2], [3], [2, 4]]
        hit = False
        k = 10
        for ai, cands in enumerate(arms):
            for cnd in cands:
                exp.append(10 * (ai + 1) + cnd)
                if cnd == scrut:
                    hit = True
                    break
            if hit:
                exp.append(100 + ai)
                break
        if not hit:
            exp.append(199)
        mk = lambda ai, cnd: ["bin", "+", ["bin", "*", ["call", V("t"), I(10 * (ai + 1) + cnd)], I(0)], I(cnd)]
        m = ["match", ["bin", "+", ["bin", "*", T(0), I(0)], I(scrut)]] + \
            [["aval", [mk(ai, cnd) for cnd in cands], blk(E(T(100 + ai)))] for ai, cands in enumerate(arms)] + \
            [["aother", blk(E(T(199)))]]
        out.append((f"match-value.{scrut}", [["set", "r", m]], exp))
    # candidates of ONE arm mixing computed values and constants (a literal, a name bound to a constant): source order
    out.append(("match-value.mixed-candidates.lit", [["set", "r", ["match", T(3), ["aval", [T(1), I(3), T(2)], blk(E(T(100)))], ["aother", blk(E(T(199)))]]]], [3, 1, 100]))
    out.append(("match-value.mixed-candidates.const-name", [["set", "k", ["expr", I(3)]],
                ["set", "r", ["match", T(3), ["aval", [T(1), V("k"), T(2)], blk(E(T(100)))], ["aother", blk(E(T(199)))]]]], [3, 1, 100]))
    out.append(("match-value.mixed-candidates.none", [["set", "r", ["match", T(7), ["aval", [I(3), T(1), I(4), T(2)], blk(E(T(100)))], ["aother", blk(E(T(199)))]]]], [7, 1, 2, 199]))
    out.append(("match-value.mixed-candidates.first-computed-hits", [["set", "r", ["match", T(1), ["aval", [T(1), I(3), T(2)], blk(E(T(100)))], ["aother", blk(E(T(199)))]]]], [1, 1, 100]))
    for v, exp in ((I(5), [1, 2]), (S("s"), [1, 3])):
        out.append((f"ifset.{v[1][0]}", [["set", "u", ["expr", ["at", ["array", I(5), S("s")], I(0 if v[1][0] == "i" else 1)]]],
                                        ["set", "r", ["ifset", "w", "int", ["tacc", ["tuple", T(1), V("u")], 1], blk(E(T(2))), blk(E(T(3)))]]], exp))
        out.append((f"match-type.{v[1][0]}", [["set", "u", ["expr", ["at", ["array", I(5), S("s")], I(0 if v[1][0] == "i" else 1)]]],
                                             ["set", "r", ["match", ["tacc", ["tuple", T(1), V("u")], 1],
                                                           ["atype", "w", "int", blk(E(T(2)))], ["aother", blk(E(T(3)))]]]], exp))
    return out


def show_list(xs):
    return "(arr" + "".join(f" (i {x})" for x in xs) + ")"


def run(rep, tier):
    progs, expect, names = [], [], []
    contexts = ["top", "fn", "loop", "fn-param"]
    for name, e, exp in forms():
        for ctx in contexts:
            if ctx == "top":
                lines = PRE + [["set", "r", ["expr", e]], E(["pre", "deref", V("log")])]
            elif ctx == "fn":
                lines = PRE + [["fndecl", "w", [], "any", [ret(e)]], ["set", "r", ["expr", ["call", V("w")]]], E(["pre", "deref", V("log")])]
            elif ctx == "fn-param":
                lines = PRE + [["fndecl", "w", [["z", "int"]], "any", [["set", "q", ["expr", e]], ret(V("z"))]],
                               ["set", "r", ["expr", ["call", V("w"), I(0)]]], E(["pre", "deref", V("log")])]
            else:
                lines = PRE + [["set", "k", ["expr", ["mut", None, I(0)]]],
                               ["stm", ["while", ["bin", "<", ["pre", "deref", V("k")], I(2)],
                                        ["block", E(["bin", "+=", V("k"), I(1)]), ["set", "r", ["expr", e]]]]],
                               E(["pre", "deref", V("log")])]
            progs.append(lines)
            expect.append(exp * (2 if ctx == "loop" else 1))
            names.append(f"{name}@{ctx}")
    for name, ls, exp in stm_forms():
        for ctx in ("top", "fn"):
            if ctx == "top":
                lines = PRE + ls + [E(["pre", "deref", V("log")])]
            else:
                lines = PRE + [["fndecl", "w", [], "any", ls + [ret(I(0))]], E(["call", V("w")]), E(["pre", "deref", V("log")])]
            progs.append(lines)
            expect.append(exp)
            names.append(f"{name}@{ctx}")
    rep.exhaustive = True
    mo, io = l7_programs.run_programs(rep, progs, "L7b")
    plain = l7_programs.untyped(io)
    for k, p in enumerate(progs):
        got = plain[k]
        want = "ok " + show_list(expect[k])
        rep.count("L7b." + names[k].split("@")[1])
        if got.startswith("err ") or got.startswith("reject"):
            # a failing operation (e.g. 1 / 0 folded) is outside this lane's claim unless the model disagrees
            rep.count("L7b.not-completed")
            continue
        if got != want:
            rep.violations.append({"property": "C07", "lane": "L7b",
                                   "what": f"{names[k]}: operands evaluated as {got[:200]}, source order/short-circuit rules give {want[:200]}",
                                   "program": sast.program(p[len(PRE):]),
                                   "case": '(run-ty "' + l7_programs.esc(sast.program(p)) + '")'})
    rep.sample({"lane": "L7b", "form": names[7], "program": sast.program(progs[7][len(PRE):]), "expected_log": expect[7]})

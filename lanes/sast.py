"""Surface ASTs of SimpleSL programs as nested Python lists (= the S-expressions the model
driver reads), with a renderer to source text for the implementation.

The renderer parenthesises every nested operator expression, so the text denotes exactly
the AST whatever the precedence table says (precedence itself is C14's business)."""

KEYWORDS = {"true", "false", "mut", "return", "loop", "while", "for", "struct", "mod", "break",
            "continue", "if", "else", "match", "import", "in"}


# ---------- S-expression text ----------
def sx(node):
    if isinstance(node, (list, tuple)):
        return "(" + " ".join(sx(x) for x in node) + ")"
    if isinstance(node, Str):
        return sx_str(node.s)
    if isinstance(node, bool):
        return "true" if node else "false"
    if node is None:
        return "none"
    s = str(node)
    # operator atoms containing characters the reader treats specially are quoted
    if s == "" or any(c in s for c in '()" \\') or s == "\\":
        return sx_str(s)
    return s


class Str:
    """a string payload (as opposed to an atom)"""

    def __init__(self, s):
        self.s = s


def sx_str(s):
    out = '"'
    for ch in s:
        c = ord(ch)
        if c == 34:
            out += '\\"'
        elif c == 92:
            out += "\\\\"
        elif 32 <= c < 127:
            out += ch
        else:
            out += "\\u{%x}" % c
    return out + '"'


# ---------- types ----------
def ty_src(t, top=True):
    if isinstance(t, str):
        return {"void": "()", "never": "!"}.get(t, t)
    h = t[0]
    if h == "fun":
        r = ty_src(t[2], False)
        if isinstance(t[2], list) and t[2][0] == "multi":
            r = "(" + ty_src(t[2]) + ")"
        return "(" + ", ".join(ty_src(p) for p in t[1]) + ")->" + r
    if h == "arr":
        return "[" + ("" if t[1] == "never" else ty_src(t[1])) + "]"
    if h == "tup":
        return "(" + ", ".join(ty_src(x) for x in t[1:]) + ")"
    if h == "multi":
        return "|".join(ty_src(x, False) for x in t[1:])
    if h == "mut":
        inner = ty_src(t[1], False)
        if isinstance(t[1], list) and t[1][0] == "multi":
            inner = "(" + ty_src(t[1]) + ")"
        return "mut " + inner
    if h == "struct":
        return "struct{" + ", ".join(f"{k}: {ty_src(v)}" for k, v in t[1:]) + "}"
    raise ValueError(t)


# ---------- values (literals) ----------
def float_src(bits):
    import struct as _s
    x = _s.unpack("<d", _s.pack("<Q", bits))[0]
    assert x == x and x not in (float("inf"), float("-inf")) and (x > 0 or bits == 0), bits
    r = repr(x)
    if "e" not in r and "." not in r:
        r += ".0"
    return r


def str_src(s):
    out = '"'
    for ch in s:
        if ch == '"':
            out += '\\"'
        elif ch == "\\":
            out += "\\\\"
        elif ch == "\n":
            out += "\\n"
        elif ch == "\t":
            out += "\\t"
        else:
            out += ch
    return out + '"'


def const_src(v):
    if v == "void":
        return "()"
    h = v[0]
    if h == "i":
        assert v[1] >= 0, v
        return str(v[1])
    if h == "f":
        return float_src(v[1])
    if h == "b":
        return "true" if v[1] in (True, "true") else "false"
    if h == "s":
        return str_src(v[1].s if isinstance(v[1], Str) else v[1])
    raise ValueError(v)


# ---------- expressions ----------
PRIMARY = {"id", "c", "tuple", "array", "repeat", "fn", "struct", "mod"}
POSTFIX = {"at", "slice", "call", "tacc", "facc", "tfilter", "post"}


MINIMAL = [False]   # precedence-aware rendering (used only to compare helper sources token by token)
BIN_LEVEL = {"**": 4, "*": 5, "/": 5, "%": 5, "+": 6, "-": 6, "<<": 7, ">>": 7, "&": 8, "^": 9, "|": 10,
             "==": 11, "!=": 11, "<": 11, "<=": 11, ">": 11, ">=": 11, "&&": 12, "||": 13,
             "@": 3, "?": 3, "\\": 3}


def level(e):
    h = e[0]
    if h in PRIMARY or h in POSTFIX and h != "post":
        return 1
    if h == "pre":
        return 2
    if h in ("reduce", "post"):
        return 3
    if h == "bin":
        return BIN_LEVEL.get(e[1], 14)
    return 1


def operand(e, parent, right=False):
    """minimal mode: parenthesise only when the table requires it"""
    if not MINIMAL[0]:
        return paren(e)
    if e[0] == "mut":
        return "(" + ex(e) + ")"
    lv = level(e)
    need = lv > parent or (lv == parent and (right != (parent == 14)))
    return "(" + ex(e) + ")" if need else ex(e)


def paren(e):
    """operand position that must be a primary / postfix chain"""
    if MINIMAL[0]:
        return operand(e, 1)
    h = e[0]
    if h == "fn":
        # `x := (..) {..}(args)` would be read as a function declaration followed by `(args)`
        return "(" + ex(e) + ")"
    if h in PRIMARY and not (h == "c" and e[1] != "void" and e[1][0] in ("i", "f")):
        return ex(e)
    if h in POSTFIX and h != "post":
        return ex(e)
    return "(" + ex(e) + ")"


def params_src(ps):
    return "(" + ", ".join(f"{n}: {ty_src(t)}" for n, t in ps) + ")"


def ret_src(r):
    if r is None:
        return ""
    s = ty_src(r)
    return " -> " + s


def ex(e):
    h = e[0]
    if h == "id":
        return e[1]
    if h == "c":
        return const_src(e[1])
    if h == "mut":
        return "mut " + (ty_src(e[1]) + " " if e[1] is not None else "") + paren_mut(e[2])
    if h == "tuple":
        assert len(e) >= 3
        return "(" + ", ".join(ex(x) for x in e[1:]) + ")"
    if h == "array":
        return "[" + ", ".join(ex(x) for x in e[1:]) + "]"
    if h == "repeat":
        return "[" + ex(e[1]) + "; " + ex(e[2]) + "]"
    if h == "fn":
        return params_src(e[1]) + ret_src(e[2]) + " " + lines_block(e[3])
    if h == "struct":
        return "struct{" + ", ".join(k if v is None else f"{k} := {ex(v)}" for k, v in e[1:]) + "}"
    if h == "mod":
        return "mod " + lines_block(e[1:])
    if h == "pre":
        return {"not": "!", "neg": "-", "deref": "*"}[e[1]] + operand(e[2], 2)
    if h == "bin":
        lv = BIN_LEVEL.get(e[1], 14)
        rhs = operand(e[3], lv, True)
        if e[1] == "?" and not MINIMAL[0] and rhs.startswith(("()", "[]")):
            # `it ? ()` / `it ? [][0]` would be read as the type filter `? ()` / `? []`
            rhs = "(" + rhs + ")"
        return operand(e[2], lv) + " " + e[1] + " " + rhs
    if h == "reduce":
        if MINIMAL[0]:
            init = ex(e[2])
            if init[:1] in "*+&|]":      # `$*x` would be read as the reducer token `$*` followed by x
                init = "(" + init + ")"
            return operand(e[1], 3) + " $" + init + " " + operand(e[3], 3, True)
        # the function must not be wrapped in parentheses: `$(init) (f)` would read `(init)(f)` as a call
        assert e[3][0] in ("fn", "id"), e
        # `$(init) () {..}`: a literal without parameters would be read as the call `(init)()`
        assert not (e[3][0] == "fn" and not e[3][1]), e
        return paren(e[1]) + " $(" + ex(e[2]) + ") " + ex(e[3])
    if h == "at":
        return paren(e[1]) + "[" + ex(e[2]) + "]"
    if h == "slice":
        a, b, c = e[2], e[3], e[4]
        s = (ex(a) if a is not None else "") + ":" + (ex(b) if b is not None else "")
        if c is not None:
            s += ":" + ex(c)
        return paren(e[1]) + "[" + s + "]"
    if h == "call":
        return paren(e[1]) + "(" + ", ".join(ex(x) for x in e[2:]) + ")"
    if h == "tacc":
        return paren(e[1]) + "." + str(e[2])
    if h == "facc":
        return paren(e[1]) + "." + e[2]
    if h == "tfilter":
        return paren(e[1]) + " ? " + ty_src(e[2])
    if h == "post":
        return operand(e[1], 3) + " " + e[2]
    raise ValueError(e)


def paren_mut(e):
    # `mut` swallows a whole expression; a leading type-looking primary must not be read as its type
    if MINIMAL[0]:
        return ex(e)
    return "(" + ex(e) + ")"


# ---------- statements ----------
def body_ok(s):
    return s[0] in ("block", "return")


def cond(e):
    """an expression directly followed by `{`: `() {` would be read as a function literal"""
    t = ex(e)
    return "(" + t + ")" if t.endswith("()") else t


def stm(s):
    if s == "break":
        return "break"
    if s == "continue":
        return "continue"
    h = s[0]
    if h == "expr":
        return ex(s[1])
    if h == "block":
        return lines_block(s[1:])
    if h == "if":
        assert body_ok(s[2]), s
        r = "if " + cond(s[1]) + " " + stm(s[2])
        if s[3] is not None:
            r += " else " + stm(s[3])
        return r
    if h == "ifset":
        assert body_ok(s[4]), s
        r = f"if {s[1]}: {ty_src(s[2])} = " + cond(s[3]) + " " + stm(s[4])
        if s[5] is not None:
            r += " else " + stm(s[5])
        return r
    if h == "match":
        arms = []
        for a in s[2:]:
            assert body_ok(a[-1]), a
            if a[0] == "atype":
                arms.append(f"{a[1]}: {ty_src(a[2])} => {stm(a[3])},")
            elif a[0] == "aval":
                arms.append(", ".join(ex(v) for v in a[1]) + f" => {stm(a[2])},")
            else:
                arms.append(f"=> {stm(a[1])},")
        return "match " + cond(s[1]) + " { " + " ".join(arms) + " }"
    if h == "return":
        return "return" + ("" if s[1] is None else " " + stm(s[1]))
    if h == "loop":
        return "loop " + stm(s[1])
    if h == "while":
        assert s[2][0] == "block"
        return "while " + cond(s[1]) + " " + stm(s[2])
    if h == "whileset":
        assert s[4][0] == "block"
        return f"while {s[1]}: {ty_src(s[2])} = " + cond(s[3]) + " " + stm(s[4])
    if h == "for":
        assert s[3][0] == "block"
        return f"for {s[1]} in " + cond(s[2]) + " " + stm(s[3])
    raise ValueError(s)


def line(l):
    h = l[0]
    if h == "fndecl":
        return f"{l[1]} := " + params_src(l[2]) + ret_src(l[3]) + " " + lines_block(l[4])
    if h == "set":
        s = l[2]
        # `x := (..) {..}` would be read as a function declaration
        if s[0] == "expr" and s[1][0] == "fn":
            return f"{l[1]} := (" + ex(s[1]) + ")"
        return f"{l[1]} := " + stm(s)
    if h == "destruct":
        return "(" + ", ".join(l[1]) + ") := " + stm(l[2])
    if h == "stm":
        return stm(l[1])
    raise ValueError(l)


def lines_block(ls):
    return "{ " + " ".join(line(l) + ";" for l in ls) + " }"


def program(ls):
    return "\n".join(line(l) + ";" for l in ls)


# ---------- small constructors ----------
def I(n):
    return ["c", ["i", n]] if n >= 0 else ["pre", "neg", ["c", ["i", -n]]]


def B(b):
    return ["c", ["b", "true" if b else "false"]]


def S(s):
    return ["c", ["s", Str(s)]]


def V(n):
    return ["id", n]


VOID = ["c", "void"]

"""Lane L2 — scalar operators in literal (folded), run-time and compound-assignment form:
extracted model vs implementation, plus the documented arithmetic (C08) evaluated
independently in Python on the implementation's answers (the property oracle)."""
import math
import struct
from . import common

MIN = -2**63
MAX = 2**63 - 1
SYM = {"add": "+", "sub": "-", "mul": "*", "div": "/", "mod": "%", "pow": "**", "eq": "==",
       "ne": "!=", "gt": ">", "ge": ">=", "lt": "<", "le": "<=", "band": "&", "bor": "|",
       "xor": "^", "shl": "<<", "shr": ">>"}
INT_OPS = list(SYM)
FLOAT_OPS = ["add", "sub", "mul", "div", "eq", "ne", "gt", "ge", "lt", "le"]
BOOL_OPS = ["band", "bor", "xor", "eq", "ne"]
ASSIGNABLE = ["add", "sub", "mul", "div", "mod", "pow", "band", "bor", "xor", "shl", "shr"]
SIX = {"IndexOutOfBounds", "NegativeLength", "NegativeExponent", "ZeroDivision", "ZeroModulo",
       "OverflowShift"}


def int_grid(tier):
    g = {0, 1, -1, 2, -2, 3, -3, 5, 7, -7, 8, 10, 31, 32, 33, 62, 63, 64, 65, -63, -64, 127, 255,
         2**31 - 1, 2**31, -2**31, 2**32 - 1, 2**32, 2**32 + 1, 2**32 + 2, -2**32, 2**33, 2**33 + 1,
         2**62, 2**62 + 1, -2**62, MAX, MAX - 1, MIN, MIN + 1, 3037000499, 3037000500,
         0x5555555555555555, -0x5555555555555556, 2**48 + 3}
    if tier == "thorough":
        g |= {4, 6, 9, 11, 15, 16, 17, 100, -100, 1000, 2**16, 2**40, -2**40, 2**63 - 3, MIN + 2,
              2**32 + 3, 2**34, 2**62 - 1, 4294967311, 12345678901234}
    return sorted(g)


def fbits(x):
    return struct.unpack("<Q", struct.pack("<d", x))[0]


def ffrom(b):
    return struct.unpack("<d", struct.pack("<Q", b))[0]


def float_grid(tier):
    vals = [0.0, -0.0, 5e-324, -5e-324, 2.225073858507201e-308, 2.2250738585072014e-308,
            -2.2250738585072014e-308, 1.0, -1.0, 1.5, -1.5, 0.1, 0.2, 0.3, 3.0, 0.5, 2.0, 1e308,
            -1e308, 1.7976931348623157e308, -1.7976931348623157e308, float("inf"), float("-inf"),
            float("nan"), 9007199254740992.0, 9007199254740993.0, 3.141592653589793, 1e-308,
            1e16, 123456.789, 4.9e-324, 1.0000000000000002, 0.9999999999999999]
    if tier == "thorough":
        vals += [1e-5, 1e5, 7.0, -7.5, 1e300, 1e-300, 2.5, 3.5, 1e22, 1e23, 0.30000000000000004]
    bits = sorted({fbits(v) for v in vals})
    return bits


def wrap(z):
    return (z + 2**63) % 2**64 - 2**63


def tdiv(a, b):
    q = abs(a) // abs(b)
    return q if (a >= 0) == (b >= 0) else -q


def spec_int(op, a, b):
    """the documented arithmetic: ('ok', value) | ('err', name)"""
    if op == "add":
        return ("ok", f"(i {wrap(a + b)})")
    if op == "sub":
        return ("ok", f"(i {wrap(a - b)})")
    if op == "mul":
        return ("ok", f"(i {wrap(a * b)})")
    if op == "div":
        if b == 0:
            return ("err", "ZeroDivision")
        return ("ok", f"(i {wrap(tdiv(a, b))})")
    if op == "mod":
        if b == 0:
            return ("err", "ZeroModulo")
        return ("ok", f"(i {wrap(a - b * tdiv(a, b))})")
    if op == "pow":
        if b < 0:
            return ("err", "NegativeExponent")
        return ("ok", f"(i {wrap(pow(a % 2**64, b, 2**64))})")
    if op == "shl":
        if not 0 <= b <= 63:
            return ("err", "OverflowShift")
        return ("ok", f"(i {wrap(a << b)})")
    if op == "shr":
        if not 0 <= b <= 63:
            return ("err", "OverflowShift")
        return ("ok", f"(i {a >> b})")
    if op == "band":
        return ("ok", f"(i {a & b})")
    if op == "bor":
        return ("ok", f"(i {a | b})")
    if op == "xor":
        return ("ok", f"(i {a ^ b})")
    cmp = {"eq": a == b, "ne": a != b, "gt": a > b, "ge": a >= b, "lt": a < b, "le": a <= b}[op]
    return ("ok", f"(b {'true' if cmp else 'false'})")


def fshow(x):
    return "(f nan)" if x != x else f"(f {fbits(x)})"


def spec_float(op, ab, bb):
    a, b = ffrom(ab), ffrom(bb)
    if op in ("add", "sub", "mul"):
        r = {"add": a + b, "sub": a - b, "mul": a * b}[op]
        return ("ok", fshow(r))
    if op == "div":
        if b == 0.0:
            if a != a or a == 0.0:
                r = float("nan")
            else:
                neg = (math.copysign(1, a) < 0) != (math.copysign(1, b) < 0)
                r = float("-inf") if neg else float("inf")
        else:
            r = a / b
        return ("ok", fshow(r))
    cmp = {"eq": a == b, "ne": a != b, "gt": a > b, "ge": a >= b, "lt": a < b, "le": a <= b}[op]
    return ("ok", f"(b {'true' if cmp else 'false'})")


def lit_int(a):
    if a == MIN:
        return "(-9223372036854775807 - 1)"
    return f"({a})" if a < 0 else str(a)


def lit_float(bits):
    x = ffrom(bits)
    if x != x or x in (float("inf"), float("-inf")):
        return None
    r = repr(abs(x))
    if "e" not in r and "." not in r:
        r += ".0"
    if "e" in r and "." not in r.split("e")[0]:
        pass  # "5e-324" is accepted by the grammar: decimal e [+-] decimal
    neg = math.copysign(1, x) < 0
    return f"(-{r})" if neg else r


def norm(out):
    """map a parse-time report of one of the six runtime errors to the runtime form"""
    if out.startswith("reject "):
        v = out[7:]
        if v in SIX:
            return "err " + v
    return out


def run(rep, tier):
    rnd = common.rng("L2")
    ig = int_grid(tier)
    fg = float_grid(tier)
    model_cases, impl_cases, meta = [], [], []

    def add(form, op, kind, a, b, mcase, icase, spec):
        model_cases.append(mcase)
        impl_cases.append(icase)
        meta.append((form, op, kind, a, b, spec))

    ipairs = [(a, b) for a in ig for b in ig]
    nrand = 20000 if tier == "thorough" else 3000
    for _ in range(nrand):
        k = rnd.random()
        a = rnd.randrange(MIN, MAX + 1) if k < 0.6 else rnd.choice(ig)
        b = (rnd.randrange(MIN, MAX + 1) if k < 0.3 else
             rnd.randrange(-70, 140) if k < 0.8 else rnd.choice(ig))
        ipairs.append((a, b))
    for a, b in ipairs:
        for op in INT_OPS:
            sp = spec_int(op, a, b)
            m = f"(op {op} (i {a}) (i {b}))"
            add("runtime", op, "int", a, b, m,
                f'(call "(a: int, b: int) -> any {{ return a {SYM[op]} b; }}" (i {a}) (i {b}))', sp)
            add("literal", op, "int", a, b, m, f'(run "{lit_int(a)} {SYM[op]} {lit_int(b)}")', sp)
            if op in ASSIGNABLE:
                add("compound", op, "int", a, b, m,
                    f'(call "(a: int, b: int) -> any {{ c := mut a; r := (c {SYM[op]}= b); return (r, *c); }}" (i {a}) (i {b}))',
                    sp)
            # mixed forms: one operand is a literal (the folding pass has special arms for a constant
            # right operand), the other one arrives at run time
            add("rhs-literal", op, "int", a, b, m,
                f'(call "(a: int) -> any {{ return a {SYM[op]} {lit_int(b)}; }}" (i {a}))', sp)
            add("lhs-literal", op, "int", a, b, m,
                f'(call "(b: int) -> any {{ return {lit_int(a)} {SYM[op]} b; }}" (i {b}))', sp)
            if op in ASSIGNABLE:
                add("compound-rhs-literal", op, "int", a, b, m,
                    f'(call "(a: int) -> any {{ c := mut a; r := (c {SYM[op]}= {lit_int(b)}); return (r, *c); }}" (i {a}))',
                    sp)
    fpairs = [(a, b) for a in fg for b in fg]
    for _ in range(nrand // 2):
        fpairs.append((rnd.getrandbits(64), rnd.getrandbits(64)))
    for a, b in fpairs:
        for op in FLOAT_OPS:
            sp = spec_float(op, a, b)
            m = f"(op {op} (f {a}) (f {b}))"
            add("runtime", op, "float", a, b, m,
                f'(call "(a: float, b: float) -> any {{ return a {SYM[op]} b; }}" (f {a}) (f {b}))', sp)
            la, lb = lit_float(a), lit_float(b)
            if la and lb:
                add("literal", op, "float", a, b, m, f'(run "{la} {SYM[op]} {lb}")', sp)
            if op in ASSIGNABLE:
                add("compound", op, "float", a, b, m,
                    f'(call "(a: float, b: float) -> any {{ c := mut a; r := (c {SYM[op]}= b); return (r, *c); }}" (f {a}) (f {b}))',
                    sp)
    for a in (True, False):
        for b in (True, False):
            for op in BOOL_OPS:
                r = {"band": a and b, "bor": a or b, "xor": a != b, "eq": a == b, "ne": a != b}[op]
                sp = ("ok", f"(b {'true' if r else 'false'})")
                sa, sb = str(a).lower(), str(b).lower()
                m = f"(op {op} (b {sa}) (b {sb}))"
                add("runtime", op, "bool", a, b, m,
                    f'(call "(a: bool, b: bool) -> any {{ return a {SYM[op]} b; }}" (b {sa}) (b {sb}))', sp)
                add("literal", op, "bool", a, b, m, f'(run "{sa} {SYM[op]} {sb}")', sp)
    # unary
    for a in ig:
        for op, sym, val in (("neg", "-", wrap(-a)), ("not", "!", ~a)):
            sp = ("ok", f"(i {val})")
            m = f"(unop {op} (i {a}))"
            add("runtime", op, "int", a, None, m, f'(call "(a: int) -> any {{ return {sym} a; }}" (i {a}))', sp)
            add("literal", op, "int", a, None, m, f'(run "{sym} {lit_int(a)}")', sp)
    for a in fg:
        x = ffrom(a)
        sp = ("ok", fshow(-x))
        m = f"(unop neg (f {a}))"
        add("runtime", "neg", "float", a, None, m, f'(call "(a: float) -> any {{ return - a; }}" (f {a}))', sp)
    for a in (True, False):
        sa = str(a).lower()
        sp = ("ok", f"(b {'false' if a else 'true'})")
        add("runtime", "not", "bool", a, None, f"(unop not (b {sa}))",
            f'(call "(a: bool) -> any {{ return ! a; }}" (b {sa}))', sp)
        add("literal", "not", "bool", a, None, f"(unop not (b {sa}))", f'(run "! {sa}")', sp)

    # the model is asked each distinct case once
    uniq = sorted(set(model_cases))
    mo = dict(zip(uniq, common.run_cases(common.DRIVER, uniq)))
    io = common.run_cases(common.HARNESS, impl_cases)
    rep.evaluations += len(impl_cases) + len(uniq)
    rep.compared += len(impl_cases)
    rep.distinct.update(impl_cases)
    common.attribute_panics(rep, "L2", impl_cases, io)
    for i in (0, 1, 2, len(impl_cases) // 2, len(impl_cases) - 1):
        rep.sample({"lane": "L2", "impl_case": impl_cases[i], "model_case": model_cases[i],
                    "impl": io[i], "model": mo[model_cases[i]]})
    for k, (form, op, kind, a, b, spec) in enumerate(meta):
        rep.count(f"L2.{form}.{kind}")
        got = norm(io[k])
        exp_m = mo[model_cases[k]]
        exp_s = ("ok " + spec[1]) if spec[0] == "ok" else ("err " + spec[1])
        if form.startswith("compound"):
            if exp_m.startswith("ok "):
                exp_m = f"ok (tup {exp_m[3:]} {exp_m[3:]})"
            if exp_s.startswith("ok "):
                exp_s = f"ok (tup {exp_s[3:]} {exp_s[3:]})"
        if got.startswith("err "):
            rep.count("L2.err." + got[4:])
        if got != exp_s:
            rep.violations.append({
                "property": "C08", "lane": "L2",
                "what": f"{kind} `{op}` in {form} form: implementation gives {got}, documented arithmetic gives {exp_s}",
                "case": impl_cases[k], "op": op, "form": form})
        if got != exp_m:
            rep.disagreements.append({"lane": "L2", "case": impl_cases[k], "model": exp_m, "impl": got,
                                      "model_case": model_cases[k]})

"""Type universe for lane L1: closed under all 13 constructors up to a depth."""
import itertools

BASE = ["bool", "int", "float", "string", "void", "any", "never"]
FIELDS = ["a", "b", "c"]


def depth1(base, rnd, full=True):
    out = []
    for b in base:
        out.append(f"(arr {b})")
        if b != "void" or True:
            out.append(f"(mut {b})")
        out.append(f"(fun () {b})")
        out.append(f"(struct (a {b}))")
    pairs = list(itertools.product(base, repeat=2))
    if not full:
        pairs = rnd.sample(pairs, min(len(pairs), 30))
    for a, b in pairs:
        out.append(f"(tup {a} {b})")
        out.append(f"(fun ({a}) {b})")
        if a < b and a not in ("any", "never") and b not in ("any", "never"):
            out.append(f"(multi {a} {b})")
        out.append(f"(struct (a {a}) (b {b}))")
    out.append("(struct)")
    out.append("(fun (int int) int)")
    out.append("(tup int int int)")
    out.append("(multi int float string)")
    out.append("(multi bool void string)")
    return out


def universe(rnd, n_depth1=120, n_depth2=80):
    """A deterministic (seeded) universe: all base types, a sample of depth-1 types
    covering every constructor, and depth-2 types built from depth<=1 parts."""
    d0 = list(BASE)
    d1_all = depth1(d0, rnd)
    # keep at least two of every constructor
    by_head = {}
    for t in d1_all:
        by_head.setdefault(t.split(" ")[0], []).append(t)
    d1 = []
    for head, ts in sorted(by_head.items()):
        k = max(2, n_depth1 * len(ts) // len(d1_all))
        d1.extend(rnd.sample(ts, min(len(ts), k)))
    parts = d0 + d1
    d2 = []
    ctors = ["arr", "mut", "fun0", "fun1", "fun2", "tup2", "tup3", "multi2", "multi3",
             "struct1", "struct2", "iter", "mutmulti", "arrmulti"]
    simple = [p for p in parts if not p.startswith("(multi") and p not in ("any", "never")]
    for i in range(n_depth2):
        c = ctors[i % len(ctors)]
        p = lambda: rnd.choice(parts)
        s = lambda: rnd.choice(simple)
        if c == "arr":
            d2.append(f"(arr {p()})")
        elif c == "mut":
            d2.append(f"(mut {p()})")
        elif c == "fun0":
            d2.append(f"(fun () {p()})")
        elif c == "fun1":
            d2.append(f"(fun ({p()}) {p()})")
        elif c == "fun2":
            d2.append(f"(fun ({p()} {p()}) {p()})")
        elif c == "tup2":
            d2.append(f"(tup {p()} {p()})")
        elif c == "tup3":
            d2.append(f"(tup {p()} {p()} {p()})")
        elif c == "multi2":
            d2.append(f"(multi {s()} {s()})")
        elif c == "multi3":
            d2.append(f"(multi {s()} {s()} {s()})")
        elif c == "struct1":
            d2.append(f"(struct ({rnd.choice(FIELDS)} {p()}))")
        elif c == "struct2":
            d2.append(f"(struct (a {p()}) ({rnd.choice(FIELDS[1:])} {p()}))")
        elif c == "iter":
            d2.append(f"(fun () (tup bool {p()}))")
        elif c == "mutmulti":
            d2.append(f"(mut (multi {s()} {s()}))")
        elif c == "arrmulti":
            d2.append(f"(arr (multi {s()} {s()}))")
    seen = set()
    out = []
    for t in d0 + d1 + d2:
        if t not in seen:
            seen.add(t)
            out.append(t)
    return out


def random_type(rnd, depth):
    """Grammar-directed random type of nesting <= depth (used for sampled triples)."""
    if depth <= 0 or rnd.random() < 0.25:
        return rnd.choice(BASE)
    r = lambda: random_type(rnd, depth - 1)

    def simple():
        for _ in range(10):
            t = r()
            if not t.startswith("(multi") and t not in ("any", "never"):
                return t
        return "int"
    c = rnd.randrange(9)
    if c == 0:
        return f"(arr {r()})"
    if c == 1:
        return f"(mut {r()})"
    if c == 2:
        n = rnd.randrange(3)
        return f"(fun ({' '.join(r() for _ in range(n))}) {r()})"
    if c == 3:
        n = 2 + rnd.randrange(2)
        return f"(tup {' '.join(r() for _ in range(n))})"
    if c in (4, 5):
        n = 2 + rnd.randrange(2)
        return f"(multi {' '.join(simple() for _ in range(n))})"
    if c == 6:
        n = rnd.randrange(3)
        fs = rnd.sample(FIELDS, n)
        return "(struct" + "".join(f" ({k} {r()})" for k in fs) + ")"
    if c == 7:
        return f"(fun () (tup bool {r()}))"
    return rnd.choice(BASE)

"""Lane L7m: type-confusing mutations of well-typed generated programs.

The typed generator (progen) only produces programs the checker accepts, so the rejecting half of
the checker (the guards whose absence lets an ill-typed program through to a panic, C02/C03, or to
a value outside its static type, C01) is exercised by L7 only through the crafted corpus.  This lane
takes generated programs and applies one or two random AST-level mutations that usually make them
ill-typed in a specific place: an expression replaced by one of another type, two expressions
swapped, a declared type (parameter, result, cell, binder, filter) changed, an operator changed, a
`return` turned into `break`/`continue`/bare `return`, a line deleted or duplicated, a binder
renamed.  Model and implementation must then agree on accept/reject, error variant, value and
static type; a panic of the implementation is a violation with the program as the failing input.
"""
import copy

from . import common, progen, sast, l7_programs
from .sast import I, B, S, VOID

EXPR = {"id", "c", "mut", "tuple", "array", "repeat", "fn", "struct", "pre", "bin", "reduce", "at", "slice",
        "call", "tacc", "facc", "tfilter", "post"}
BINOPS = ["+", "-", "*", "/", "%", "**", "<<", ">>", "&", "|", "^", "==", "!=", "<", "<=", ">", ">=", "&&", "||",
          "@", "?"]
ASSIGN = ["=", "+=", "-=", "*=", "/=", "%=", "**=", "<<=", ">>=", "&=", "|=", "^="]
TYPES = ["int", "bool", "float", "string", "void", ["arr", "int"], ["arr", "string"], ["tup", "int", "bool"],
         ["mut", "int"], ["mut", ["arr", "int"]], ["multi", "int", "string"], ["multi", "int", "void"],
         ["fun", [], ["tup", "bool", "int"]], ["fun", ["int"], "int"], ["struct", ["a", "int"], ["b", "string"]],
         ["arr", ["multi", "int", "string"]], ["mut", ["multi", "int", "string"]], "any"]


def is_expr(n):
    if not (isinstance(n, list) and n and isinstance(n[0], str) and n[0] in EXPR):
        return False
    if n[0] == "mut":
        return len(n) == 3
    if n[0] == "struct":
        # struct expression: (struct (k v) ..) with v an expression or None; struct type: v a type
        return all(isinstance(f, (list, tuple)) and len(f) == 2 and (f[1] is None or is_expr(f[1])) for f in n[1:])
    return True


def walk(n, path, out, skip_types=True):
    """collect (kind, path): 'expr' nodes, 'type' slots, 'lines' containers, 'stm' nodes"""
    if not isinstance(n, (list, tuple)):
        return
    if isinstance(n, tuple):
        for k, x in enumerate(n):
            walk(x, path + [k], out)
        return
    h = n[0] if n and isinstance(n[0], str) else None
    tslots = []
    if h in EXPR and is_expr(n):
        out.append(("expr", path))
        if h == "c":
            return
        if h == "mut":
            tslots = [1]
        elif h == "fn":
            tslots = [2]
            for k, (pn, pt) in enumerate(n[1]):
                out.append(("ptype", path + [1, k]))
            out.append(("lines", path + [3]))
            for k, x in enumerate(n[3]):
                walk(x, path + [3, k], out)
            out.append(("type", path + [2]))
            return
        elif h == "tfilter":
            tslots = [2]
    elif h in ("ifset", "whileset"):
        tslots = [2]
        out.append(("binder", path + [1]))
    elif h == "for":
        out.append(("binder", path + [1]))
    elif h == "atype":
        tslots = [2]
        out.append(("binder", path + [1]))
    elif h == "fndecl":
        for k, (pn, pt) in enumerate(n[2]):
            out.append(("ptype", path + [2, k]))
        out.append(("type", path + [3]))
        out.append(("lines", path + [4]))
        for k, x in enumerate(n[4]):
            walk(x, path + [4, k], out)
        return
    elif h == "match":
        out.append(("match", path))
    elif h == "block":
        out.append(("block", path))
    elif h == "return":
        out.append(("return", path))
    elif h == "bin":
        pass
    for k, x in enumerate(n):
        if k in tslots:
            out.append(("type", path + [k]))
            continue
        if k == 0 and isinstance(x, str):
            continue
        walk(x, path + [k], out)


def maybe_float(n):
    """the expression may evaluate to a float as far as its syntax tells: it holds a float literal or
    something whose type is not evident (a name, a call, an access)"""
    if isinstance(n, (list, tuple)):
        if n and n[0] in ("id", "call", "facc", "tacc", "at", "reduce", "post"):
            return True
        if len(n) == 2 and n[0] == "c" and isinstance(n[1], (list, tuple)) and n[1] and n[1][0] == "f":
            return True
        return any(maybe_float(x) for x in n)
    return False


def bare_std(n, under_facc):
    """`std` used other than as the base of a field access (the model's std holds `len` only)"""
    if isinstance(n, (list, tuple)):
        if len(n) == 2 and n[0] == "id" and n[1] == "std":
            return not under_facc
        if n and n[0] == "facc" and len(n) == 3:
            return bare_std(n[1], n[2] == "len")
        return any(bare_std(x, False) for x in n)
    return False


def get(n, path):
    for k in path:
        n = n[k]
    return n


def put(root, path, v):
    n = root
    for k in path[:-1]:
        n = n[k]
    if isinstance(n, tuple):
        raise TypeError("tuple parent")
    n[path[-1]] = v


def foreign_exprs(rnd, ids):
    pool = [I(0), I(1), I(7), B(True), B(False), S("s"), S(""), VOID, ["c", ["f", 4607182418800017408]],
            ["array", I(1), I(2)], ["array", S("a")], ["tuple", I(1), B(True)], ["tuple", I(1), S("x")],
            ["mut", None, I(1)], ["mut", ["multi", "int", "string"], I(1)],
            ["struct", ["a", I(1)], ["b", S("z")]],
            ["fn", [], None, [["stm", ["return", ["expr", I(1)]]]]],
            ["fn", [["q", "int"]], "int", [["stm", ["return", ["expr", ["id", "q"]]]]]],
            ["post", ["array", I(1), I(2)], "~"],
            ["repeat", I(0), I(2)],
            ["array", I(1), S("x")],
            ["at", ["array"], I(0)],                      # typed `!`
            ["call", ["fn", [], "never", [["stm", ["return", ["expr", ["at", ["array"], I(0)]]]]]]]]
    if ids and rnd.random() < 0.5:
        return ["id", rnd.choice(ids)]
    return copy.deepcopy(rnd.choice(pool))


def mutate(rnd, prog):
    """one random mutation; returns (new_program, kind) or None"""
    p = copy.deepcopy(prog)
    sites = []
    for k, l in enumerate(p):
        walk(l, [k], sites)
    # `std` is never used as a value of its own: the model's std holds `len` only
    ids = sorted({get(p, s[1])[1] for s in sites if s[0] == "expr" and get(p, s[1])[0] == "id"} - {"std"})
    exprs = [s[1] for s in sites if s[0] == "expr" and len(s[1]) > 0]
    kind = rnd.choice(["replace", "replace", "replace", "swap", "type", "type", "ptype", "op", "return", "delete",
                       "dup", "binder", "unwrap", "wrap", "arms"])
    try:
        if kind == "replace" and exprs:
            path = rnd.choice(exprs)
            put(p, path, foreign_exprs(rnd, ids))
        elif kind == "swap" and len(exprs) >= 2:
            a, b = rnd.sample(exprs, 2)
            if a == b[:len(a)] or b == a[:len(b)]:
                return None
            ea, eb = copy.deepcopy(get(p, a)), copy.deepcopy(get(p, b))
            put(p, a, eb)
            put(p, b, ea)
        elif kind == "type":
            ts = [s[1] for s in sites if s[0] == "type"]
            if not ts:
                return None
            path = rnd.choice(ts)
            old = get(p, path)
            new = rnd.choice(TYPES + [None]) if old is not None else rnd.choice(TYPES)
            if new == old:
                return None
            parent = get(p, path[:-1])
            if new is None and parent[0] not in ("fn", "fndecl", "mut"):
                return None
            put(p, path, copy.deepcopy(new))
        elif kind == "ptype":
            ts = [s[1] for s in sites if s[0] == "ptype"]
            if not ts:
                return None
            path = rnd.choice(ts)
            n, t = get(p, path)
            put(p, path, [n, copy.deepcopy(rnd.choice(TYPES))])
        elif kind == "op":
            bs = [q for q in exprs if get(p, q)[0] == "bin"]
            if not bs:
                return None
            e = get(p, rnd.choice(bs))
            new_op = rnd.choice(ASSIGN if e[1] in ASSIGN else BINOPS)
            if new_op in ("**", "**=") and (maybe_float(e[2]) or maybe_float(e[3])):
                # float ** float is outside the program model (its pow is a stub): `**` only where no operand
                # can be a float
                return None
            e[1] = new_op
        elif kind == "return":
            rs = [s[1] for s in sites if s[0] == "return"]
            if not rs:
                return None
            path = rnd.choice(rs)
            put(p, path, rnd.choice(["break", "continue", ["return", None], ["expr", VOID]]))
        elif kind in ("delete", "dup"):
            conts = [(p, None)] + [(get(p, s[1]), s[1]) for s in sites if s[0] == "lines"]
            conts += [(get(p, s[1]), "block") for s in sites if s[0] == "block"]
            cont, tag = rnd.choice(conts)
            lo = 1 if tag == "block" else 0
            if len(cont) - lo < 1:
                return None
            k = rnd.randrange(lo, len(cont))
            if kind == "delete":
                del cont[k]
            else:
                cont.insert(rnd.randrange(lo, len(cont) + 1), copy.deepcopy(cont[k]))
        elif kind == "arms":
            # drop arms of a `match` (all of them, or all but one); sometimes make the scrutinee `!`
            ms = [s[1] for s in sites if s[0] == "match"]
            if not ms:
                return None
            mnode = get(p, rnd.choice(ms))
            keep = [] if rnd.random() < 0.5 else [rnd.choice(mnode[2:])] if len(mnode) > 2 else []
            del mnode[2:]
            mnode.extend(keep)
            if rnd.random() < 0.5:
                mnode[1] = ["at", ["array"], I(0)]
        elif kind == "binder":
            bs = [s[1] for s in sites if s[0] == "binder"]
            if not bs or not ids:
                return None
            put(p, rnd.choice(bs), rnd.choice(ids))
        elif kind == "unwrap" and exprs:
            # replace an expression by one of its own subexpressions (e.g. `f(x)` by `f`, `a[i]` by `a`)
            cands = [q for q in exprs if any(r[:len(q)] == q and len(r) > len(q) for r in exprs)]
            if not cands:
                return None
            q = rnd.choice(cands)
            subs = [r for r in exprs if r[:len(q)] == q and len(r) > len(q)]
            put(p, q, copy.deepcopy(get(p, rnd.choice(subs))))
        elif kind == "wrap" and exprs:
            q = rnd.choice(exprs)
            e = copy.deepcopy(get(p, q))
            w = rnd.choice([lambda e: ["at", e, I(0)], lambda e: ["tacc", e, 0], lambda e: ["tacc", e, 1],
                            lambda e: ["call", e], lambda e: ["call", e, I(1)], lambda e: ["pre", "deref", e],
                            lambda e: ["pre", "neg", e], lambda e: ["pre", "not", e], lambda e: ["post", e, "~"],
                            lambda e: ["post", e, "$+"], lambda e: ["post", e, "$]"], lambda e: ["post", e, "$&&"],
                            lambda e: ["facc", e, "a"], lambda e: ["slice", e, I(0), None, None],
                            lambda e: ["array", e, I(1)], lambda e: ["mut", None, e],
                            lambda e: ["tfilter", e, "int"], lambda e: ["bin", "+", e, I(1)],
                            lambda e: ["bin", "+", e, S("x")], lambda e: ["bin", "@", e, ["fn", [["q", "int"]], "int", [["stm", ["return", ["expr", ["id", "q"]]]]]]],
                            lambda e: ["reduce", e, I(0), ["fn", [["a9", "int"], ["c9", "int"]], "int", [["stm", ["return", ["expr", ["bin", "+", ["id", "a9"], ["id", "c9"]]]]]]]],
                            lambda e: ["reduce", e, S("z"), ["fn", [["a9", "int"], ["c9", "int"]], "int", [["stm", ["return", ["expr", ["bin", "+", ["id", "a9"], ["id", "c9"]]]]]]]]])
            put(p, q, w(e))
        else:
            return None
    except (TypeError, IndexError, KeyError):
        return None
    if p == prog or bare_std(p, False):
        return None
    try:
        sast.program(p)
        for l in p:
            sast.sx(l)
    except Exception:
        return None     # not renderable (the renderer's own side conditions): not a test case
    return p, kind


def run(rep, tier):
    rnd = common.rng("L7m")
    n = 12000 if tier == "thorough" else 2500
    per = 4
    progs, kinds = [], []
    seen = set()
    for k in range(n):
        base, _ = progen.program(rnd, n_lines=rnd.randrange(2, 8), max_depth=rnd.choice([2, 3, 3]))
        for j in range(per):
            m = mutate(rnd, base)
            if m is None:
                continue
            q, kind = m
            if rnd.random() < 0.25:
                m2 = mutate(rnd, q)
                if m2 is not None:
                    q, kind = m2[0], kind + "+" + m2[1]
            t = sast.program(q)
            if t in seen:
                continue
            seen.add(t)
            progs.append(q)
            kinds.append(kind)
    for kd in kinds:
        rep.count("L7m.mut." + kd.split("+")[0])
    for p in progs[:2]:
        rep.sample({"lane": "L7m", "program": sast.program(p)})
    l7_programs.run_programs(rep, progs, "L7m")

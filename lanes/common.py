"""Shared plumbing for the correspondence lanes and the check driver."""
import hashlib
import json
import os
import random
import subprocess
import sys
import time
from concurrent.futures import ThreadPoolExecutor

VERIF = os.path.dirname(os.path.dirname(os.path.abspath(__file__)))
REPO = os.environ.get("VERIF_REPO", "/repo")
BUILD = os.path.join(VERIF, "build")
DRIVER = os.path.join(BUILD, "ocaml", "driver")
HARNESS_DIR = os.path.join(VERIF, "harness")
if os.path.realpath(REPO) != "/repo":
    # checks run against another checkout (a scratch worktree carrying a seeded change): build a
    # separate copy of the harness whose path dependency points there, with its own target dir
    import shutil
    _alt = os.path.join(BUILD, "harness_alt_" + hashlib.sha256(os.path.realpath(REPO).encode()).hexdigest()[:8])
    os.makedirs(os.path.join(_alt, ".cargo"), exist_ok=True)
    if os.path.isdir(os.path.join(_alt, "src")):
        shutil.rmtree(os.path.join(_alt, "src"))
    shutil.copytree(os.path.join(HARNESS_DIR, "src"), os.path.join(_alt, "src"))
    _toml = open(os.path.join(HARNESS_DIR, "Cargo.toml")).read().replace('"/repo/parser"', '"%s/parser"' % os.path.realpath(REPO)).replace('"/repo"', '"%s"' % os.path.realpath(REPO))
    open(os.path.join(_alt, "Cargo.toml"), "w").write(_toml)
    shutil.copy(os.path.join(HARNESS_DIR, "Cargo.lock"), os.path.join(_alt, "Cargo.lock"))
    shutil.copy(os.path.join(HARNESS_DIR, ".cargo", "config.toml"), os.path.join(_alt, ".cargo", "config.toml"))
    HARNESS_DIR = _alt
HARNESS = os.path.join(HARNESS_DIR, "target", "debug", "verif_harness")
NPROC = min(16, os.cpu_count() or 4)


def seed():
    try:
        return int(os.environ.get("VERIF_SEED", "20260925"))
    except ValueError:
        return 20260925


def rng(tag=""):
    """Every random choice derives from VERIF_SEED (+ a lane tag)."""
    h = hashlib.sha256(f"{seed()}:{tag}".encode()).hexdigest()
    return random.Random(int(h[:16], 16))


def sh(cmd, cwd=None, timeout=3600, env=None, check=False):
    e = dict(os.environ)
    e.update({"CARGO_NET_OFFLINE": "true"})
    if env:
        e.update(env)
    p = subprocess.run(cmd, cwd=cwd, shell=isinstance(cmd, str), timeout=timeout,
                       stdout=subprocess.PIPE, stderr=subprocess.STDOUT, env=e, text=True)
    if check and p.returncode != 0:
        raise RuntimeError(f"command failed ({p.returncode}): {cmd}\n{p.stdout[-4000:]}")
    return p.returncode, p.stdout


def _run_once(binary, lines, timeout, env=None):
    data = "\n".join(lines) + "\n"
    e = dict(os.environ)
    if env:
        e.update(env)
    try:
        p = subprocess.run([binary], input=data.encode(), stdout=subprocess.PIPE,
                           stderr=subprocess.PIPE, timeout=timeout, env=e)
    except subprocess.TimeoutExpired:
        return None, None
    out = p.stdout.decode("utf-8", "replace").split("\n")
    if out and out[-1] == "":
        out.pop()
    return out, p.returncode


CASE_TIMEOUT = 30


def _run_shard(binary, lines, timeout, env=None):
    """One process per shard.  When the process dies (abort / stack overflow) the case it died on is
    marked `!died` and the rest of the shard is run again; when the shard runs out of time every
    case of it is run again on its own under CASE_TIMEOUT, so that one non-terminating case is
    reported as `!timeout` for that case and does not hide the others."""
    res = []
    rest = list(lines)
    while rest:
        out, rc = _run_once(binary, rest, timeout, env)
        if out is None:
            if len(rest) == 1:
                res.append("!timeout")
                break
            with ThreadPoolExecutor(max_workers=NPROC) as ex:
                singles = list(ex.map(lambda c: _run_once(binary, [c], CASE_TIMEOUT, env), rest))
            for o, r in singles:
                if o is None:
                    res.append("!timeout")
                elif len(o) != 1:
                    res.append("!died rc=%s" % r)
                else:
                    res.append(o[0])
            break
        if len(out) >= len(rest):
            res.extend(out[:len(rest)])
            break
        res.extend(out)
        res.append("!died rc=%d" % rc)
        rest = rest[len(out) + 1:]
    return res


def run_cases(binary, cases, shards=NPROC, timeout=600, env=None):
    """Feed the case lines to `binary`, split over processes; keep order."""
    if not cases:
        return []
    shards = max(1, min(shards, (len(cases) + 199) // 200))
    size = (len(cases) + shards - 1) // shards
    chunks = [cases[i:i + size] for i in range(0, len(cases), size)]
    with ThreadPoolExecutor(max_workers=len(chunks)) as ex:
        outs = list(ex.map(lambda c: _run_shard(binary, c, timeout, env), chunks))
    res = []
    for o in outs:
        res.extend(o)
    return res


def run_both(cases, **kw):
    m = run_cases(DRIVER, cases, **kw)
    i = run_cases(HARNESS, cases, **kw)
    return m, i


class Report:
    """Collects what one check run did; turned into evidence + verdict."""

    def __init__(self, prop, tier):
        self.prop = prop
        self.tier = tier
        self.t0 = time.time()
        self.evaluations = 0
        self.distinct = set()
        self.samples = []
        self.compared = 0
        self.disagreements = []       # (lane, case, model, impl)
        self.violations = []          # dicts: {what, replay(dict)}
        self.known = []               # strings
        self.notes = []
        self.dist = {}
        self.obligations = 0
        self.discharged = 0
        self.theorems = []
        self.assumptions = {}
        self.proof_errors = []
        self.trusted = []
        self.exhaustive = None
        self.refuted_forms = []

    def count(self, key, n=1):
        self.dist[key] = self.dist.get(key, 0) + n

    def sample(self, s, limit=12):
        if len(self.samples) < limit:
            self.samples.append(s)

    def note(self, s):
        self.notes.append(s)
        print("  note:", s, flush=True)


def canon_hash(obj):
    return hashlib.sha256(json.dumps(obj, sort_keys=True).encode()).hexdigest()[:16]


def log(*a):
    print(*a, flush=True)


def attribute_panics(rep, lane, cases, outs):
    """A panic of the implementation on a program-carrying case ((run|run-t|run-ty|call|call-t "text" ..))
    is a violation of C03 when `Code::parse` alone panics on the text, of C02 otherwise (the program
    was accepted and panicked while running).  Appends the violations to rep."""
    import re
    pk = []
    for c, o in zip(cases, outs):
        if o.startswith("!panic"):
            m = re.match(r'^\((?:run|run-t|run-ty|call|call-t) ("(?:[^"\\]|\\.)*")', c)
            if m:
                pk.append((c, o, m.group(1)))
    if not pk:
        return
    po = run_cases(HARNESS, [f"(parse-ty {t})" for _, _, t in pk], timeout=120)
    for (c, o, t), q in zip(pk, po):
        prop = "C03" if q.startswith("!") else "C02"
        rep.violations.append({"property": prop, "lane": lane, "case": c,
                               "what": ("Code::parse panics: " if prop == "C03" else "an accepted program panics: ") + o[:200]})

"""Lane L9 — embedding API (C17): statement sequences run as one program (batch) and fed one
statement at a time to one interpreter (REPL route); exec repeatability/isolation; host calls
accept exactly what in-language calls accept."""
from . import common, progen, sast, l7_programs
from .sast import I, S, B, V


def top_names(lines):
    out = []
    for l in lines:
        if l[0] in ("set", "fndecl"):
            if l[1] not in out:
                out.append(l[1])
        elif l[0] == "destruct":
            for n in l[1]:
                if n not in out:
                    out.append(n)
    return out


def q(text):
    return '"' + l7_programs.esc(text) + '"'


def parse_repl(out):
    # "[res vars] [res vars] ..."
    items, depth, cur = [], 0, ""
    for ch in out:
        if ch == "[" and depth == 0:
            depth, cur = 1, ""
        elif ch == "[":
            depth += 1
            cur += ch
        elif ch == "]":
            depth -= 1
            if depth == 0:
                items.append(cur)
            else:
                cur += ch
        elif depth > 0:
            cur += ch
    return items


def run(rep, tier):
    rnd = common.rng("L9")
    n = 1500 if tier == "thorough" else 250
    cases, meta = [], []
    mcases = []      # (index of the harness case, the same session for the model: ocaml/lane_repl.ml over Model/Repl.v's route)
    for k in range(n):
        p, _ = progen.program(rnd, n_lines=rnd.randrange(2, 7), max_depth=rnd.choice([2, 3]))
        lines = p[:-1]            # without the final observation tuple
        names = [x for x in top_names(lines) if not x.startswith("f") or True]
        names_sx = "(" + " ".join(names) + ")"
        stmts = [sast.line(l) for l in lines]
        cases.append(f"(repl {names_sx} " + " ".join(q(s) for s in stmts) + ")")
        meta.append(("repl", k, len(stmts), names))
        mcases.append((len(cases) - 1, f"(repl {names_sx} " + " ".join(sast.sx(l) for l in lines) + ")"))
        for j in range(1, len(stmts) + 1):
            cases.append(f"(batch {names_sx} " + q(";\n".join(stmts[:j]) + ";") + ")")
            meta.append(("batch", k, j, names))
        # a two-chunk split as well: first j statements in one input, rest one by one
        if len(stmts) >= 3:
            j = rnd.randrange(1, len(stmts))
            chunk = ";\n".join(stmts[:j]) + ";"
            cases.append(f"(repl {names_sx} " + q(chunk) + " " + " ".join(q(s) for s in stmts[j:]) + ")")
            meta.append(("repl-split", k, j, names))
            mcases.append((len(cases) - 1, f"(repl {names_sx} (input " + " ".join(sast.sx(l) for l in lines[:j]) + ") "
                           + " ".join(sast.sx(l) for l in lines[j:]) + ")"))
    # crafted sessions: state carried from one input to the next in every way the language offers
    CRAFTED = [
        ["c := mut 0", "c += 1", "f := () -> int { return *c }", "c = 5", "r := f()"],
        ["x := mut 1", "get := () -> int { return *x }", "x = 5", "r := get()"],
        ["x := 5", "double := (x: int) -> int { return x * 2 }", "r := double(1)"],
        ["x := 5", "y := { x := 7; x + 1 }", "z := x"],
        ["f := (n: int) -> int { return 100 + n }", "f := (n: int) -> int { if n == 0 { return 1 } return f(n - 1) }", "r := f(3)"],
        ["a := [1, 2, 3]", "it := a~", "p := it()", "q := it()", "rest := it $]"],
        ["x := 1", "x := \"s\"", "y := x + \"t\""],
        ["k := 2", "g := () -> int { return k * 10 }", "k := 3", "r := (g(), k)"],
        ["m := mod { a := 1; b := () -> int { return a + 1 } }", "r := m.b()", "a := 5", "r2 := m.b()"],
        ["(a, b) := (1, \"x\")", "c := (b, a)", "(a, b) := c"],
        ["s := struct{a := 1, b := mut 2}", "s.b += 1", "r := *s.b"],
        ["x := if true { 1 } else { \"a\" }", "r := match x { i: int => { i + 1 }, t: string => { 0 }, }"],
        ["n := mut 0", "for i in [1, 2, 3]~ { n += i }", "r := *n", "n = 10", "r2 := *n"],
        # S28 (known finding): the declared type of the cell of an un-annotated `mut x` is the static type
        # of x -- the declared union in the batch route, the type of the actual value in the REPL route
        ["c := mut 0", "x := if *c == 0 { 1 } else { \"a\" }", "m := mut x",
         "r := match m { a: mut int => { 1 }, b: mut (int|string) => { 2 }, => { 3 }, }"],
        # S28, second form: the value read from a `mut [float]` cell is `[]` at type [!] for the REPL route, [float]
        # for the batch route; `$+` plants its reducer from that static type
        ["a := mut [float] []", "x := *a", "s := x~ $+"],
    ]
    for stmts in CRAFTED:
        names = []
        for st in stmts:
            head = st.split(":=")[0].strip() if ":=" in st.split("{")[0] else ""
            for nm in head.strip("()").split(","):
                nm = nm.strip()
                if nm and nm.replace("_", "").isalnum() and nm not in names:
                    names.append(nm)
        k = len(meta) + 100000
        names_sx = "(" + " ".join(names) + ")"
        cases.append(f"(repl {names_sx} " + " ".join(q(s) for s in stmts) + ")")
        meta.append(("repl", k, len(stmts), names))
        for j in range(1, len(stmts) + 1):
            cases.append(f"(batch {names_sx} " + q(";\n".join(stmts[:j]) + ";") + ")")
            meta.append(("batch", k, j, names))
    rep.count("L9.crafted-sessions", len(CRAFTED))
    out = common.run_cases(common.HARNESS, cases, timeout=900)
    rep.evaluations += len(cases)
    rep.distinct.update(cases)
    # model REPL vs implementation REPL, step by step (acceptance class, result, every top-level variable)
    mout = common.run_cases(common.DRIVER, [c for _, c in mcases], env={"VERIF_HELPERS": l7_programs.HELPERS}, timeout=600)
    rep.evaluations += len(mcases)
    for (idx, mc), mo_ in zip(mcases, mout):
        ms, is_ = parse_repl(mo_), parse_repl(out[idx])
        if mo_.startswith("!") or any("!fuel" in x for x in ms):
            rep.count("L9.model-repl.skipped")
            continue
        rep.compared += 1
        rep.count("L9.model-repl.compared")
        norm = lambda x: "reject" if x.startswith("reject") else x
        if [norm(x) for x in ms] != [norm(x) for x in is_]:
            j = next((i for i, (a, b) in enumerate(zip(ms, is_)) if norm(a) != norm(b)), min(len(ms), len(is_)))
            rep.disagreements.append({"lane": "L9", "case": cases[idx], "model_case": mc,
                                      "model": (ms[j] if j < len(ms) else "<no step>")[:400],
                                      "impl": (is_[j] if j < len(is_) else "<no step>")[:400], "step": j + 1})
    by_prog = {}
    for c, m, o in zip(cases, meta, out):
        by_prog.setdefault(m[1], []).append((c, m, o))
    for k, items in by_prog.items():
        repl = [x for x in items if x[1][0] == "repl"][0]
        steps = parse_repl(repl[2])
        batches = {x[1][2]: x for x in items if x[1][0] == "batch"}
        for j, step in enumerate(steps, 1):
            b = batches.get(j)
            if b is None:
                continue
            bo = b[2]
            rep.compared += 1
            if "!panic" in step or "!panic" in bo:
                rep.violations.append({"property": "C02", "lane": "L9", "what": "panic in REPL or batch route: " + (step if "!panic" in step else bo)[:200],
                                       "case": repl[0] if "!panic" in step else b[0]})
                break
            # compare only while both routes run to completion
            if not step.startswith("ok ") or not bo.startswith("[ok "):
                rep.count("L9.prefix.not-both-complete")
                break
            rep.count("L9.prefix.compared")
            if "[" + step + "]" != bo:
                rep.violations.append({"property": "C17", "lane": "L9",
                                       "what": f"prefix {j}: REPL route gives {step[:300]} but batch route gives {bo[:300]}",
                                       "case": repl[0], "batch_case": b[0]})
                break
        for x in items:
            if x[1][0] == "repl-split":
                ss = parse_repl(x[2])
                if ss and steps and all(s.startswith("ok ") for s in ss) and all(s.startswith("ok ") for s in steps):
                    rep.compared += 1
                    if ss[-1] != steps[-1]:
                        rep.violations.append({"property": "C17", "lane": "L9",
                                               "what": f"two ways of splitting the same statements end differently: {ss[-1][:200]} vs {steps[-1][:200]}",
                                               "case": x[0], "other_case": repl[0]})
    # exec is repeatable and isolated
    ex_cases = []
    for k in range(n // 2):
        p, _ = progen.program(rnd, n_lines=rnd.randrange(2, 6), max_depth=2)
        ex_cases.append("(exec-twice " + q(sast.program([["set", "leak", ["expr", I(3)]]] + p)) + ")")
    ex_cases.append('(exec-twice "c := mut probe; c += 1; leak := 3; (*c, [1,2]~ $])")')
    eo = common.run_cases(common.HARNESS, ex_cases, timeout=600)
    rep.evaluations += len(ex_cases)
    rep.distinct.update(ex_cases)
    for c, o in zip(ex_cases, eo):
        if o.startswith("reject"):
            continue
        rep.compared += 1
        parts = o.split(" || ")
        if "!panic" in o:
            rep.violations.append({"property": "C02", "lane": "L9", "what": "panic: " + o[:200], "case": c})
        elif len(parts) != 3 or parts[0] != parts[1]:
            rep.violations.append({"property": "C17", "lane": "L9", "what": "executing the same parsed program twice gives different results: " + o[:300], "case": c})
        elif parts[2] != "probe=true leaked=false":
            rep.violations.append({"property": "C17", "lane": "L9", "what": "exec modified the interpreter the code was parsed against: " + parts[2], "case": c})
    # host calls vs in-language calls: acceptance and result
    fdefs = [
        ("(a: int, b: int) -> int { return a - b; }", ["int", "int"]),
        ("(a: int|string) -> int|string { return a; }", [["multi", "int", "string"]]),
        ("(xs: [int]) -> int { return std.len(xs); }", [["arr", "int"]]),
        ("(f: int) -> int { return f; }", ["int"]),
        ("(p: (int, bool)) -> bool { return p.1; }", [["tup", "int", "bool"]]),
        ("() -> int { return 7; }", []),
        ("(x: any) -> any { return x; }", ["any"]),
        ("(x: [any]) -> int { return std.len(x); }", [["arr", "any"]]),
        ("(x: float) -> float { return x + 1.0; }", ["float"]),
    ]
    vals = [("(i 3)", "3"), ("(i 10)", "10"), ('(s "a")', '"a"'), ("(b true)", "true"), ("(arr (i 1) (i 2))", "[1, 2]"),
            ("(arr)", "[]"), ('(arr (i 1) (s "x"))', '[1, "x"]'), ("(tup (i 1) (b false))", "(1, false)"), ("(f 4609434218613702656)", "1.5"),
            ("void", "()")]
    hc, hm = [], []
    import itertools
    for (src, ptypes), named in itertools.product(fdefs, (False, True)):
        decl = f"f := {src}; f" if named else src
        for arity in range(0, 3):
            for combo in itertools.product(vals, repeat=arity):
                if arity == 2 and rnd.random() < 0.6:
                    continue
                sxargs = " ".join(v[0] for v in combo)
                hc.append(f"(call {q(decl)} {sxargs})".replace("  ", " "))
                fn_text = "f" if named else "(" + src + ")"
                inl = (f"f := {src}; " if named else "") + fn_text + "(" + ", ".join(v[1] for v in combo) + ")"
                hc.append("(run " + q(inl) + ")")
                hm.append((decl, combo))
    ho = common.run_cases(common.HARNESS, hc, timeout=600)
    rep.evaluations += len(hc)
    rep.distinct.update(hc)
    for k in range(0, len(hc), 2):
        host, inl = ho[k], ho[k + 1]
        rep.compared += 1
        rep.count("L9.hostcall." + ("accepted" if not host.startswith("reject") else "rejected"))
        if "!panic" in host or "!panic" in inl:
            rep.violations.append({"property": "C02", "lane": "L9", "what": "panic: " + (host if "!panic" in host else inl)[:200], "case": hc[k] if "!panic" in host else hc[k + 1]})
        elif host.startswith("reject") != inl.startswith("reject"):
            rep.violations.append({"property": "C17", "lane": "L9",
                                   "what": f"host call and in-language call disagree on acceptance: host {host[:100]} / in-language {inl[:100]}",
                                   "case": hc[k], "inline_case": hc[k + 1]})
        elif not host.startswith("reject") and host != inl:
            rep.violations.append({"property": "C17", "lane": "L9",
                                   "what": f"host call returns {host[:150]} but the in-language call returns {inl[:150]}",
                                   "case": hc[k], "inline_case": hc[k + 1]})
    run_host_unscoped(rep)
    rep.sample({"lane": "L9", "repl": cases[0][:600]})
    rep.sample({"lane": "L9", "hostcall": hc[0], "inline": hc[1]})


def run_host_unscoped(rep):
    """A host call executed in the host's own interpreter (create_call(..).exec_unscoped(&mut host)):
    nothing the callee declares -- its parameters, its own name, its locals -- is visible to or
    overwrites a name of the host afterwards (C06/C17), and the result is the in-language result."""
    sessions = [
        ("n := 100; k := 7; double := (n: int) -> int { k := n * 2; return k }", "double", ["(i 4)"], "n double k", "ok (i 8)"),
        ("x := 1; y := 2; f := (x: int, y: int) -> int { z := x + y; return z }", "f", ["(i 10)", "(i 20)"], "x y z f", "ok (i 30)"),
        ("f := 5; g := (f: int) -> int { return f + 1 }", "g", ["(i 1)"], "f g", "ok (i 2)"),
        ("c := mut 0; bump := (by: int) -> int { c += by; t := *c; return t }", "bump", ["(i 3)"], "c by t bump", "ok (i 3)"),
        ("fact := (n: int) -> int { if n <= 1 { return 1 } return n * fact(n - 1) }; n := 9", "fact", ["(i 5)"], "n fact", "ok (i 120)"),
        ("it := 3; g := () -> int { it := 5; return it }", "g", [], "it g", "ok (i 5)"),
    ]
    cases = [f'(host-call-unscoped ({names}) {q(prelude)} {fn} ' + " ".join(args) + ")" for prelude, fn, args, names, _ in sessions]
    outs = common.run_cases(common.HARNESS, cases, timeout=120)
    rep.evaluations += len(cases)
    for c, o, (prelude, fn, args, names, want) in zip(cases, outs, sessions):
        rep.compared += 1
        rep.count("L9.host-unscoped")
        parts = o.split(" || ")
        if "!panic" in o:
            rep.violations.append({"property": "C02", "lane": "L9", "what": "panic in a host call: " + o[:200], "case": c})
        elif len(parts) != 3:
            rep.violations.append({"property": "C17", "lane": "L9", "what": "host call did not complete: " + o[:200], "case": c})
        elif parts[0] != want:
            rep.violations.append({"property": "C17", "lane": "L9", "case": c,
                                   "what": f"host call returns {parts[0][:100]}, the in-language call returns {want}"})
        elif parts[1][len("before "):] != parts[2][len("after "):] and not (fn == "bump"):
            for prop in ("C06", "C17"):
                rep.violations.append({"property": prop, "lane": "L9", "case": c,
                                       "what": f"a host call run in the host's interpreter changed the host's names: {parts[1][:150]} / {parts[2][:150]}"})
        elif fn == "bump" and parts[2] != "after ((c (mut 0 (i 3))) (by unbound) (t unbound) (bump (fun 0)))":
            for prop in ("C06", "C17"):
                rep.violations.append({"property": prop, "lane": "L9", "case": c,
                                       "what": f"after the host call the host sees {parts[2][:200]}"})

"""Lane L7g — construct x type-shape grid.

The typed random generator (progen) draws its values from a dozen fixed types, so the places where
the code distinguishes SHAPES of types (a union next to one of its members, an array whose stored
element type is wider than its contents, a cell of a union, a function taking a cell, a struct
with more fields than asked for, `[]` at an honest element type ...) are reached only by the crafted
corpus.  This lane crosses every language construct that consumes values (templates below) with
pairs of types drawn from the type universe of lane L1 and with concrete values of every member of
those types, in two forms each:

  hidden   a := hideA(vA)   the checker sees the declared type TA only (run-time paths)
  literal  a := vA          the checker and `recreate` see the constant (folded paths)

Model and implementation must agree on acceptance, value (incl. the stored element types of
arrays and the declared types of cells), error and static type, and the value must inhabit the
static type (C01); panics are C02/C03 violations with the program as failing input."""
from . import common, sast, typegen, l7_programs
from .sast import I, B, S, V, VOID

F25 = ["c", ["f", 4612811918334230528]]    # 2.5
F05 = ["c", ["f", 4602678819172646912]]    # 0.5


# ---------------------------------------------------------------- types: sexp text -> sast AST
def parse_ty(text):
    toks = text.replace("(", " ( ").replace(")", " ) ").split()
    pos = [0]

    def rd():
        t = toks[pos[0]]
        pos[0] += 1
        if t != "(":
            return t
        items = []
        while toks[pos[0]] != ")":
            items.append(rd())
        pos[0] += 1
        return items
    return conv(rd())


def conv(x):
    if isinstance(x, str):
        return x
    h = x[0]
    if h == "arr":
        return ["arr", conv(x[1])]
    if h == "mut":
        return ["mut", conv(x[1])]
    if h == "fun":
        return ["fun", [conv(p) for p in x[1]], conv(x[2])]
    if h == "tup":
        return ["tup"] + [conv(p) for p in x[1:]]
    if h == "multi":
        return ["multi"] + [conv(p) for p in x[1:]]
    if h == "struct":
        return ["struct"] + [[f[0], conv(f[1])] for f in x[1:]]
    raise ValueError(x)


def members(t):
    return t[1:] if isinstance(t, list) and t[0] == "multi" else [t]


def renderable(t):
    """types the surface syntax can write (tuples need >= 2 members; `never` only inside)"""
    if isinstance(t, str):
        return True
    h = t[0]
    if h == "tup":
        return len(t) >= 3 and all(renderable(x) for x in t[1:])
    if h == "struct":
        return all(renderable(f[1]) for f in t[1:])
    if h == "fun":
        return all(renderable(p) for p in t[1]) and renderable(t[2])
    if h == "multi":
        return len(t) >= 3 and all(renderable(x) for x in t[1:])
    return all(renderable(x) for x in t[1:])


# ---------------------------------------------------------------- values of a type, as expressions
def values(t, rnd, depth=0):
    """expressions whose value belongs to t (each member of a union contributes)"""
    if isinstance(t, str):
        return {"int": [I(3), I(0)], "float": [F25], "bool": [B(True), B(False)], "string": [S("s"), S("")],
                "void": [VOID], "any": [I(7), S("q"), ["array", I(1)]], "never": []}[t]
    h = t[0]
    if h == "multi":
        out = []
        for m in t[1:]:
            out += values(m, rnd, depth)[:2]
        return out
    if depth > 3:
        return []
    if h == "arr":
        inner = values(t[1], rnd, depth + 1)
        out = [["array"]]
        if inner:
            out.append(["array", inner[0]])
            if len(inner) > 1:
                out.append(["array", inner[0], inner[-1]])
        return out
    if h == "tup":
        parts = [values(x, rnd, depth + 1) for x in t[1:]]
        if any(not p for p in parts):
            return []
        return [["tuple"] + [p[0] for p in parts], ["tuple"] + [p[-1] for p in parts]]
    if h == "struct":
        parts = [(f[0], values(f[1], rnd, depth + 1)) for f in t[1:]]
        if any(not p for _, p in parts):
            return []
        base = ["struct"] + [[k, p[0]] for k, p in parts]
        wide = base + [["zz", I(9)]]          # width subtyping: one more field than asked for
        return [base, wide]
    if h == "mut":
        inner = values(t[1], rnd, depth + 1)
        return [["mut", t[1], v] for v in inner[:2]]
    if h == "fun":
        r = values(t[2], rnd, depth + 1)
        if not r:
            return []
        ps = [[f"p{k}", p] for k, p in enumerate(t[1])]
        # a function that takes a cell writes to it (the widest value its declared content admits)
        writes = []
        for k, p in enumerate(t[1]):
            if isinstance(p, list) and p[0] == "mut":
                vs = values(p[1], rnd, depth + 1)
                if vs:
                    writes.append(["stm", ["expr", ["bin", "=", ["id", f"p{k}"], vs[-1]]]])
        return [["fn", ps, t[2], writes + [["stm", ["return", ["expr", r[0]]]]]]]
    raise ValueError(t)


# ---------------------------------------------------------------- templates over a (: TA) and b (: TB)
def ret(e):
    return ["stm", ["return", ["expr", e]]]


def E(e):
    return ["stm", ["expr", e]]


def templates(TA, TB):
    a, b = V("a"), V("b")
    T = [
        ("add", [E(["bin", "+", a, b])]),
        ("eq", [E(["tuple", ["bin", "==", a, b], ["bin", "!=", a, b]])]),
        ("array-of", [E(["array", a, b])]),
        ("array-of-at0", [E(["at", ["array", a, b], I(0)])]),
        ("array-of-at-1", [E(["at", ["array", a, b], ["pre", "neg", I(1)]])]),
        ("array-nested-at", [E(["array", ["at", ["array", a, b], I(0)], a])]),
        ("tuple-of", [E(["tacc", ["tuple", a, b], 1])]),
        ("struct-of", [E(["facc", ["struct", ["k", a], ["j", b]], "k"])]),
        ("repeat", [E(["repeat", a, I(2)])]),
        ("repeat-neg", [E(["repeat", a, ["pre", "neg", I(1)]])]),
        ("cell-untyped", [["set", "m", ["expr", ["mut", None, a]]], E(V("m"))]),
        ("cell-untyped-assign", [["set", "m", ["expr", ["mut", None, a]]], E(["bin", "=", V("m"), b]), E(["tuple", V("m"), ["pre", "deref", V("m")]])]),
        ("cell-typed-assign", [["set", "m", ["expr", ["mut", TA, a]]], E(["bin", "=", V("m"), b]), E(V("m"))]),
        ("cell-plus-assign", [["set", "m", ["expr", ["mut", None, a]]], E(["bin", "+=", V("m"), b]), E(V("m"))]),
        ("ifset", [["stm", ["ifset", "y", TB, a, ["block", E(["tuple", I(1), V("y")])], ["block", E(["tuple", I(0), a])]]]]),
        ("match-type", [["stm", ["match", a, ["atype", "y", TB, ["block", E(["tuple", I(1), V("y")])]], ["aother", ["block", E(["tuple", I(0), a])]]]]]),
        ("match-type-only", [["stm", ["match", a, ["atype", "y", TB, ["block", E(["tuple", I(1), V("y")])]]]]]),
        ("match-type-two-arms", [["stm", ["match", a, ["atype", "y", TB, ["block", E(I(1))]], ["atype", "z", TA, ["block", E(I(2))]]]]]),
        ("cell-plus-assign-value", [["set", "m", ["expr", ["mut", TA, a]]], E(["tuple", ["bin", "+=", V("m"), b], V("m")])]),
        ("cell-assign-value", [["set", "m", ["expr", ["mut", TA, a]]], E(["tuple", ["bin", "=", V("m"), b], V("m")])]),
        ("match-value", [["stm", ["match", a, ["aval", [b], ["block", E(I(1))]], ["aother", ["block", E(I(0))]]]]]),
        ("typefilter-collect", [E(["post", ["tfilter", ["post", ["array", a, b], "~"], TB], "$]"])]),
        ("typefilter-first", [["set", "it", ["expr", ["tfilter", ["post", ["array", a, b, a], "~"], TA]]], E(["call", V("it")])]),
        ("collect", [E(["post", ["post", ["array", a, b], "~"], "$]"])]),
        ("call-with", [["fndecl", "f2", [["p", TB]], TB, [ret(V("p"))]], E(["call", V("f2"), a])]),
        ("closure-returns", [["fndecl", "g", [], TA, [ret(a)]], E(["call", V("g")])]),
        ("closure-captures-both", [["fndecl", "g", [], ["tup", TA, TB], [ret(["tuple", a, b])]], ["set", "a", ["expr", b]], E(["call", V("g")])]),
        ("assign-var-shadow", [["set", "a", ["expr", b]], E(["array", a])]),
        ("deref", [E(["pre", "deref", a])]),
        ("deref-assign", [E(["bin", "=", a, b]), E(a)]),
        ("index0", [E(["at", a, I(0)])]),
        ("slice", [E(["slice", a, I(0), I(1), None])]),
        ("iter-collect", [E(["post", ["post", a, "~"], "$]"])]),
        ("for-over", [["set", "n", ["expr", ["mut", None, I(0)]]], ["stm", ["for", "x", ["post", a, "~"], ["block", E(["bin", "+=", V("n"), I(1)])]]], E(["pre", "deref", V("n")])]),
        ("call-it", [E(["call", a, b])]),
        ("call-it-0", [E(["call", a])]),
        ("tacc0", [E(["tacc", a, 0])]),
        ("tacc1", [E(["tacc", a, 1])]),
        ("facc-a", [E(["facc", a, "a"])]),
        ("destruct", [["destruct", ["p", "q"], ["expr", a]], E(["tuple", V("q"), V("p")])]),
        ("destruct-in-block-shadow", [["stm", ["block", ["destruct", ["a", "q"], ["expr", b]], E(V("q"))]], E(a)]),
        ("sum", [E(["post", ["post", ["array", a, b], "~"], "$+"])]),
        ("reduce-init", [E(["reduce", ["post", ["array", a], "~"], b, ["fn", [["acc", ["multi", TA, TB]], ["cur", TA]], ["multi", TA, TB], [ret(V("cur"))]]])]),
        ("map-to", [E(["post", ["bin", "@", ["post", ["array", a, a], "~"], ["fn", [["x", TA]], TB, [ret(b)]]], "$]"])]),
        ("filter-same", [E(["post", ["bin", "?", ["post", ["array", a, b], "~"], ["fn", [["x", ["multi", TA, TB]]], "bool", [ret(["bin", "==", V("x"), a])]]], "$]"])]),
        ("neg-not", [E(["tuple", ["pre", "neg", a], ["pre", "not", b]])]),
        ("and-or", [E(["tuple", ["bin", "&&", a, b], ["bin", "||", a, b]])]),
        ("compare", [E(["tuple", ["bin", "<", a, b], ["bin", ">=", a, b]])]),
        ("arith", [E(["tuple", ["bin", "-", a, b], ["bin", "*", a, b]])]),
        ("end-marker", [["set", "it", ["expr", ["post", ["array", a], "~"]]], E(["call", V("it")]), ["set", "d", ["expr", ["tacc", ["call", V("it")], 1]]], E(["array", V("d"), a])]),
        ("end-marker-call", [["set", "it", ["expr", ["post", ["array", a], "~"]]], E(["call", V("it")]), E(["call", ["tacc", ["call", V("it")], 1], b])]),
        ("end-marker-call-0", [["set", "it", ["expr", ["post", ["array", a], "~"]]], E(["call", V("it")]), E(["array", ["call", ["tacc", ["call", V("it")], 1]]])]),
        ("end-marker-call-add", [["set", "it", ["expr", ["post", ["array", a], "~"]]], E(["call", V("it")]), E(["bin", "+", ["call", ["tacc", ["call", V("it")], 1]], ["call", ["tacc", ["call", V("it")], 1]]])]),
        ("end-marker-call1-add", [["set", "it", ["expr", ["post", ["array", a], "~"]]], E(["call", V("it")]), E(["bin", "+", ["call", ["tacc", ["call", V("it")], 1], b], ["call", ["tacc", ["call", V("it")], 1], b]])]),
        ("call-then-deref", [E(["call", a, b]), E(["tuple", b, ["pre", "deref", b]])]),
        ("array-call-then-deref", [E(["call", ["at", ["array", a, a], I(0)], b]), E(["pre", "deref", b])]),
        ("if-union", [["set", "u", ["if", ["bin", "==", a, a], ["block", E(a)], ["block", E(b)]]], E(["array", V("u")])]),
    ]
    return T


def has_default(t):
    """Variable::of_type(t) is defined whichever member of a union is visited first"""
    if isinstance(t, str):
        return t != "never"
    h = t[0]
    if h == "fun":
        return has_default(t[2])
    if h == "arr":
        return True
    if h == "mut":
        return has_default(t[1])
    if h in ("tup", "multi"):
        return all(has_default(x) for x in t[1:])
    if h == "struct":
        return all(has_default(f[1]) for f in t[1:])
    return False


def has_multi(t):
    if isinstance(t, list):
        return (bool(t) and t[0] == "multi") or any(has_multi(x) for x in t if isinstance(x, list))
    return False


def has_fun_or_mut(t):
    if isinstance(t, list):
        return (bool(t) and t[0] in ("fun", "mut")) or any(has_fun_or_mut(x) for x in t if isinstance(x, list))
    return False


def mixed_default(t):
    """a union some of whose members have a default and some not: whether `it ? t` is accepted then
    depends on the hash order of the union (known finding S8)"""
    if isinstance(t, list):
        if t and t[0] == "multi":
            ds = [has_default(m) for m in t[1:]]
            if any(ds) and not all(ds):
                return True
        return any(mixed_default(x) for x in t if isinstance(x, list))
    return False


def head(t):
    return t if isinstance(t, str) else t[0]


NEEDS = {   # template -> heads of TA (of some member of TA) for which the checker can accept it
    "deref": ("mut",), "deref-assign": ("mut",), "index0": ("arr", "string"), "slice": ("arr", "string"),
    "iter-collect": ("arr",), "for-over": ("arr",), "call-it": ("fun",), "call-it-0": ("fun",),
    "tacc0": ("tup",), "tacc1": ("tup",), "facc-a": ("struct",), "destruct": ("tup",),
    "end-marker-call": ("fun",), "end-marker-call-0": ("fun",), "end-marker-call-add": ("fun",),
    "end-marker-call1-add": ("fun",), "call-then-deref": ("fun",), "array-call-then-deref": ("fun",),
    "neg-not": ("int", "float", "bool"), "and-or": ("bool",), "compare": ("int", "float"), "arith": ("int", "float"),
    "sum": ("int", "float", "string"), "cell-plus-assign": ("int", "float", "string", "arr"),
}


def applicable(name, TA):
    need = NEEDS.get(name)
    return need is None or any(head(m) in need for m in members(TA))


def related(TA, U, rnd):
    """second types worth pairing with TA: itself, its members, a union containing it, any,
    its array / cell / iterator, and a couple of unrelated ones"""
    out = [TA, "any"]
    out += members(TA)
    for extra in ("string", "float", "int"):
        if extra not in members(TA):
            out.append(["multi"] + members(TA) + [extra])
            break
    if isinstance(TA, list) and TA[0] in ("arr", "mut"):
        out.append(TA[1])
        out.append([TA[0], ["multi"] + members(TA[1]) + (["string"] if "string" not in members(TA[1]) else ["float"])])
    out.append(["arr", TA])
    out.append(["mut", TA])
    for m in members(TA):
        if isinstance(m, list) and m[0] == "fun":
            out += [p for p in m[1]]          # argument types of a function (of every member of a union of functions)
            for p_ in m[1]:
                if isinstance(p_, list) and p_[0] == "mut":
                    out.append(["mut", members(p_[1])[0]])
    out += [rnd.choice(U), rnd.choice(U)]
    seen, res = [], []
    for t in out:
        if t not in seen and renderable(t) and t != "never":
            seen.append(t)
            res.append(t)
    return res


def run(rep, tier):
    rnd = common.rng("L7g")
    U = [parse_ty(t) for t in typegen.universe(rnd, 60, 50)]
    U = [t for t in U if renderable(t) and t != "never"]
    # shapes the defects found so far lived in
    U += [["arr", ["multi", "int", "float"]], ["mut", ["multi", "int", "string"]], ["arr", "never"],
          ["fun", [], ["tup", "bool", ["multi", "int", "float"]]], ["fun", [["mut", "int"]], "void"],
          ["multi", ["fun", [["mut", ["multi", "int", "float"]]], "void"], ["fun", [["mut", "int"]], "void"]],
          ["struct", ["a", "int"], ["b", "int"]], ["tup", ["multi", "int", "float"], "float"],
          ["multi", ["tup", "int", "int"], ["tup", "float", "float"]], ["multi", ["tup", "int", "float"], ["tup", "int", "float", "string"]],
          ["arr", ["arr", "never"]], ["multi", ["arr", "int"], ["arr", ["multi", "int", "string"]]]]
    for b_ in ("int", "float", "string", "bool"):
        U += [b_, ["fun", [], b_], ["fun", [b_], b_], ["mut", b_], ["arr", b_], ["tup", b_, "int"], ["struct", ["a", b_]],
              ["fun", [], ["tup", "bool", b_]]]
    dedup = []
    for t in U:
        if t not in dedup:
            dedup.append(t)
    U = dedup
    budget = 250000 if tier == "thorough" else 45000
    progs, tags = [], []
    impl_only = []     # (unused since the model allocates honest default functions and cells: Exec.alloc_default)
    order = list(range(len(U)))
    rnd.shuffle(order)
    per_type = max(1, budget // (len(U) * 2))
    for ti in order:
        TA = U[ti]
        va = values(TA, rnd)
        if not va:
            continue
        combos = []
        for TB in related(TA, U, rnd):
            vb = values(TB, rnd)
            if not vb:
                continue
            for name, body in templates(TA, TB):
                if name.startswith("typefilter") and (mixed_default(TA) or mixed_default(TB)):
                    continue
                # end markers: only where the element type has a default that does not depend on the
                # hash order of a union (known findings S13a/e and S8 otherwise)
                if name.startswith("end-marker") and (not has_default(TA) or has_multi(TA)):
                    continue
                combos.append((TB, vb, name, body))
        rnd.shuffle(combos)
        # the combinations the checker can accept first; a quarter of the budget goes to the others
        # (the rejecting half of the checker)
        good = [c for c in combos if applicable(c[2], TA)]
        bad = [c for c in combos if not applicable(c[2], TA)]
        chosen = good[:per_type] + bad[:max(4, per_type // 4)]
        for TB, vb, name, body in chosen:
            xa, xb = rnd.choice(va), rnd.choice(vb)
            hide = [["fndecl", "ha", [["x", TA]], TA, [ret(V("x"))]], ["fndecl", "hb", [["x", TB]], TB, [ret(V("x"))]]]
            hidden = hide + [["set", "a", ["expr", ["call", V("ha"), xa]]], ["set", "b", ["expr", ["call", V("hb"), xb]]]] + body
            literal = [["set", "a", ["expr", xa]], ["set", "b", ["expr", xb]]] + body
            infn = hide + [["fndecl", "run1", [["a", TA], ["b", TB]], "any", body[:-1] + [["stm", ["return", body[-1][1]]] if body[-1][0] == "stm" and body[-1][1][0] == "expr" else body[-1]]],
                           E(["call", V("run1"), xa, xb])]
            for form, p in (("hidden", hidden), ("literal", literal), ("in-function", infn)):
                try:
                    sast.program(p)
                    for l in p:
                        sast.sx(l)
                except Exception:
                    continue
                progs.append(p)
                tags.append((name, form))
    for name, form in tags:
        rep.count("L7g.tpl." + name)
        rep.count("L7g.form." + form)
    for p in progs[:2]:
        rep.sample({"lane": "L7g", "program": sast.program(p)})
    l7_programs.run_programs(rep, progs, "L7g")
    l7_programs.run_programs(rep, impl_only, "L7g.impl-only", compare_model=False)

"""Lane L6 (tree part) — pest's generated parser vs. the PEG model (coq/Model/Peg.v run on
the regenerated coq/Gen/GenGrammar.v).  A case is `(peg RULE "text")`; both sides print the
token forest `ok (rule start end child...) ...` (offsets in Unicode scalar values) or `fail`.
Any difference between the two lines is a disagreement.

Texts: (a) the corpus (code blocks of README/docs, example scripts, SimpleSL embedded in the
Rust sources, string literals of the Rust sources), (b) token sequences over the language's
token alphabet — exhaustive for short lengths inside a few contexts, seeded random up to
length 8, (c) mutations of corpus programs, (d) short arbitrary UTF-8 strings.  Every text
goes through the entry rule `input`; type / value shaped fragments also go through `type`,
`type_ident`, `only_var`, `var_macro`; a sample goes through `expr`, `line`, `decls`, `ident`.
Nesting depth of generated brackets is capped: pest's parser (and the model with it) needs
time exponential in the depth of nested parentheses, see docs/README_peg.md."""
import glob
import itertools
import os
import re
from . import common

LANE = "L6"

KEYWORDS = ["if", "else", "match", "import", "return", "loop", "while", "for", "in", "break",
            "continue", "mut", "struct", "mod"]
OPERATORS = ["==", "!=", "<<", ">>", ">", ">=", "<", "<=", "&&", "||", "&", "|", "^", "**", "*", "/",
             "+", "-", "%", "@", "?", "\\", "$", "=", "+=", "-=", "*=", "/=", "%=", "<<=", ">>=", "&=",
             "|=", "^=", "**=", "!", "~", "$+", "$*", "$&&", "$||", "$&", "$|", "$]", ".", ":", ":=",
             "=>", "->", ",", ";"]
BRACKETS = ["(", ")", "[", "]", "{", "}"]
LITERALS = ["1", "1.5", '"s"', "true", "x", "y"]
TYPE_NAMES = ["int", "float", "bool", "string", "any"]
TOKENS = KEYWORDS + OPERATORS + BRACKETS + LITERALS + TYPE_NAMES

TYPE_TOKENS = ["int", "float", "bool", "string", "any", "!", "()", "[", "]", "(", ")", ",", "|", "->",
               "mut", "struct", "{", "}", "x", ":"]
VAR_TOKENS = ["1", "1.5", "-", '"s"', "true", "false", "[", "]", "(", ")", ",", ";", "struct", "{", "}",
              "x", ":=", "()", "0x1F", "1e5", "0b1", "_"]

CONTEXTS = [("bare", "{}"), ("set", "x := {};"), ("fn", "f := () {{ {} }}")]


def sx_str(s):
    out = ['"']
    for ch in s:
        c = ord(ch)
        if c == 34:
            out.append('\\"')
        elif c == 92:
            out.append("\\\\")
        elif 32 <= c < 127:
            out.append(ch)
        else:
            out.append("\\u{%x}" % c)
    out.append('"')
    return "".join(out)


def case(rule, text):
    return f"(peg {rule} {sx_str(text)})"


# --------------------------------------------------------------------------- corpus

def _read(path):
    try:
        with open(path, encoding="utf-8") as fh:
            return fh.read()
    except (OSError, UnicodeDecodeError):
        return None


def md_blocks(text):
    out = []
    for m in re.finditer(r"```([^\n]*)\n(.*?)```", text, re.S):
        out.append(m.group(2))
    return out


_RUST_ESC = {"n": "\n", "t": "\t", "r": "\r", "0": "\0", "\\": "\\", '"': '"', "'": "'"}


def rust_unescape(body):
    out = []
    i = 0
    n = len(body)
    while i < n:
        c = body[i]
        if c != "\\":
            out.append(c)
            i += 1
            continue
        i += 1
        if i >= n:
            break
        e = body[i]
        i += 1
        if e in _RUST_ESC:
            out.append(_RUST_ESC[e])
        elif e == "x" and i + 2 <= n:
            try:
                out.append(chr(int(body[i:i + 2], 16)))
            except ValueError:
                pass
            i += 2
        elif e == "u" and i < n and body[i] == "{":
            j = body.find("}", i)
            if j > 0:
                try:
                    v = int(body[i + 1:j].replace("_", ""), 16)
                    if v < 0x110000 and not 0xD800 <= v <= 0xDFFF:
                        out.append(chr(v))
                except ValueError:
                    pass
                i = j + 1
        elif e == "\n":
            while i < n and body[i] in " \t\n\r":
                i += 1
        else:
            out.append(e)
    return "".join(out)


_RUST_STR = re.compile(r'r(#*)"(.*?)"\1|"((?:[^"\\]|\\.)*)"', re.S)


def rust_strings(src):
    """Best effort: every (raw or plain) string literal of a Rust source file."""
    out = []
    for m in _RUST_STR.finditer(src):
        if m.group(3) is not None:
            out.append(rust_unescape(m.group(3)))
        else:
            out.append(m.group(2))
    return out


EMBEDDED = ["src/instruction/bin_op/map.rs", "src/instruction/bin_op/filter.rs",
            "src/instruction/unary_operation/iter.rs", "src/stdlib/operators.rs",
            "src/instruction/type_filter.rs"]
SUBST_TYPES = ["int", "float | string", "[int]", "(int, string)", "() -> int", "mut [any]",
               "struct{a: int, b: [float]}", "!", "any", "(int)->(int|float)"]


def corpus():
    """[(origin, text)] — deterministic order."""
    repo = common.REPO
    out = []
    for path in [os.path.join(repo, "README.md")] + sorted(glob.glob(os.path.join(repo, "docs", "*.md"))):
        t = _read(path)
        if t is None:
            continue
        for b in md_blocks(t):
            out.append(("doc", b))
            # single lines of the blocks are programs too
            for ln in b.split("\n"):
                if ln.strip():
                    out.append(("docline", ln))
    for path in sorted(glob.glob(os.path.join(repo, "example_scripts", "*"))):
        t = _read(path)
        if t is not None:
            out.append(("script", t))
    rs = sorted(glob.glob(os.path.join(repo, "src", "**", "*.rs"), recursive=True)) + \
        sorted(glob.glob(os.path.join(repo, "macros", "src", "**", "*.rs"), recursive=True)) + \
        sorted(glob.glob(os.path.join(repo, "tests", "*.rs")))
    for path in rs:
        t = _read(path)
        if t is None:
            continue
        rel = os.path.relpath(path, repo)
        for s in rust_strings(t):
            if not s or len(s) > 4000:
                continue
            if rel in EMBEDDED and ("{" in s and ":=" in s or "->" in s):
                if "{}" in s or "{0}" in s:
                    # format! template (type_filter.rs): substitute a type, undouble the braces
                    for ty in SUBST_TYPES:
                        u = s.replace("{{", "\x00").replace("}}", "\x01").replace("{}", ty).replace("{0}", ty)
                        out.append(("embedded", u.replace("\x00", "{").replace("\x01", "}")))
                out.append(("embedded", s))
            else:
                out.append(("ruststr", s))
    seen = set()
    uniq = []
    for o, t in out:
        if t not in seen:
            seen.add(t)
            uniq.append((o, t))
    return uniq


# --------------------------------------------------------------------------- tokens

_LEX = re.compile(
    r'(?P<ws>\s+)|(?P<com>//[^\n]*|/\*.*?\*/)|(?P<str>"(?:[^"\\]|\\.)*")|(?P<num>\d[\d_]*(?:\.\d[\d_]*)?(?:[eE][+-]?\d+)?)'
    r'|(?P<id>[A-Za-z_][A-Za-z0-9_]*)|(?P<op>\*\*=|<<=|>>=|\$&&|\$\|\||==|!=|<<|>>|>=|<=|&&|\|\||\*\*|\+=|-=|\*=|/=|%=|&=|\|=|\^=|:=|=>|->|\$\+|\$\*|\$&|\$\||\$\])'
    r'|(?P<ch>.)', re.S)


def lex(text):
    """Layout-preserving token list: [(kind, string)]."""
    return [(m.lastgroup, m.group(0)) for m in _LEX.finditer(text)]


def mutate(text, r):
    toks = lex(text)
    idx = [i for i, (k, _) in enumerate(toks) if k not in ("ws", "com")]
    if not idx:
        return text + r.choice(TOKENS)
    kind = r.randrange(6)
    i = r.choice(idx)
    strs = [t for _, t in toks]
    if kind == 0:
        del strs[i]
    elif kind == 1:
        strs.insert(i, strs[i] if r.random() < 0.5 else " " + strs[i] + " ")
    elif kind == 2:
        j = r.choice(idx)
        strs[i], strs[j] = strs[j], strs[i]
    elif kind == 3:
        ops = [k for k in idx if toks[k][0] in ("op", "ch")]
        if ops:
            i = r.choice(ops)
        strs[i] = r.choice(OPERATORS + BRACKETS)
    elif kind == 4:
        strs[i] = r.choice(TOKENS)
    else:
        strs.insert(i, r.choice(TOKENS) + r.choice(["", " "]))
    return "".join(strs)


def nesting_ok(text, limit=7):
    """Cap the depth of nested ( [ { — the parse time of pest's parser is exponential in it."""
    d = 0
    for ch in text:
        if ch in "([{":
            d += 1
            if d > limit:
                return False
        elif ch in ")]}":
            d = max(0, d - 1)
    return True


def token_texts(tier, r):
    """[(origin, text)] for part (b)."""
    out = []
    maxlen = 3 if tier == "thorough" else 2
    for n in range(0, maxlen + 1):
        for seq in itertools.product(TOKENS, repeat=n):
            joined = " ".join(seq)
            for cname, ctx in CONTEXTS:
                out.append(("tok%d.%s" % (n, cname), ctx.format(joined)))
            if n == 2 or (n == 3 and tier == "thorough" and seq[0] in ("x", "1", "1.5", '"s"', ")", "]", "(", "-", "$", ".")):
                # adjacency without white space (x.1, 1.5.1, -1, $+ vs $ +, ...)
                tight = "".join(seq)
                if tight != joined:
                    out.append(("tok%d.tight" % n, tight))
                    out.append(("tok%d.tight-set" % n, "x := " + tight + ";"))
    nrand = 150000 if tier == "thorough" else 24000
    seps = [" ", " ", " ", "", "\n", "\t", " /*c*/ ", " //c\n", "\r\n"]
    for _ in range(nrand):
        n = r.randint(3, 8)
        parts = []
        for k in range(n):
            parts.append(r.choice(TOKENS))
            if k + 1 < n:
                parts.append(r.choice(seps))
        t = "".join(parts)
        cname, ctx = r.choice(CONTEXTS)
        t = ctx.format(t)
        if nesting_ok(t):
            out.append(("rand." + cname, t))
    return out


# --------------------------------------------------------------------------- fragments

def gen_type(r, depth=0):
    k = r.randrange(12 if depth < 3 else 6)
    sp = lambda: r.choice(["", "", " ", "  ", "\n", "/*c*/"])
    if k < 5:
        return r.choice(TYPE_NAMES)
    if k == 5:
        return r.choice(["!", "()", "[]", "mut int", "struct{}"])
    if k == 6:
        return "[" + sp() + gen_type(r, depth + 1) + sp() + "]"
    if k == 7:
        return "(" + (sp() + "," + sp()).join(gen_type(r, depth + 1) for _ in range(r.randint(1, 3))) + ")"
    if k == 8:
        return (sp() + "|" + sp()).join(gen_type(r, depth + 1) for _ in range(r.randint(2, 3)))
    if k == 9:
        ps = (sp() + "," + sp()).join(gen_type(r, depth + 1) for _ in range(r.randint(0, 2)))
        ret = gen_type(r, depth + 1)
        if r.random() < 0.5:
            ret = "(" + ret + ")"
        return "(" + ps + ")" + sp() + "->" + sp() + ret
    if k == 10:
        return "mut" + r.choice([" ", "  ", "\t", ""]) + gen_type(r, depth + 1)
    fs = (sp() + "," + sp()).join(r.choice("abxy") + sp() + ":" + sp() + gen_type(r, depth + 1)
                                  for _ in range(r.randint(0, 2)))
    return "struct" + sp() + "{" + fs + "}"


def gen_var(r, depth=0):
    k = r.randrange(11 if depth < 3 else 7)
    sp = lambda: r.choice(["", "", " ", "\n", "/*c*/"])
    if k == 0:
        return r.choice(["1", "0", "-1", "- 1", "12_3", "0x_fF", "0b1_0", "0o17", "9223372036854775808", "_1", "1_"])
    if k == 1:
        return r.choice(["1.5", "-1.5", "1e5", "1.e5", "1.5e-3", "1E+_3", ".5", "1.", "- 1.5", "1.5.2", "1_0.0_1"])
    if k == 2:
        return r.choice(['"s"', '""', '"a\\"b"', '"\\\\"', '"é😀"', '"a\nb"', '"\\q"', '"unterminated'])
    if k == 3:
        return r.choice(["true", "false", "truex", "()", "( )", "x", "-x", "mut 1"])
    if k in (4, 5, 6):
        return r.choice(["1", "1.5", '"s"', "true", "()", "x"])
    if k == 7:
        return "[" + (sp() + "," + sp()).join(gen_var(r, depth + 1) for _ in range(r.randint(0, 3))) + "]"
    if k == 8:
        return "[" + gen_var(r, depth + 1) + sp() + ";" + sp() + r.choice(["3", "x", "0x2", "-1", "1.5"]) + "]"
    if k == 9:
        return "(" + (sp() + "," + sp()).join(gen_var(r, depth + 1) for _ in range(r.randint(1, 3))) + ")"
    fs = (sp() + "," + sp()).join(r.choice("abxy") + sp() + r.choice([":=", ":=", "=", ":"]) + sp() + gen_var(r, depth + 1)
                                  for _ in range(r.randint(0, 2)))
    return "struct" + sp() + "{" + fs + "}"


def fragment_cases(tier, r):
    """[(origin, rule, text)]"""
    out = []
    tl = 4 if tier == "thorough" else 3
    for n in range(0, tl + 1):
        for seq in itertools.product(TYPE_TOKENS, repeat=n):
            t = " ".join(seq)
            out.append(("typetok", "type", t))
            if n <= 3:
                out.append(("typetok", "type_ident", t))
    vl = 4 if tier == "thorough" else 3
    for n in range(0, vl + 1):
        for seq in itertools.product(VAR_TOKENS, repeat=n):
            t = " ".join(seq)
            out.append(("vartok", "only_var", t))
            if n <= 3:
                out.append(("vartok", "var_macro", t))
            if n <= 2:
                out.append(("vartok", "only_var", "".join(seq)))
    ngen = 40000 if tier == "thorough" else 6000
    pad = ["", "", "", " ", "\n", " x", " |", "//c", "/*c*/"]
    for _ in range(ngen):
        t = r.choice(pad[:5]) + gen_type(r) + r.choice(pad)
        out.append(("typegen", "type", t))
        out.append(("typegen", "type_ident", t))
        out.append(("typegen", "input", "x: " + t + " = y;"))
        v = r.choice(pad[:5]) + gen_var(r) + r.choice(pad)
        out.append(("vargen", "only_var", v))
        out.append(("vargen", "var_macro", v))
        out.append(("vargen", "input", v))
        out.append(("vargen", "decls", "a := " + v + r.choice(["", ";", " b := 1", "; b := (x: int) { return x }"])))
    return out


# --------------------------------------------------------------------------- UTF-8

UCHARS = ["a", "Z", "_", "0", "9", " ", "\t", "\n", "\r", "\r\n", '"', "\\", "'", "/", "*", "/*", "*/", "//",
          "\u00e9", "\u00fc", "\u00df", "\u20ac", "\u0301", "\u00a0", "\u2028", "\u3000", "\ufeff", "\U0001F600",
          "\U0010FFFF", "\x00", "\x7f", "\x0b", "\x0c", "\u03bb", "\u0131", "\u212a", "\uff58", ":=", "(", ")",
          "{", "}", ";", "+", "1", ".", "true", "if"]


def utf8_texts(tier, r):
    out = []
    n = 60000 if tier == "thorough" else 12000
    for _ in range(n):
        k = r.randint(0, 10)
        t = "".join(r.choice(UCHARS) for _ in range(k))
        out.append(("utf8", t))
    # comments / strings / CRLF in positions where implicit skipping matters
    glue = ["", " ", "\n", "\r\n", "\r", "\t", "/**/", "/* \u00e9 */", "// c\n", "// c\r\n", "// c\r", "//", "/*",
            "/* /* */ */", "\u00a0", "\u2028", "\x0b", "\x0c"]
    shapes = ["x{0}:={0}1{0};", "f{0}({0}1{0},{0}2{0}){0}", "x{0}.{0}1", "x{0}[{0}1{0}:{0}]", "-{0}1", "!{0}x",
              "x{0}: int{0}|{0}float{0}={0}y", "if{0}x{0}{{{0}}}{0}else{0}y", "return{0}", "return{0}x",
              "x{0}$+{0}", "[{0}]", "({0})", "(a,{0}b){0}:={0}t", "\"s\"{0}", "x :={0}1.5{0}e3", "1{0}.5",
              "0x{0}1", "1{0}_0", "mut{0}1", "struct{0}{{{0}a{0}:={0}1{0}}}", "{0}x{0}", "tr{0}ue", "x{0}${0}0{0}y",
              "match{0}x{0}{{{0}y{0}:{0}int{0}=>{0}1{0},{0}}}", "for{0}i{0}in{0}x{0}y", "loopx", "loop{0}x", "import{0}\"a\"",
              "x{0}?{0}int", "x{0}?{0}y", "x{0}~{0}", "*{0}x", "x{0}**={0}y", "()", "({0}){0}->{0}int{0}{{{0}}}"]
    for sh in shapes:
        for g1 in glue:
            out.append(("glue", sh.format(g1)))
    return out


# --------------------------------------------------------------------------- grammar-directed

def load_grammar():
    """The pest grammar as parsed by translators/pest2coq.py: {name: (modifier, expr)}."""
    import importlib.util
    path = os.path.join(common.VERIF, "translators", "pest2coq.py")
    spec = importlib.util.spec_from_file_location("pest2coq", path)
    mod = importlib.util.module_from_spec(spec)
    spec.loader.exec_module(mod)
    src = _read(os.path.join(common.REPO, "parser", "src", "simplesl.pest"))
    rules = {}
    for name, m, e, _ in mod.Parser(mod.Lexer(src).toks).grammar():
        rules[name] = (m, mod.unroll(e))
    return rules


class Deriver:
    """Random sentences derived from the grammar (predicates ignored, so not every sentence
    is accepted; both sides are compared whatever happens)."""
    ANYCH = ["a", "z", "0", " ", "\n", '"', "\\", "*", "/", "é", "\U0001F600", "n", "{", "}"]
    BUILTIN = {"ASCII_DIGIT": "0123456789", "ASCII_NONZERO_DIGIT": "123456789", "ASCII_BIN_DIGIT": "01",
               "ASCII_OCT_DIGIT": "01234567", "ASCII_HEX_DIGIT": "0123456789abcdefABCDEF",
               "ASCII_ALPHA_LOWER": "abcxyz", "ASCII_ALPHA_UPPER": "ABCXYZ", "ASCII_ALPHA": "abxyzABZ",
               "ASCII_ALPHANUMERIC": "abxyzAZ019", "ASCII": "a Z0~\t"}
    SEPS = [" ", " ", " ", " ", "", "", "", "\n", "  ", "\t", "/*c*/", " // c\n", "\r\n"]

    def __init__(self, rules, r):
        self.rules = rules
        self.r = r
        self.cost = {}
        self._costs()

    def _ecost(self, e):
        k = e[0]
        if k in ("str", "insens", "range", "not", "and", "opt", "rep"):
            return 0
        if k == "ident":
            return self.cost.get(e[1], 10**6) + 1 if e[1] in self.rules else 0
        if k == "seq":
            return max(self._ecost(e[1]), self._ecost(e[2]))
        if k == "choice":
            return min(self._ecost(e[1]), self._ecost(e[2]))
        if k == "plus":
            return self._ecost(e[1])
        return 0

    def _costs(self):
        changed = True
        while changed:
            changed = False
            for name, (_, e) in self.rules.items():
                c = self._ecost(e)
                if c < self.cost.get(name, 10**6):
                    self.cost[name] = c
                    changed = True

    def alts(self, e):
        out = []
        while e[0] == "choice":
            out.append(e[1])
            e = e[2]
        out.append(e)
        return out

    def gen(self, e, budget, atomic):
        r = self.r
        k = e[0]
        if k in ("str", "insens"):
            return "".join(map(chr, e[1]))
        if k == "range":
            return chr(r.choice([e[1], e[2], (e[1] + e[2]) // 2]))
        if k == "ident":
            name = e[1]
            if name in self.rules:
                m, body = self.rules[name]
                at = True if m in ("@", "$") else (False if m == "!" else atomic)
                return self.gen(body, budget - 1, at)
            if name == "ANY":
                return r.choice(self.ANYCH)
            if name == "NEWLINE":
                return r.choice(["\n", "\r\n", "\r"])
            if name in self.BUILTIN:
                return r.choice(self.BUILTIN[name])
            return ""
        sep = "" if atomic else r.choice(self.SEPS)
        if k == "seq":
            return self.gen(e[1], budget, atomic) + sep + self.gen(e[2], budget, atomic)
        if k == "choice":
            al = self.alts(e)
            ok = [a for a in al if self._ecost(a) <= budget]
            if not ok:
                ok = [min(al, key=self._ecost)]
            return self.gen(r.choice(ok), budget, atomic)
        if k == "opt":
            if r.random() < 0.5 and self._ecost_full(e[1]) <= budget:
                return self.gen(e[1], budget, atomic)
            return ""
        if k in ("rep", "plus"):
            n = r.choice([0, 0, 1, 1, 2, 3]) if k == "rep" else r.choice([1, 1, 2, 3])
            if self._ecost_full(e[1]) > budget:
                n = 0 if k == "rep" else 1
            parts = [self.gen(e[1], budget, atomic) for _ in range(n)]
            return ("" if atomic else r.choice(self.SEPS)).join(parts)
        return ""   # predicates

    def _ecost_full(self, e):
        """cost of actually deriving e (opt / rep bodies count)."""
        k = e[0]
        if k in ("opt", "rep", "plus"):
            return self._ecost_full(e[1])
        if k == "seq":
            return max(self._ecost_full(e[1]), self._ecost_full(e[2]))
        if k == "choice":
            return min(self._ecost_full(e[1]), self._ecost_full(e[2]))
        return self._ecost(e)


MAIN_ENTRIES = {"input", "line", "expr", "type", "type_ident", "only_var", "var_macro", "decls", "ident"}
DERIVE_ENTRIES = ["input", "input", "input", "line", "expr", "type", "type_ident", "only_var", "var_macro", "decls",
                  "stm", "function", "match", "var", "struct_type", "slicing", "float", "int", "string", "ident"]


def derived_cases(tier, r):
    try:
        rules = load_grammar()
    except Exception as ex:     # the translator refuses the grammar: the build reports that
        common.log(f"L6: grammar-directed generation skipped ({ex})")
        return []
    d = Deriver(rules, r)
    out = []
    n = 250000 if tier == "thorough" else 40000
    # every rule of the grammar is used as entry rule (also atomic / silent / helper rules,
    # WHITESPACE and COMMENT), the main entry points more often
    entries = [e for e in DERIVE_ENTRIES if e in rules] * 8 + sorted(rules)
    for _ in range(n):
        rule = r.choice(entries)
        budget = d.cost.get(rule, 0) + r.randint(0, 9)
        t = d.gen(("ident", rule), budget + 1, False)
        if len(t) > 400 or not nesting_ok(t, 8):
            continue
        out.append(("derived", rule, t))
        if rule != "input":
            out.append(("derived", "input", t))
    return out


# --------------------------------------------------------------------------- lane

def _bucket(n):
    for b in (0, 1, 2, 4, 8, 16, 32, 64, 128, 256, 512, 1024, 4096):
        if n <= b:
            return "<=%d" % b
    return ">4096"


FRAG_TYPE = re.compile(r"(?:->|:)\s*([^=;{}\n]{1,60})")


def build_cases(tier):
    r = common.rng("L6")
    cases = []   # (origin, rule, text)
    corp = corpus()
    progs = [t for o, t in corp if o in ("doc", "script", "embedded")]
    for o, t in corp:
        cases.append((o, "input", t))
        if o in ("doc", "script", "embedded", "docline"):
            for rule in ("line", "expr", "decls"):
                cases.append((o, rule, t))
        if o == "ruststr" and len(t) <= 80:
            for rule in ("type", "only_var", "type_ident", "var_macro", "ident", "expr"):
                cases.append((o, rule, t))
    # type / value shaped fragments of the corpus
    for o, t in corp:
        if o in ("doc", "script", "embedded"):
            for m in FRAG_TYPE.finditer(t):
                f = m.group(1)
                cases.append(("frag", "type", f))
                cases.append(("frag", "type_ident", f))
            for tk, s in lex(t):
                if tk in ("num", "str"):
                    cases.append(("frag", "only_var", s))
            for m in re.finditer(r":=\s*([^\n;]{1,80})", t):
                cases.append(("frag", "only_var", m.group(1)))
                cases.append(("frag", "var_macro", m.group(1)))
    for o, t in token_texts(tier, r):
        cases.append((o, "input", t))
    # a sample of the short token sequences through the other entry rules
    short = [" ".join(s) for n in (1, 2) for s in itertools.product(TOKENS, repeat=n)]
    for t in short:
        cases.append(("tokentry", "expr", t))
        cases.append(("tokentry", "line", t))
    for t in TOKENS + KEYWORDS + ["truex", "true_", "_", "_1", "x1", "1x", "mutx", "breakfast", "é", "xé", "in", "if", "else",
                                  "any", "int", "returns", "continue_", "while1", "struct", "mod", "for", "loop"]:
        cases.append(("tokentry", "ident", t))
    nmut = 120000 if tier == "thorough" else 20000
    if progs:
        for _ in range(nmut):
            base = r.choice(progs)
            if len(base) > 1500:
                # mutate a window of lines to keep the cases small
                lines = base.split("\n")
                a = r.randrange(len(lines))
                base = "\n".join(lines[a:a + r.randint(1, 12)])
            t = mutate(base, r)
            if r.random() < 0.3:
                t = mutate(t, r)
            if nesting_ok(t, 9):
                cases.append(("mut", "input", t))
    for o, t in utf8_texts(tier, r):
        cases.append((o, "input", t))
        if len(t) <= 6:
            cases.append((o, "only_var", t))
            cases.append((o, "type", t))
    cases.extend(fragment_cases(tier, r))
    cases.extend(derived_cases(tier, r))
    # dedupe, keep order
    seen = set()
    uniq = []
    for o, rule, t in cases:
        k = (rule, t)
        if k not in seen:
            seen.add(k)
            uniq.append((o, rule, t))
    return uniq


def run(rep, tier):
    cases = build_cases(tier)
    lines = [case(rule, t) for _, rule, t in cases]
    mo, io = common.run_both(lines, timeout=1500)
    rep.evaluations += 2 * len(lines)
    rep.compared += len(lines)
    rep.distinct.update(lines)
    bad = 0
    for (origin, rule, text), line, m, i in zip(cases, lines, mo, io):
        verdict = "accept" if i.startswith("ok") else ("reject" if i == "fail" else "other")
        rep.count(f"L6.{rule if rule in MAIN_ENTRIES else 'other-entry'}.{verdict}")
        rep.count(f"L6.origin.{origin.split('.')[0]}")
        rep.count("L6.len" + _bucket(len(text)))
        if m != i:
            bad += 1
            if len(rep.disagreements) < 200:
                rep.disagreements.append({"lane": LANE, "case": line, "model": m[:2000], "impl": i[:2000]})
            elif bad == 201:
                rep.note("L6: more than 200 disagreements; only the first 200 are recorded")
        if i.startswith("!") and m == i:
            # both sides broke in the same way (timeout / death of a shard): nothing was compared
            rep.count("L6.uncompared")
    if bad > 200:
        rep.disagreements.append({"lane": LANE, "case": f"(... {bad - 200} further disagreements ...)", "model": "", "impl": ""})
    for k in (0, len(lines) // 7, len(lines) // 3, len(lines) // 2, len(lines) - 1):
        if 0 <= k < len(lines):
            rep.sample({"lane": LANE, "case": lines[k][:300], "impl": io[k][:300], "model": mo[k][:300]})
    return len(lines)

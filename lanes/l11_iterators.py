"""Lane L11 — iterator operators equal their sequence definitions (C11): operator pipelines over
array-derived and user-written iterators with logging callbacks.  The expected result AND the
expected log (order and number of source pulls and callback applications, laziness, early stop)
are computed in Python straight from the property text; the model is compared too."""
import itertools
from . import common, sast, l7_programs
from .sast import I, B, S, V

INT, BOOL = "int", "bool"


def E(e):
    return ["stm", ["expr", e]]


def ret(e):
    return ["stm", ["return", ["expr", e]]]


def wrap(z):
    return (z + 2**63) % 2**64 - 2**63


PRELUDE = [
    ["set", "log", ["expr", ["mut", ["arr", "int"], ["array"]]]],
    # user-written iterator over an array, logging every pull (300 + position)
    ["fndecl", "mk", [["xs", ["arr", "int"]]], ["fun", [], ["tup", "bool", "int"]], [
        ["set", "i", ["expr", ["mut", None, I(0)]]],
        ret(["fn", [], ["tup", "bool", "int"], [
            E(["bin", "+=", V("log"), ["array", ["bin", "+", I(300), ["pre", "deref", V("i")]]]]),
            ["stm", ["if", ["bin", "<", ["pre", "deref", V("i")], ["call", ["facc", V("std"), "len"], V("xs")]],
                     ["block", E(["bin", "+=", V("i"), I(1)]),
                      ret(["tuple", B(True), ["at", V("xs"), ["bin", "-", ["pre", "deref", V("i")], I(1)]]])], None]],
            ret(["tuple", B(False), I(0)])]])]],
    ["fndecl", "f", [["x", "int"]], "int", [E(["bin", "+=", V("log"), ["array", ["bin", "+", I(100), V("x")]]]), ret(["bin", "*", V("x"), I(2)])]],
    ["fndecl", "g", [["x", "int"]], "int", [E(["bin", "+=", V("log"), ["array", ["bin", "+", I(150), V("x")]]]), ret(["bin", "-", V("x"), I(3)])]],
    ["fndecl", "p", [["x", "int"]], "bool", [E(["bin", "+=", V("log"), ["array", ["bin", "+", I(200), V("x")]]]), ret(["bin", "==", ["bin", "%", V("x"), I(2)], I(0)])]],
    ["fndecl", "q", [["x", "int"]], "bool", [E(["bin", "+=", V("log"), ["array", ["bin", "+", I(250), V("x")]]]), ret(["bin", ">", V("x"), I(1)])]],
    ["fndecl", "b", [["x", "int"]], "bool", [E(["bin", "+=", V("log"), ["array", ["bin", "+", I(400), V("x")]]]), ret(["bin", "<", V("x"), I(4)])]],
    ["fndecl", "r", [["a", "int"], ["x", "int"]], "int", [E(["bin", "+=", V("log"), ["array", ["bin", "+", I(500), V("x")]]]), ret(["bin", "-", ["bin", "*", V("a"), I(2)], V("x")])]],
]

FUNS = {"f": (100, lambda x: wrap(x * 2)), "g": (150, lambda x: wrap(x - 3))}
PREDS = {"p": (200, lambda x: x % 2 == 0), "q": (250, lambda x: x > 1), "b": (400, lambda x: x < 4)}


class Pull:
    """pull-based iterator mirroring the documented protocol: every pull of a stage pulls its source
    (also after the end was reached once: an exhausted source is simply asked again)"""

    def __init__(self, pull):
        self.pull = pull           # () -> (True, x) | (False, None)

    def __iter__(self):
        return self

    def __next__(self):
        ok, x = self.pull()
        if not ok:
            raise StopIteration
        return x


def src_user(xs, log):
    state = {"i": 0}

    def pull():
        log.append(300 + state["i"])
        if state["i"] < len(xs):
            state["i"] += 1
            return True, xs[state["i"] - 1]
        return False, None
    return Pull(pull)


def src_array(xs, log):
    state = {"i": 0}

    def pull():
        if state["i"] < len(xs):
            state["i"] += 1
            return True, xs[state["i"] - 1]
        return False, None
    return Pull(pull)


def stage_py(kind, name, it, log):
    if kind == "map":
        base, fn = FUNS[name]

        def pull():
            ok, x = it.pull()
            if not ok:
                return False, None
            log.append(base + x)
            return True, fn(x)
        return Pull(pull)
    if kind == "filter":
        base, fn = PREDS[name]

        def pull():
            while True:
                ok, x = it.pull()
                if not ok:
                    return False, None
                log.append(base + x)
                if fn(x):
                    return True, x
        return Pull(pull)
    if kind == "tfilter":
        # `it ? int` over ints keeps everything (and pulls lazily, like the other stages)
        return Pull(it.pull)
    raise ValueError(kind)


def stage_ast(kind, name, e):
    if kind == "map":
        return ["bin", "@", e, V(name)]
    if kind == "filter":
        return ["bin", "?", e, V(name)]
    if kind == "tfilter":
        return ["tfilter", e, name]
    raise ValueError(kind)


def arr(xs):
    return ["array"] + [I(x) for x in xs]


def show_list(xs):
    return "(arr" + "".join(f" (i {x})" for x in xs) + ")"


def run(rep, tier):
    rnd = common.rng("L11")
    seqs = [[], [1], [2], [1, 2], [2, 1, 4], [1, 2, 3, 4, 5], [4, 4, 1], [0, -1, 6, 3]]
    if tier == "thorough":
        seqs += [[rnd.randrange(-3, 9) for _ in range(rnd.randrange(0, 7))] for _ in range(25)]
    stages_all = [("map", "f"), ("map", "g"), ("filter", "p"), ("filter", "q")]
    pipelines = [[]] + [[s] for s in stages_all] + [list(x) for x in itertools.product(stages_all, repeat=2)]
    pipelines += [[("tfilter", "int")], [("map", "f"), ("tfilter", "int")], [("tfilter", "int"), ("filter", "p")]]
    if tier == "thorough":
        pipelines += [list(x) for x in itertools.product(stages_all, repeat=3)][::3]
    consumers = ["collect", "partition", "reduce", "$+", "$*", "$&", "$|", "all", "any", "for", "for-break", "step2", "for-outer-names"]
    progs, expect = [], []
    for xs in seqs:
        for source in ("array", "user"):
            for pipe in pipelines:
                for cons in consumers:
                    log = []
                    it = src_user(xs, log) if source == "user" else src_array(xs, log)
                    e = ["call", V("mk"), arr(xs)] if source == "user" else ["post", arr(xs), "~"]
                    if source == "array" and not xs:
                        e = ["post", ["bin", "+", ["array"], ["slice", ["array", I(1)], I(0), I(0), None]], "~"]  # typed [int], empty
                    for kind, name in pipe:
                        it = stage_py(kind, name, it, log)
                        e = stage_ast(kind, name, e)
                    lines = list(PRELUDE)
                    if cons == "collect":
                        res = show_list(list(it))
                        lines.append(["set", "res", ["expr", ["post", e, "$]"]]])
                    elif cons == "partition":
                        yes, no = [], []
                        for x in it:
                            log.append(400 + x)
                            (yes if x < 4 else no).append(x)
                        res = f"(tup {show_list(yes)} {show_list(no)})"
                        lines.append(["set", "res", ["expr", ["bin", "\\", e, V("b")]]])
                    elif cons == "reduce":
                        acc = 7
                        for x in it:
                            log.append(500 + x)
                            acc = wrap(acc * 2 - x)
                        res = f"(i {acc})"
                        lines.append(["set", "res", ["expr", ["reduce", e, I(7), V("r")]]])
                    elif cons in ("$+", "$*", "$&", "$|"):
                        acc = {"$+": 0, "$*": 1, "$&": -1, "$|": 0}[cons]
                        for x in it:
                            acc = {"$+": lambda a, x: wrap(a + x), "$*": lambda a, x: wrap(a * x),
                                   "$&": lambda a, x: a & x, "$|": lambda a, x: a | x}[cons](acc, x)
                        res = f"(i {acc})"
                        lines.append(["set", "res", ["expr", ["post", e, cons]]])
                    elif cons in ("all", "any"):
                        # over the booleans b(x): stops at the first deciding element
                        val = cons == "all"
                        for x in it:
                            log.append(400 + x)
                            bx = x < 4
                            if cons == "all" and not bx:
                                val = False
                                break
                            if cons == "any" and bx:
                                val = True
                                break
                        res = f"(b {'true' if val else 'false'})"
                        lines.append(["set", "res", ["expr", ["post", ["bin", "@", e, V("b")], "$&&" if cons == "all" else "$||"]]])
                    elif cons in ("for", "for-break"):
                        acc = 0
                        for x in it:
                            if cons == "for-break" and x > 3:
                                break
                            log.append(600 + x)
                            acc = wrap(acc + x)
                        res = f"(i {acc})"
                        body = [E(["bin", "+=", V("log"), ["array", ["bin", "+", I(600), V("x")]]]), E(["bin", "+=", V("acc"), V("x")])]
                        if cons == "for-break":
                            body = [["stm", ["if", ["bin", ">", V("x"), I(3)], ["block", ["stm", "break"]], None]]] + body
                        lines.append(["set", "acc", ["expr", ["mut", None, I(0)]]])
                        lines.append(["stm", ["for", "x", e, ["block"] + body]])
                        lines.append(["set", "res", ["expr", ["pre", "deref", V("acc")]]])
                    elif cons == "for-outer-names":
                        # the loop body reads outer (run-time) variables whose names the iterator
                        # implementations use for their own locals: it must see its own
                        acc = 0
                        for x in it:
                            acc = wrap(acc + x + 1000 + 2000 + 3000 + 4000)
                        res = f"(i {acc})"
                        lines.append(["fndecl", "hid", [["n", "int"]], "int", [ret(V("n"))]])
                        for nm, val in (("i", 1000), ("res", 2000), ("value", 3000), ("con", 4000)):
                            lines.append(["set", nm, ["expr", ["call", V("hid"), I(val)]]])
                        lines.append(["set", "acc", ["expr", ["mut", None, I(0)]]])
                        lines.append(["stm", ["for", "x", e, ["block",
                                      E(["bin", "+=", V("acc"), ["bin", "+", ["bin", "+", ["bin", "+", ["bin", "+", V("x"), V("i")], V("res")], V("value")], V("con")]])]]])
                        lines.append(["set", "res", ["expr", ["pre", "deref", V("acc")]]])
                    elif cons == "step2":
                        # laziness: creating the pipeline pulls nothing; two pulls examine only what they need
                        got = []
                        for _ in range(2):
                            try:
                                got.append(next(it))
                            except StopIteration:
                                got.append(None)
                        res = "(arr" + "".join(" (b false)" if x is None else f" (i {x})" for x in got) + ")"
                        lines.append(["set", "it", ["expr", e]])
                        lines.append(["set", "before", ["expr", ["call", ["facc", V("std"), "len"], ["pre", "deref", V("log")]]]])
                        one = lambda: ["call", ["fn", [], "any", [
                            ["destruct", ["c", "v"], ["expr", ["call", V("it")]]],
                            ["stm", ["if", V("c"), ["return", ["expr", V("v")]], None]],
                            ret(B(False))]]]
                        lines.append(["set", "res", ["expr", ["array", one(), one()]]])
                    tail = ["tuple", V("res"), ["pre", "deref", V("log")]]
                    if cons == "step2":
                        tail = ["tuple", V("res"), ["pre", "deref", V("log")], V("before")]
                        expect.append(f"ok (tup {res} {show_list(log)} (i 0))")
                    else:
                        expect.append(f"ok (tup {res} {show_list(log)})")
                    lines.append(E(tail))
                    progs.append(lines)
    # every pipeline expression evaluated MORE THAN ONCE (a function called twice, a loop body run
    # twice): each evaluation must enumerate the whole source again -- an iterator object that is
    # built once (folded into the tree, cached in the instruction) shows here
    twice_progs, twice_expect = [], []
    for xs in seqs:
        for pipe in [[]] + [[s] for s in stages_all] + [[("tfilter", "int")], [("tfilter", "int"), ("map", "f")]]:
            for cons, ty in (("collect", ["arr", "int"]), ("$+", "int"), ("reduce", "int"), ("for", "int")):
                for shape in ("fn-twice", "loop-twice", "captured-array"):
                    log = []
                    results = []
                    for _ in range(2):
                        it = src_array(xs, log)
                        for kind, name in pipe:
                            it = stage_py(kind, name, it, log)
                        if cons == "collect":
                            results.append(show_list(list(it)))
                        elif cons == "$+":
                            acc = 0
                            for x in it:
                                acc = wrap(acc + x)
                            results.append(f"(i {acc})")
                        elif cons == "reduce":
                            acc = 7
                            for x in it:
                                log.append(500 + x)
                                acc = wrap(acc * 2 - x)
                            results.append(f"(i {acc})")
                        else:
                            acc = 0
                            for x in it:
                                log.append(600 + x)
                                acc = wrap(acc + x)
                            results.append(f"(i {acc})")
                    src = arr(xs) if xs else ["bin", "+", ["array"], ["slice", ["array", I(1)], I(0), I(0), None]]
                    lines = list(PRELUDE)
                    if shape == "captured-array":
                        lines.append(["set", "data", ["expr", src]])
                        e = ["post", V("data"), "~"]
                    else:
                        e = ["post", src, "~"]
                    for kind, name in pipe:
                        e = stage_ast(kind, name, e)
                    if cons == "collect":
                        body = [ret(["post", e, "$]"])]
                    elif cons == "$+":
                        body = [ret(["post", e, "$+"])]
                    elif cons == "reduce":
                        body = [ret(["reduce", e, I(7), V("r")])]
                    else:
                        body = [["set", "acc", ["expr", ["mut", None, I(0)]]],
                                ["stm", ["for", "x", e, ["block",
                                         E(["bin", "+=", V("log"), ["array", ["bin", "+", I(600), V("x")]]]),
                                         E(["bin", "+=", V("acc"), V("x")])]]],
                                ret(["pre", "deref", V("acc")])]
                    if shape == "loop-twice":
                        # the same expression sits in a loop body that runs twice
                        lines.append(["set", "out", ["expr", ["mut", ["arr", ty], ["array"]]]])
                        lines.append(["set", "k", ["expr", ["mut", None, I(0)]]])
                        lines.append(["stm", ["while", ["bin", "<", ["pre", "deref", V("k")], I(2)], ["block",
                                      E(["bin", "+=", V("k"), I(1)]),
                                      E(["bin", "+=", V("out"), ["array", ["call", ["fn", [], ty, body]]]])]]])
                        lines.append(E(["tuple", ["pre", "deref", V("out")], ["pre", "deref", V("log")]]))
                        twice_expect.append(f"ok (tup (arr {results[0]} {results[1]}) {show_list(log)})")
                    else:
                        lines.append(["fndecl", "run1", [], ty, body])
                        lines.append(["set", "res", ["expr", ["tuple", ["call", V("run1")], ["call", V("run1")]]]])
                        lines.append(E(["tuple", V("res"), ["pre", "deref", V("log")]]))
                        twice_expect.append(f"ok (tup (tup {results[0]} {results[1]}) {show_list(log)})")
                    twice_progs.append(lines)
    # thin out in the quick tier
    if tier != "thorough":
        # every third program, with an offset that rotates per block of consumers so that every
        # consumer (12 per pipeline) is kept for a third of the pipelines
        keep = [k for k in range(len(progs)) if (k + k // len(consumers)) % 3 == 0]
        progs = [progs[k] for k in keep]
        expect = [expect[k] for k in keep]
        keep = [k for k in range(len(twice_progs)) if k % 2 == 0]
        twice_progs = [twice_progs[k] for k in keep]
        twice_expect = [twice_expect[k] for k in keep]
    rep.count("L11.twice", len(twice_progs))
    progs += twice_progs
    expect += twice_expect
    mo, io = l7_programs.run_programs(rep, progs, "L11")
    plain = l7_programs.untyped(io)
    for k, p in enumerate(progs):
        got = plain[k]
        if got != expect[k]:
            rep.violations.append({"property": "C11", "lane": "L11",
                                   "what": f"pipeline result/log differs from the sequence definition: implementation {got[:260]} / expected {expect[k][:260]}",
                                   "program": sast.program(p[len(PRELUDE):]),
                                   "case": '(run-ty "' + l7_programs.esc(sast.program(p)) + '")'})
    rep.count("L11.programs", len(progs))
    rep.sample({"lane": "L11", "program": sast.program(progs[len(progs) // 2][len(PRELUDE):]), "expected": expect[len(progs) // 2]})

"""Lane L11 — iterator operators equal their sequence definitions (C11): operator pipelines over
array-derived and user-written iterators with logging callbacks.  The expected result AND the
expected log (order and number of source pulls and callback applications, laziness, early stop)
are computed in Python straight from the property text; the model is compared too."""
import itertools
from . import common, sast, l7_programs
from .sast import I, B, S, V

INT, BOOL = "int", "bool"


def E(e):
    return ["stm", ["expr", e]]


def ret(e):
    return ["stm", ["return", ["expr", e]]]


def wrap(z):
    return (z + 2**63) % 2**64 - 2**63


PRELUDE = [
    ["set", "log", ["expr", ["mut", ["arr", "int"], ["array"]]]],
    # user-written iterator over an array, logging every pull (300 + position)
    ["fndecl", "mk", [["xs", ["arr", "int"]]], ["fun", [], ["tup", "bool", "int"]], [
        ["set", "i", ["expr", ["mut", None, I(0)]]],
        ret(["fn", [], ["tup", "bool", "int"], [
            E(["bin", "+=", V("log"), ["array", ["bin", "+", I(300), ["pre", "deref", V("i")]]]]),
            ["stm", ["if", ["bin", "<", ["pre", "deref", V("i")], ["call", ["facc", V("std"), "len"], V("xs")]],
                     ["block", E(["bin", "+=", V("i"), I(1)]),
                      ret(["tuple", B(True), ["at", V("xs"), ["bin", "-", ["pre", "deref", V("i")], I(1)]]])], None]],
            ret(["tuple", B(False), I(0)])]])]],
    ["fndecl", "f", [["x", "int"]], "int", [E(["bin", "+=", V("log"), ["array", ["bin", "+", I(100), V("x")]]]), ret(["bin", "*", V("x"), I(2)])]],
    ["fndecl", "g", [["x", "int"]], "int", [E(["bin", "+=", V("log"), ["array", ["bin", "+", I(150), V("x")]]]), ret(["bin", "-", V("x"), I(3)])]],
    ["fndecl", "p", [["x", "int"]], "bool", [E(["bin", "+=", V("log"), ["array", ["bin", "+", I(200), V("x")]]]), ret(["bin", "==", ["bin", "%", V("x"), I(2)], I(0)])]],
    ["fndecl", "q", [["x", "int"]], "bool", [E(["bin", "+=", V("log"), ["array", ["bin", "+", I(250), V("x")]]]), ret(["bin", ">", V("x"), I(1)])]],
    ["fndecl", "b", [["x", "int"]], "bool", [E(["bin", "+=", V("log"), ["array", ["bin", "+", I(400), V("x")]]]), ret(["bin", "<", V("x"), I(4)])]],
    ["fndecl", "r", [["a", "int"], ["x", "int"]], "int", [E(["bin", "+=", V("log"), ["array", ["bin", "+", I(500), V("x")]]]), ret(["bin", "-", ["bin", "*", V("a"), I(2)], V("x")])]],
]

FUNS = {"f": (100, lambda x: wrap(x * 2)), "g": (150, lambda x: wrap(x - 3))}
PREDS = {"p": (200, lambda x: x % 2 == 0), "q": (250, lambda x: x > 1), "b": (400, lambda x: x < 4)}


class PyIter:
    """lazy python iterator mirroring the documented semantics, sharing one log"""

    def __init__(self, log):
        self.log = log


def src_user(xs, log):
    def gen():
        i = 0
        while True:
            log.append(300 + i)
            if i < len(xs):
                i += 1
                yield xs[i - 1]
            else:
                return
    return gen()


def src_array(xs, log):
    return iter(list(xs))


def stage_py(kind, name, it, log):
    if kind == "map":
        base, fn = FUNS[name]

        def gen():
            for x in it:
                log.append(base + x)
                yield fn(x)
        return gen()
    if kind == "filter":
        base, fn = PREDS[name]

        def gen():
            for x in it:
                log.append(base + x)
                if fn(x):
                    yield x
        return gen()
    raise ValueError(kind)


def stage_ast(kind, name, e):
    if kind == "map":
        return ["bin", "@", e, V(name)]
    if kind == "filter":
        return ["bin", "?", e, V(name)]
    raise ValueError(kind)


def arr(xs):
    return ["array"] + [I(x) for x in xs]


def show_list(xs):
    return "(arr" + "".join(f" (i {x})" for x in xs) + ")"


def run(rep, tier):
    rnd = common.rng("L11")
    seqs = [[], [1], [2], [1, 2], [2, 1, 4], [1, 2, 3, 4, 5], [4, 4, 1], [0, -1, 6, 3]]
    if tier == "thorough":
        seqs += [[rnd.randrange(-3, 9) for _ in range(rnd.randrange(0, 7))] for _ in range(25)]
    stages_all = [("map", "f"), ("map", "g"), ("filter", "p"), ("filter", "q")]
    pipelines = [[]] + [[s] for s in stages_all] + [list(x) for x in itertools.product(stages_all, repeat=2)]
    if tier == "thorough":
        pipelines += [list(x) for x in itertools.product(stages_all, repeat=3)][::3]
    consumers = ["collect", "partition", "reduce", "$+", "$*", "$&", "$|", "all", "any", "for", "for-break", "step2"]
    progs, expect = [], []
    for xs in seqs:
        for source in ("array", "user"):
            for pipe in pipelines:
                for cons in consumers:
                    log = []
                    it = src_user(xs, log) if source == "user" else src_array(xs, log)
                    e = ["call", V("mk"), arr(xs)] if source == "user" else ["post", arr(xs), "~"]
                    if source == "array" and not xs:
                        e = ["post", ["bin", "+", ["array"], ["slice", ["array", I(1)], I(0), I(0), None]], "~"]  # typed [int], empty
                    for kind, name in pipe:
                        it = stage_py(kind, name, it, log)
                        e = stage_ast(kind, name, e)
                    lines = list(PRELUDE)
                    if cons == "collect":
                        res = show_list(list(it))
                        lines.append(["set", "res", ["expr", ["post", e, "$]"]]])
                    elif cons == "partition":
                        yes, no = [], []
                        for x in it:
                            log.append(400 + x)
                            (yes if x < 4 else no).append(x)
                        res = f"(tup {show_list(yes)} {show_list(no)})"
                        lines.append(["set", "res", ["expr", ["bin", "\\", e, V("b")]]])
                    elif cons == "reduce":
                        acc = 7
                        for x in it:
                            log.append(500 + x)
                            acc = wrap(acc * 2 - x)
                        res = f"(i {acc})"
                        lines.append(["set", "res", ["expr", ["reduce", e, I(7), V("r")]]])
                    elif cons in ("$+", "$*", "$&", "$|"):
                        acc = {"$+": 0, "$*": 1, "$&": -1, "$|": 0}[cons]
                        for x in it:
                            acc = {"$+": lambda a, x: wrap(a + x), "$*": lambda a, x: wrap(a * x),
                                   "$&": lambda a, x: a & x, "$|": lambda a, x: a | x}[cons](acc, x)
                        res = f"(i {acc})"
                        lines.append(["set", "res", ["expr", ["post", e, cons]]])
                    elif cons in ("all", "any"):
                        # over the booleans b(x): stops at the first deciding element
                        val = cons == "all"
                        for x in it:
                            log.append(400 + x)
                            bx = x < 4
                            if cons == "all" and not bx:
                                val = False
                                break
                            if cons == "any" and bx:
                                val = True
                                break
                        res = f"(b {'true' if val else 'false'})"
                        lines.append(["set", "res", ["expr", ["post", ["bin", "@", e, V("b")], "$&&" if cons == "all" else "$||"]]])
                    elif cons in ("for", "for-break"):
                        acc = 0
                        for x in it:
                            if cons == "for-break" and x > 3:
                                break
                            log.append(600 + x)
                            acc = wrap(acc + x)
                        res = f"(i {acc})"
                        body = [E(["bin", "+=", V("log"), ["array", ["bin", "+", I(600), V("x")]]]), E(["bin", "+=", V("acc"), V("x")])]
                        if cons == "for-break":
                            body = [["stm", ["if", ["bin", ">", V("x"), I(3)], ["block", ["stm", "break"]], None]]] + body
                        lines.append(["set", "acc", ["expr", ["mut", None, I(0)]]])
                        lines.append(["stm", ["for", "x", e, ["block"] + body]])
                        lines.append(["set", "res", ["expr", ["pre", "deref", V("acc")]]])
                    elif cons == "step2":
                        # laziness: creating the pipeline pulls nothing; two pulls examine only what they need
                        got = []
                        for _ in range(2):
                            try:
                                got.append(next(it))
                            except StopIteration:
                                got.append(None)
                        res = "(arr" + "".join(" (b false)" if x is None else f" (i {x})" for x in got) + ")"
                        lines.append(["set", "it", ["expr", e]])
                        lines.append(["set", "before", ["expr", ["call", ["facc", V("std"), "len"], ["pre", "deref", V("log")]]]])
                        one = lambda: ["call", ["fn", [], "any", [
                            ["destruct", ["c", "v"], ["expr", ["call", V("it")]]],
                            ["stm", ["if", V("c"), ["return", ["expr", V("v")]], None]],
                            ret(B(False))]]]
                        lines.append(["set", "res", ["expr", ["array", one(), one()]]])
                    tail = ["tuple", V("res"), ["pre", "deref", V("log")]]
                    if cons == "step2":
                        tail = ["tuple", V("res"), ["pre", "deref", V("log")], V("before")]
                        expect.append(f"ok (tup {res} {show_list(log)} (i 0))")
                    else:
                        expect.append(f"ok (tup {res} {show_list(log)})")
                    lines.append(E(tail))
                    progs.append(lines)
    # thin out in the quick tier
    if tier != "thorough":
        keep = [k for k in range(len(progs)) if k % 3 == 0 or len(progs[k]) < 0]
        progs = [progs[k] for k in keep]
        expect = [expect[k] for k in keep]
    mo, io = l7_programs.run_programs(rep, progs, "L11")
    plain = l7_programs.untyped(io)
    for k, p in enumerate(progs):
        got = plain[k]
        if got != expect[k]:
            rep.violations.append({"property": "C11", "lane": "L11",
                                   "what": f"pipeline result/log differs from the sequence definition: implementation {got[:260]} / expected {expect[k][:260]}",
                                   "program": sast.program(p[len(PRELUDE):]),
                                   "case": '(run-ty "' + l7_programs.esc(sast.program(p)) + '")'})
    rep.count("L11.programs", len(progs))
    rep.sample({"lane": "L11", "program": sast.program(progs[len(progs) // 2][len(PRELUDE):]), "expected": expect[len(progs) // 2]})

"""Crafted programs (surface ASTs): minimised past findings and constructs the random
generators reach rarely.  Each entry: (id, properties, lines).  They run first in the
program lanes; model and implementation must agree on them, the implementation must not
panic, and the value must inhabit the static type."""
from .sast import I, B, S, V, VOID

IT_INT = ["fun", [], ["tup", "bool", "int"]]


def ret(e):
    return ["stm", ["return", ["expr", e]]]


def E(e):
    return ["stm", ["expr", e]]


CORPUS = [
    ("never-index-chain", ["C03"], [["set", "x", ["expr", ["at", ["at", ["array"], I(0)], I(0)]]], E(V("x"))]),
    ("never-index-break", ["C03"], [["stm", ["loop", ["block", ["set", "x", "break"], ["set", "y", ["expr", ["at", V("x"), I(0)]]]]]], E(I(1))]),
    ("never-iter", ["C03"], [["stm", ["loop", ["block", ["set", "x", "break"], E(["post", V("x"), "~"])]]], E(I(1))]),
    ("never-sum", ["C03"], [["stm", ["loop", ["block", ["set", "x", "break"], E(["post", V("x"), "$+"])]]], E(I(1))]),
    ("never-product", ["C03"], [["stm", ["loop", ["block", ["set", "x", "break"], E(["post", V("x"), "$*"])]]], E(I(1))]),
    ("never-collect", ["C03"], [["stm", ["loop", ["block", ["set", "x", "break"], E(["post", V("x"), "$]"])]]], E(I(1))]),
    ("never-array-plus", ["C03"], [["stm", ["loop", ["block", ["set", "x", "break"], E(["bin", "+", ["array", I(1)], V("x")])]]], E(I(1))]),
    ("never-slice", ["C03"], [["stm", ["loop", ["block", ["set", "x", "break"], E(["slice", V("x"), I(0), None, None])]]], E(I(1))]),
    ("never-all", ["C03"], [["stm", ["loop", ["block", ["set", "x", "break"], E(["post", V("x"), "$&&"])]]], E(I(1))]),
    ("never-tfilter", ["C03"], [["stm", ["loop", ["block", ["set", "x", "break"], E(["tfilter", V("x"), "int"])]]], E(I(1))]),
    ("iter-without-element-collect", ["C03"], [["fndecl", "f", [], "never", [ret(["call", V("f")])]], ["set", "x", ["expr", ["post", V("f"), "$]"]]], E(I(1))]),
    ("iter-without-element-sum", ["C03"], [["fndecl", "f", [], "never", [ret(["call", V("f")])]], ["set", "x", ["expr", ["post", V("f"), "$+"]]], E(I(1))]),
    ("iter-without-element-product", ["C03"], [["fndecl", "f", [], ["tup", "never", "int"], [ret(["call", V("f")])]], ["set", "x", ["expr", ["post", V("f"), "$*"]]], E(I(1))]),
    ("iter-without-element-all", ["C03"], [["fndecl", "f", [], "never", [ret(["call", V("f")])]], ["fndecl", "g", [], "bool", [ret(["post", V("f"), "$&&"])]], E(I(1))]),
    ("mut-union-deref", ["C03", "C05"], [
        ["fndecl", "f", [["m", ["multi", ["mut", "int"], ["mut", "float"]]]], ["multi", "int", "float"], [ret(["pre", "deref", V("m")])]],
        E(["call", V("f"), ["mut", None, I(1)]])]),
    ("mut-union-assign", ["C03", "C13"], [
        ["fndecl", "f", [["m", ["multi", ["mut", "int"], ["mut", ["multi", "int", "string"]]]]], "void",
         [E(["bin", "=", V("m"), I(5)])]],
        ["set", "c", ["expr", ["mut", None, I(1)]]], E(["call", V("f"), V("c")]), E(["pre", "deref", V("c")])]),
    ("toplevel-redeclare-deref", ["C03", "C17"], [["set", "x", ["expr", ["mut", None, I(1)]]], ["set", "x", ["expr", ["pre", "deref", V("x")]]], E(V("x"))]),
    ("toplevel-redeclare-tuple", ["C01", "C17"], [
        ["fndecl", "g", [["n", "int"]], "int", [ret(V("n"))]],
        ["set", "x", ["expr", ["call", V("g"), I(1)]]],
        ["set", "x", ["expr", ["tuple", V("x"), I(2)]]],
        E(["tacc", ["tacc", V("x"), 0], 1])]),
    ("assign-add-array-int", ["C03"], [["set", "x", ["expr", ["mut", None, ["array", I(1)]]]], E(["bin", "+=", V("x"), I(5)]), E(I(1))]),
    ("assign-add-array-ok", ["C13"], [["set", "x", ["expr", ["mut", ["arr", "int"], ["array", I(1)]]]], E(["bin", "+=", V("x"), ["array", I(5)]]), E(["pre", "deref", V("x")])]),
    ("iterator-body-scope-collect", ["C06", "C01"], [
        ["fndecl", "it", [], ["tup", "bool", "int"], [["set", "z", ["expr", I(5)]], ret(["tuple", B(False), I(0)])]],
        ["fndecl", "f", [["s", "string"]], "string", [
            ["set", "z", ["expr", ["bin", "+", V("s"), S("!")]]],
            ["set", "r", ["expr", ["post", V("it"), "$]"]]],
            ret(V("z"))]],
        E(["call", V("f"), S("a")])]),
    ("iterator-body-scope-reduce", ["C06", "C01"], [
        ["fndecl", "it", [], ["tup", "bool", "int"], [["set", "z", ["expr", I(5)]], ret(["tuple", B(False), I(0)])]],
        ["fndecl", "f", [["s", "string"]], "string", [
            ["set", "z", ["expr", ["bin", "+", V("s"), S("!")]]],
            ["set", "r", ["expr", ["reduce", V("it"), I(0), ["fn", [["a", "int"], ["b", "int"]], "int", [ret(V("a"))]]]]],
            ret(V("z"))]],
        E(["call", V("f"), S("a")])]),
    ("iterator-body-scope-sum", ["C06", "C01"], [
        ["fndecl", "it", [], ["tup", "bool", "int"], [["set", "z", ["expr", I(5)]], ret(["tuple", B(False), I(0)])]],
        ["fndecl", "f", [["s", "string"]], "string", [
            ["set", "z", ["expr", ["bin", "+", V("s"), S("!")]]],
            ["set", "r", ["expr", ["post", V("it"), "$+"]]],
            ret(V("z"))]],
        E(["call", V("f"), S("a")])]),
    ("recursive-iterator-in-function", ["C06", "C02"], [
        ["set", "c", ["expr", ["mut", None, I(0)]]],
        ["fndecl", "it", [], ["tup", "bool", "int"], [
            E(["bin", "+=", V("c"), I(1)]),
            ["stm", ["if", ["bin", ">", ["pre", "deref", V("c")], I(3)], ["block", ret(["tuple", B(False), I(0)])], None]],
            ["stm", ["if", ["bin", "==", ["pre", "deref", V("c")], I(2)], ["block", ["set", "skip", ["expr", ["call", V("it")]]], ret(V("skip"))], None]],
            ret(["tuple", B(True), ["pre", "deref", V("c")]])]],
        ["fndecl", "f", [], ["arr", "int"], [ret(["post", V("it"), "$]"])]],
        E(["call", V("f")])]),
    ("closure-capture-then-redeclare", ["C06"], [
        ["set", "a", ["expr", ["bin", "+", I(1), ["call", ["fn", [], "int", [ret(I(1))]]]]]],
        ["fndecl", "f", [], "int", [ret(V("a"))]],
        ["set", "a", ["expr", I(100)]],
        E(["tuple", ["call", V("f")], V("a")])]),
    ("closure-shares-cell", ["C06", "C13"], [
        ["set", "c", ["expr", ["mut", None, I(1)]]],
        ["fndecl", "f", [], "int", [ret(["bin", "+=", V("c"), I(10)])]],
        E(["bin", "=", V("c"), I(5)]),
        E(["tuple", ["call", V("f")], ["pre", "deref", V("c")]])]),
    ("self-recursion", ["C06"], [
        ["fndecl", "fact", [["n", "int"]], "int", [
            ["stm", ["if", ["bin", "<=", V("n"), I(1)], ["return", ["expr", I(1)]], None]],
            ret(["bin", "*", V("n"), ["call", V("fact"), ["bin", "-", V("n"), I(1)]]])]],
        E(["call", V("fact"), I(10)])]),
    ("self-recursion-through-map", ["C06"], [
        ["fndecl", "sumto", [["n", "int"]], "int", [
            ["stm", ["if", ["bin", "<=", V("n"), I(0)], ["return", ["expr", I(0)]], None]],
            ret(["bin", "+", V("n"), ["post", ["bin", "@", ["post", ["array", ["bin", "-", V("n"), I(1)]], "~"], V("sumto")], "$+"]])]],
        E(["call", V("sumto"), I(4)])]),
    ("module-exports", ["C06"], [
        ["set", "m", ["expr", ["mod", ["set", "a", ["expr", I(1)]], ["set", "b", ["expr", ["bin", "+", V("a"), I(1)]]],
                                ["stm", ["block", ["set", "hidden", ["expr", I(9)]]]]]]],
        E(["tuple", ["facc", V("m"), "a"], ["facc", V("m"), "b"]])]),
    ("module-hidden-field", ["C06"], [
        ["set", "m", ["expr", ["mod", ["set", "a", ["expr", I(1)]], ["stm", ["block", ["set", "hidden", ["expr", I(9)]]]]]]],
        E(["facc", V("m"), "hidden"])]),
    ("block-scope-invisible", ["C06"], [["stm", ["block", ["set", "q", ["expr", I(1)]]]], E(V("q"))]),
    ("loop-scope-invisible", ["C06"], [["stm", ["for", "x", ["post", ["array", I(1)], "~"], ["block", ["set", "q", ["expr", V("x")]]]]], E(V("x"))]),
    ("end-marker-never-elem", ["C01", "C02"], [E(["bin", "+", ["tacc", ["call", ["post", ["array"], "~"]], 1], I(1)])]),
    ("type-filter-never", ["C02"], [E(["tfilter", ["post", ["array", I(1)], "~"], "never"])]),
    ("map-end-marker", ["C01", "C02"], [
        ["set", "r", ["expr", ["bin", "@", ["post", ["array", I(1)], "~"], ["fn", [["x", "int"]], "string", [ret(S("s"))]]]]],
        ["set", "a", ["expr", ["call", V("r")]]], ["set", "b", ["expr", ["call", V("r")]]],
        E(["bin", "+", ["tacc", V("b"), 1], S("x")])]),
    ("sum-never-elem-type", ["C01"], [E(["post", ["post", ["array"], "~"], "$+"])]),
    ("sum-never-missing-return", ["C01", "C02"], [
        ["fndecl", "f", [], "int", [["set", "x", ["expr", ["post", ["post", ["array"], "~"], "$+"]]]]],
        E(["bin", "+", ["call", V("f")], I(1)])]),
    ("union-end-marker-default", ["C05"], [
        ["set", "it", ["expr", ["post", ["array", I(1), S("a")], "~"]]],
        E(["call", V("it")]), E(["call", V("it")]), E(["call", V("it")])]),
    ("match-value-order", ["C07", "C12"], [
        ["set", "log", ["expr", ["mut", ["arr", "int"], ["array"]]]],
        ["fndecl", "t", [["n", "int"]], "int", [E(["bin", "+=", V("log"), ["array", V("n")]]), ret(V("n"))]],
        ["set", "r", ["match", ["call", V("t"), I(2)],
                      ["aval", [["call", V("t"), I(1)], ["call", V("t"), I(2)], ["call", V("t"), I(3)]], ["block", E(S("first"))]],
                      ["aval", [["call", V("t"), I(2)]], ["block", E(S("second"))]],
                      ["aother", ["block", E(S("other"))]]]],
        E(["tuple", V("r"), ["pre", "deref", V("log")]])]),
    ("break-in-nested-block-arm", ["C12"], [
        ["set", "c", ["expr", ["mut", None, I(0)]]],
        ["stm", ["loop", ["block",
                          E(["bin", "+=", V("c"), I(1)]),
                          ["stm", ["match", ["pre", "deref", V("c")],
                                   ["aval", [I(3)], ["block", ["stm", ["block", ["stm", ["if", B(True), ["block", ["stm", "break"]], None]]]]]],
                                   ["aother", ["block", ["stm", "continue"]]]]],
                          E(["bin", "+=", V("c"), I(100)])]]],
        E(["pre", "deref", V("c")])]),
    ("return-from-nested-loops", ["C12"], [
        ["fndecl", "f", [], "int", [
            ["stm", ["for", "x", ["post", ["array", I(1), I(2), I(3)], "~"], ["block",
                ["stm", ["for", "y", ["post", ["array", I(10), I(20)], "~"], ["block",
                    ["stm", ["if", ["bin", "==", ["bin", "+", V("x"), V("y")], I(22)], ["return", ["expr", ["bin", "*", V("x"), V("y")]]], None]]]]]]]],
            ret(I(0))]],
        E(["call", V("f")])]),
    ("while-set-stops-at-non-match", ["C12"], [
        ["set", "it", ["expr", ["post", ["array", I(1), I(2), S("x"), I(4)], "~"]]],
        ["set", "acc", ["expr", ["mut", None, I(0)]]],
        ["stm", ["whileset", "v", "int", ["tacc", ["call", V("it")], 1], ["block", E(["bin", "+=", V("acc"), V("v")])]]],
        E(["pre", "deref", V("acc")])]),
]

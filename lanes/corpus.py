"""Crafted programs (surface ASTs): minimised past findings and constructs the random
generators reach rarely.  Each entry: (id, properties, lines).  They run first in the
program lanes; model and implementation must agree on them, the implementation must not
panic, and the value must inhabit the static type."""
from .sast import I, B, S, V, VOID

IT_INT = ["fun", [], ["tup", "bool", "int"]]


def ret(e):
    return ["stm", ["return", ["expr", e]]]


def E(e):
    return ["stm", ["expr", e]]


def ret_stm(st):
    return ["stm", ["return", st]]


CORPUS = [
    ("never-index-chain", ["C03"], [["set", "x", ["expr", ["at", ["at", ["array"], I(0)], I(0)]]], E(V("x"))]),
    ("never-index-break", ["C03"], [["stm", ["loop", ["block", ["set", "x", "break"], ["set", "y", ["expr", ["at", V("x"), I(0)]]]]]], E(I(1))]),
    ("never-iter", ["C03"], [["stm", ["loop", ["block", ["set", "x", "break"], E(["post", V("x"), "~"])]]], E(I(1))]),
    ("never-sum", ["C03"], [["stm", ["loop", ["block", ["set", "x", "break"], E(["post", V("x"), "$+"])]]], E(I(1))]),
    ("never-product", ["C03"], [["stm", ["loop", ["block", ["set", "x", "break"], E(["post", V("x"), "$*"])]]], E(I(1))]),
    ("never-collect", ["C03"], [["stm", ["loop", ["block", ["set", "x", "break"], E(["post", V("x"), "$]"])]]], E(I(1))]),
    ("never-array-plus", ["C03"], [["stm", ["loop", ["block", ["set", "x", "break"], E(["bin", "+", ["array", I(1)], V("x")])]]], E(I(1))]),
    ("never-slice", ["C03"], [["stm", ["loop", ["block", ["set", "x", "break"], E(["slice", V("x"), I(0), None, None])]]], E(I(1))]),
    ("never-all", ["C03"], [["stm", ["loop", ["block", ["set", "x", "break"], E(["post", V("x"), "$&&"])]]], E(I(1))]),
    ("never-tfilter", ["C03"], [["stm", ["loop", ["block", ["set", "x", "break"], E(["tfilter", V("x"), "int"])]]], E(I(1))]),
    ("iter-without-element-collect", ["C03"], [["fndecl", "f", [], "never", [ret(["call", V("f")])]], ["set", "x", ["expr", ["post", V("f"), "$]"]]], E(I(1))]),
    ("iter-without-element-sum", ["C03"], [["fndecl", "f", [], "never", [ret(["call", V("f")])]], ["set", "x", ["expr", ["post", V("f"), "$+"]]], E(I(1))]),
    ("iter-without-element-product", ["C03"], [["fndecl", "f", [], ["tup", "never", "int"], [ret(["call", V("f")])]], ["set", "x", ["expr", ["post", V("f"), "$*"]]], E(I(1))]),
    ("iter-without-element-all", ["C03"], [["fndecl", "f", [], "never", [ret(["call", V("f")])]], ["fndecl", "g", [], "bool", [ret(["post", V("f"), "$&&"])]], E(I(1))]),
    ("union-of-cells-assign-unsound", ["C01", "C13", "C02"], [
        ["set", "a", ["expr", ["mut", None, I(1)]]], ["set", "b", ["expr", ["mut", None, B(True)]]],
        ["set", "c", ["if", ["pre", "deref", V("b")], ["block", E(V("a"))], ["block", E(["mut", None, ["c", ["f", 4609434218613702656]]])]]],
        E(["bin", "=", V("c"), ["c", ["f", 4612811918334230528]]]),
        E(["bin", "+", ["pre", "deref", V("a")], I(1)])]),
    ("union-of-cells-assign-ok", ["C13"], [
        ["set", "a", ["expr", ["mut", None, I(1)]]], ["set", "b", ["expr", ["mut", None, B(True)]]],
        ["set", "c", ["if", ["pre", "deref", V("b")], ["block", E(V("a"))], ["block", E(["mut", None, I(2)])]]],
        E(["bin", "+=", V("c"), I(5)]),
        E(["tuple", ["pre", "deref", V("a")], ["pre", "deref", V("c")]])]),
    ("narrowed-to-never-opassign", ["C03"], [
        ["set", "c", ["expr", ["mut", None, I(1)]]],
        ["fndecl", "f", [], "int", [
            ["set", "y", ["if", B(True), ["return", ["expr", I(1)]], ["block", E(V("c"))]]],
            ["set", "z", ["expr", ["bin", "+=", V("y"), I(1)]]], ret(I(2))]],
        E(["call", V("f")])]),
    ("narrowed-to-never-index", ["C03"], [
        ["fndecl", "g", [], "int", [
            ["set", "x", ["if", B(True), ["return", ["expr", I(1)]], ["block", E(["array", I(1)])]]],
            ["set", "y", ["expr", ["at", V("x"), I(0)]]], ret(V("y"))]],
        E(["call", V("g")])]),
    ("narrowed-to-never-in-loop", ["C03"], [
        ["set", "k", ["expr", ["mut", None, I(0)]]],
        ["stm", ["while", ["bin", "<", ["pre", "deref", V("k")], I(1)], ["block",
            E(["bin", "+=", V("k"), I(1)]),
            ["set", "x", ["if", B(True), ["block", ["stm", "break"]], ["block", E(["array", I(1)])]]],
            ["set", "y", ["expr", ["at", V("x"), I(0)]]]]]],
        E(["pre", "deref", V("k")])]),
    ("narrowed-to-never-destruct-field-call", ["C03"], [
        ["fndecl", "g", [], "int", [
            ["destruct", ["a", "b"], ["if", B(True), ["return", ["expr", I(1)]], ["block", E(["tuple", I(1), I(2)])]]],
            ["set", "s", ["if", B(True), ["return", ["expr", I(1)]], ["block", E(["struct", ["a", I(1)]])]]],
            ["set", "q", ["expr", ["facc", V("s"), "a"]]],
            ["set", "t", ["if", B(True), ["return", ["expr", I(1)]], ["block", E(["tuple", I(1), I(2)])]]],
            ["set", "r", ["expr", ["tacc", V("t"), 0]]],
            ["set", "h", ["if", B(True), ["return", ["expr", I(1)]], ["block", E(V("g"))]]],
            ["set", "w", ["expr", ["call", V("h")]]],
            ret(V("a"))]],
        E(["call", V("g")])]),
    ("map-with-never-mapper", ["C03"], [["set", "x", ["expr", ["bin", "@", ["post", ["array", I(1)], "~"], ["at", ["array"], I(0)]]]], E(I(1))]),
    ("mut-union-deref", ["C03", "C05"], [
        ["fndecl", "f", [["m", ["multi", ["mut", "int"], ["mut", "float"]]]], ["multi", "int", "float"], [ret(["pre", "deref", V("m")])]],
        E(["call", V("f"), ["mut", None, I(1)]])]),
    ("mut-union-assign", ["C03", "C13"], [
        ["fndecl", "f", [["m", ["multi", ["mut", "int"], ["mut", ["multi", "int", "string"]]]]], "void",
         [E(["bin", "=", V("m"), I(5)])]],
        ["set", "c", ["expr", ["mut", None, I(1)]]], E(["call", V("f"), V("c")]), E(["pre", "deref", V("c")])]),
    ("toplevel-redeclare-deref", ["C03", "C17"], [["set", "x", ["expr", ["mut", None, I(1)]]], ["set", "x", ["expr", ["pre", "deref", V("x")]]], E(V("x"))]),
    ("toplevel-redeclare-tuple", ["C01", "C17"], [
        ["fndecl", "g", [["n", "int"]], "int", [ret(V("n"))]],
        ["set", "x", ["expr", ["call", V("g"), I(1)]]],
        ["set", "x", ["expr", ["tuple", V("x"), I(2)]]],
        E(["tacc", ["tacc", V("x"), 0], 1])]),
    ("assign-add-array-int", ["C03"], [["set", "x", ["expr", ["mut", None, ["array", I(1)]]]], E(["bin", "+=", V("x"), I(5)]), E(I(1))]),
    ("assign-add-array-ok", ["C13"], [["set", "x", ["expr", ["mut", ["arr", "int"], ["array", I(1)]]]], E(["bin", "+=", V("x"), ["array", I(5)]]), E(["pre", "deref", V("x")])]),
    ("iterator-body-scope-collect", ["C06", "C01"], [
        ["fndecl", "it", [], ["tup", "bool", "int"], [["set", "z", ["expr", I(5)]], ret(["tuple", B(False), I(0)])]],
        ["fndecl", "f", [["s", "string"]], "string", [
            ["set", "z", ["expr", ["bin", "+", V("s"), S("!")]]],
            ["set", "r", ["expr", ["post", V("it"), "$]"]]],
            ret(V("z"))]],
        E(["call", V("f"), S("a")])]),
    ("iterator-body-scope-reduce", ["C06", "C01"], [
        ["fndecl", "it", [], ["tup", "bool", "int"], [["set", "z", ["expr", I(5)]], ret(["tuple", B(False), I(0)])]],
        ["fndecl", "f", [["s", "string"]], "string", [
            ["set", "z", ["expr", ["bin", "+", V("s"), S("!")]]],
            ["set", "r", ["expr", ["reduce", V("it"), I(0), ["fn", [["a", "int"], ["b", "int"]], "int", [ret(V("a"))]]]]],
            ret(V("z"))]],
        E(["call", V("f"), S("a")])]),
    ("iterator-body-scope-sum", ["C06", "C01"], [
        ["fndecl", "it", [], ["tup", "bool", "int"], [["set", "z", ["expr", I(5)]], ret(["tuple", B(False), I(0)])]],
        ["fndecl", "f", [["s", "string"]], "string", [
            ["set", "z", ["expr", ["bin", "+", V("s"), S("!")]]],
            ["set", "r", ["expr", ["post", V("it"), "$+"]]],
            ret(V("z"))]],
        E(["call", V("f"), S("a")])]),
    ("recursive-iterator-in-function", ["C06", "C02"], [
        ["set", "c", ["expr", ["mut", None, I(0)]]],
        ["fndecl", "it", [], ["tup", "bool", "int"], [
            E(["bin", "+=", V("c"), I(1)]),
            ["stm", ["if", ["bin", ">", ["pre", "deref", V("c")], I(3)], ["block", ret(["tuple", B(False), I(0)])], None]],
            ["stm", ["if", ["bin", "==", ["pre", "deref", V("c")], I(2)], ["block", ["set", "skip", ["expr", ["call", V("it")]]], ret(V("skip"))], None]],
            ret(["tuple", B(True), ["pre", "deref", V("c")]])]],
        ["fndecl", "f", [], ["arr", "int"], [ret(["post", V("it"), "$]"])]],
        E(["call", V("f")])]),
    ("closure-capture-then-redeclare", ["C06"], [
        ["set", "a", ["expr", ["bin", "+", I(1), ["call", ["fn", [], "int", [ret(I(1))]]]]]],
        ["fndecl", "f", [], "int", [ret(V("a"))]],
        ["set", "a", ["expr", I(100)]],
        E(["tuple", ["call", V("f")], V("a")])]),
    ("closure-shares-cell", ["C06", "C13"], [
        ["set", "c", ["expr", ["mut", None, I(1)]]],
        ["fndecl", "f", [], "int", [ret(["bin", "+=", V("c"), I(10)])]],
        E(["bin", "=", V("c"), I(5)]),
        E(["tuple", ["call", V("f")], ["pre", "deref", V("c")]])]),
    ("self-recursion", ["C06"], [
        ["fndecl", "fact", [["n", "int"]], "int", [
            ["stm", ["if", ["bin", "<=", V("n"), I(1)], ["return", ["expr", I(1)]], None]],
            ret(["bin", "*", V("n"), ["call", V("fact"), ["bin", "-", V("n"), I(1)]]])]],
        E(["call", V("fact"), I(10)])]),
    ("self-recursion-through-map", ["C06"], [
        ["fndecl", "sumto", [["n", "int"]], "int", [
            ["stm", ["if", ["bin", "<=", V("n"), I(0)], ["return", ["expr", I(0)]], None]],
            ret(["bin", "+", V("n"), ["post", ["bin", "@", ["post", ["array", ["bin", "-", V("n"), I(1)]], "~"], V("sumto")], "$+"]])]],
        E(["call", V("sumto"), I(4)])]),
    ("module-exports", ["C06"], [
        ["set", "m", ["expr", ["mod", ["set", "a", ["expr", I(1)]], ["set", "b", ["expr", ["bin", "+", V("a"), I(1)]]],
                                ["stm", ["block", ["set", "hidden", ["expr", I(9)]]]]]]],
        E(["tuple", ["facc", V("m"), "a"], ["facc", V("m"), "b"]])]),
    ("module-hidden-field", ["C06"], [
        ["set", "m", ["expr", ["mod", ["set", "a", ["expr", I(1)]], ["stm", ["block", ["set", "hidden", ["expr", I(9)]]]]]]],
        E(["facc", V("m"), "hidden"])]),
    ("block-scope-invisible", ["C06"], [["stm", ["block", ["set", "q", ["expr", I(1)]]]], E(V("q"))]),
    ("loop-scope-invisible", ["C06"], [["stm", ["for", "x", ["post", ["array", I(1)], "~"], ["block", ["set", "q", ["expr", V("x")]]]]], E(V("x"))]),
    ("end-marker-never-elem", ["C01", "C02"], [E(["bin", "+", ["tacc", ["call", ["post", ["array"], "~"]], 1], I(1)])]),
    ("type-filter-never", ["C02"], [E(["tfilter", ["post", ["array", I(1)], "~"], "never"])]),
    ("map-end-marker", ["C01", "C02"], [
        ["set", "r", ["expr", ["bin", "@", ["post", ["array", I(1)], "~"], ["fn", [["x", "int"]], "string", [ret(S("s"))]]]]],
        ["set", "a", ["expr", ["call", V("r")]]], ["set", "b", ["expr", ["call", V("r")]]],
        E(["bin", "+", ["tacc", V("b"), 1], S("x")])]),
    ("sum-never-elem-type", ["C01", "C11"], [E(["post", ["post", ["array"], "~"], "$+"])]),
    # S27: the reducer of `$+` / `$*` was chosen by the run-time type of the iterator alone; `[]~` (type
    # () -> (bool, !)) at static type () -> (bool, float) gave the int 0 at static type float
    ("sum-empty-iter-at-float", ["C01", "C02", "C11"], [
        ["fndecl", "f", [["it", ["fun", [], ["tup", "bool", "float"]]]], "float", [ret(["post", V("it"), "$+"])]],
        E(["bin", "+", ["call", V("f"), ["post", ["array"], "~"]], ["c", ["f", 4609434218613702656]]])]),
    ("sum-empty-iter-at-string", ["C01", "C02", "C11"], [
        ["fndecl", "f", [["it", ["fun", [], ["tup", "bool", "string"]]]], "string", [ret(["post", V("it"), "$+"])]],
        ["set", "x", ["expr", ["call", V("f"), ["post", ["array"], "~"]]]],
        E(["bin", "+", V("x"), S("a")])]),
    ("product-empty-iter-at-float", ["C01", "C02", "C11"], [
        ["fndecl", "f", [["it", ["fun", [], ["tup", "bool", "float"]]]], "float", [ret(["post", V("it"), "$*"])]],
        E(["bin", "+", ["call", V("f"), ["post", ["array"], "~"]], ["c", ["f", 4609434218613702656]]])]),
    ("sum-empty-iter-at-union", ["C01", "C11"], [
        ["fndecl", "f", [["it", ["multi", ["fun", [], ["tup", "bool", "float"]], ["fun", [], ["tup", "bool", "string"]]]]],
         ["multi", "float", "string"], [ret(["post", V("it"), "$+"])]],
        E(["tuple", ["call", V("f"), ["post", ["array"], "~"]],
           ["call", V("f"), ["post", ["array", S("a"), S("b")], "~"]],
           ["call", V("f"), ["post", ["array", ["c", ["f", 4609434218613702656]]], "~"]]])]),
    ("sum-int-iter-at-union", ["C01", "C11"], [
        ["fndecl", "f", [["it", ["multi", ["fun", [], ["tup", "bool", "int"]], ["fun", [], ["tup", "bool", "float"]]]]],
         ["tup", ["multi", "int", "float"], ["multi", "int", "float"]], [ret(["tuple", ["post", V("it"), "$+"], ["post", V("it"), "$*"]])]],
        E(["tuple", ["call", V("f"), ["post", ["array"], "~"]],
           ["call", V("f"), ["post", ["array", I(2), I(3)], "~"]]])]),
    # S27 (second form): inside a closure `recreate` narrows the captured iterator to its run-time type
    ("sum-captured-empty-iter-at-float", ["C01", "C02", "C04", "C11"], [
        ["fndecl", "g", [["it", ["fun", [], ["tup", "bool", "float"]]]], "float", [
            ["fndecl", "h", [], "float", [ret(["post", V("it"), "$+"])]],
            ret(["call", V("h")])]],
        E(["bin", "+", ["call", V("g"), ["post", ["array"], "~"]], ["c", ["f", 4609434218613702656]]])]),
    ("product-captured-empty-iter-at-float", ["C01", "C02", "C04", "C11"], [
        ["fndecl", "g", [["it", ["fun", [], ["tup", "bool", "float"]]]], "float", [
            ["fndecl", "h", [], "float", [ret(["post", V("it"), "$*"])]],
            ret(["call", V("h")])]],
        E(["bin", "+", ["call", V("g"), ["post", ["array"], "~"]], ["c", ["f", 4609434218613702656]]])]),
    ("sum-captured-empty-iter-at-union", ["C01", "C02", "C11"], [
        ["fndecl", "g", [["it", ["multi", ["fun", [], ["tup", "bool", "float"]], ["fun", [], ["tup", "bool", "string"]]]]],
         ["multi", "float", "string"], [
            ["fndecl", "h", [], ["multi", "float", "string"], [ret(["post", V("it"), "$+"])]],
            ret(["call", V("h")])]],
        E(["tuple", ["call", V("g"), ["post", ["array"], "~"]], ["call", V("g"), ["post", ["array", S("a")], "~"]]])]),
    ("sum-narrowed-union-with-diverging-member", ["C01", "C02"], [
        ["fndecl", "diverge", [], "never", [ret(["call", V("diverge")])]],
        ["fndecl", "empty", [], ["tup", "bool", "float"], [ret(["tuple", B(False), ["c", ["f", 0]]])]],
        ["fndecl", "g", [["x", ["fun", [], ["tup", "bool", "float"]]], ["z", ["fun", [], ["tup", "bool", "float"]]],
                         ["c", ["mut", "bool"]]], "float", [
            ["fndecl", "h", [], "float", [
                ["set", "y", ["if", ["pre", "deref", V("c")], ["block", E(V("x"))], ["block", E(V("z"))]]],
                ret(["post", ["post", ["post", V("y"), "$]"], "~"], "$+"])]],
            ret(["call", V("h")])]],
        ["set", "r", ["expr", ["call", V("g"), V("diverge"), V("empty"), ["mut", None, B(False)]]]],
        E(["bin", "+", V("r"), ["c", ["f", 4609434218613702656]]])]),
    # S13e / S13f: `~` re-types the iterator at the RUN-TIME element type of the array, `@` at the
    # run-time result type of the mapper (variants of S13a / S13b at honest static types)
    ("iter-of-empty-array-at-int", ["C01", "C02"], [
        ["fndecl", "g", [["a", ["arr", "int"]]], "int", [
            ret(["bin", "+", ["tacc", ["call", ["post", V("a"), "~"]], 1], I(1)])]],
        E(["call", V("g"), ["array"]])]),
    ("map-retyped-at-run-time-result", ["C01", "C02"], [
        ["fndecl", "it", [], ["tup", "bool", ["multi", "int", "string"]], [ret(["tuple", B(False), I(0)])]],
        ["fndecl", "f", [["x", ["multi", "int", "string"]]], "string", [ret(S("s"))]],
        ["fndecl", "h", [["m", ["fun", [["multi", "int", "string"]], ["multi", "int", "string"]]]], "string", [
            ret_stm(["match", ["bin", "@", V("it"), V("m")],
                     ["atype", "s", ["fun", [], ["tup", "bool", "string"]],
                      ["block", E(["bin", "+", ["tacc", ["call", V("s")], 1], S("x")])]],
                     ["aother", ["block", E(S("other"))]]])]],
        E(["call", V("h"), V("f")])]),
    # a `match` without arms (or whose arms do not cover) on a scrutinee typed `!` is rejected, not a panic
    ("armless-match-on-never", ["C03", "C12"], [["set", "x", ["match", ["at", ["array"], I(0)]]]]),
    ("armless-match-on-never-in-function", ["C03", "C12"], [
        ["fndecl", "f", [["a", ["arr", "never"]]], "int", [ret_stm(["match", ["at", V("a"), I(0)]])]]]),
    ("armless-match-on-int", ["C03", "C12"], [["set", "x", ["match", I(1)]]]),
    ("armless-match-statement-on-never", ["C03", "C12"], [["stm", ["match", ["at", ["array"], I(0)]]], E(I(1))]),
    ("match-on-never-with-arm", ["C03", "C12"], [
        ["set", "x", ["match", ["at", ["array"], I(0)], ["atype", "v", "int", ["block", E(V("v"))]]]]]),
    # ---- round 2 of seeded changes: triggers that no generator reached
    # a captured variable named like an if-set binder, used in the ELSE branch inside a closure
    ("ifset-binder-shadows-captured-var-in-else", ["C02", "C06", "C12"], [
        ["fndecl", "id", [["v", "int"]], "int", [ret(V("v"))]],
        ["fndecl", "pick", [["v", ["multi", "int", "string"]]], ["multi", "int", "string"], [ret(V("v"))]],
        ["set", "x", ["expr", ["call", V("id"), I(10)]]],
        ["fndecl", "f", [["v", ["multi", "int", "string"]]], "int", [
            ["stm", ["ifset", "x", "string", ["call", V("pick"), V("v")], ["block", ret(I(0))],
                     ["block", ret(["bin", "+", V("x"), I(1)])]]]]],
        E(["tuple", ["call", V("f"), I(5)], ["call", V("f"), S("a")]])]),
    ("whileset-binder-shadows-captured-var", ["C02", "C06", "C12"], [
        ["set", "x", ["expr", ["mut", None, I(10)]]],
        ["fndecl", "f", [["v", ["multi", "int", "string"]]], "int", [
            ["stm", ["whileset", "x", "string", V("v"), ["block", ret(I(0))]]],
            ret(["bin", "+", ["pre", "deref", V("x")], I(1)])]],
        E(["tuple", ["call", V("f"), I(5)], ["call", V("f"), S("a")]])]),
    # statements after a diverging statement inside a module (inside a function)
    ("module-with-code-after-return", ["C03", "C06", "C12"], [
        ["fndecl", "f", [], "int", [
            ["set", "m", ["expr", ["mod", ["set", "a", ["expr", I(1)]], ["stm", ["return", ["expr", V("a")]]], ["set", "b", ["expr", I(2)]]]]],
            ret(I(0))]],
        E(["call", V("f")])]),
    ("module-with-code-after-break", ["C03", "C12"], [
        ["set", "n", ["expr", ["mut", None, I(0)]]],
        ["stm", ["loop", ["block", E(["bin", "+=", V("n"), I(1)]),
                          ["set", "m", ["expr", ["mod", ["stm", "break"], ["set", "b", ["expr", I(2)]]]]]]]],
        E(["pre", "deref", V("n")])]),
    ("module-exports-only-its-own-names", ["C06"], [
        ["set", "k", ["expr", I(7)]],
        ["set", "m", ["expr", ["mod", ["set", "a", ["expr", I(1)]],
                               ["stm", ["for", "k", ["post", ["array", I(1), I(2)], "~"], ["block"]]]]]],
        E(V("m"))]),
    # a `for` variable shadowing a variable of another type, inside a function; the variable after the loop
    ("for-binder-shadows-in-function", ["C06", "C01"], [
        ["fndecl", "f", [], "string", [
            ["set", "x", ["expr", S("s")]],
            ["stm", ["for", "x", ["post", ["array", I(1), I(2), I(3)], "~"], ["block", ["set", "y", ["expr", ["bin", "+", V("x"), I(1)]]]]]],
            ret(["bin", "+", V("x"), S("!")])]],
        E(["call", V("f")])]),
    ("for-binder-not-visible-after-loop", ["C06", "C03"], [
        ["fndecl", "f", [], "int", [
            ["stm", ["for", "x", ["post", ["array", I(1), I(2), I(3)], "~"], ["block"]]],
            ret(V("x"))]],
        E(["call", V("f")])]),
    # free names in the initial value of a reduce inside a closure (parameter of the enclosing function, cell)
    ("reduce-init-captures-parameter", ["C06", "C04", "C11"], [
        ["fndecl", "sum_from", [["start", "int"]], ["fun", [["arr", "int"]], "int"], [
            ret(["fn", [["a", ["arr", "int"]]], "int", [
                ret(["reduce", ["post", V("a"), "~"], V("start"),
                     ["fn", [["acc", "int"], ["e", "int"]], "int", [ret(["bin", "+", V("acc"), V("e")])]]])]])]],
        E(["call", ["call", V("sum_from"), I(100)], ["array", I(1), I(2), I(3)]])]),
    ("reduce-init-reads-captured-cell", ["C06", "C04", "C11"], [
        ["set", "base", ["expr", ["mut", None, I(5)]]],
        ["fndecl", "f", [["a", ["arr", "int"]]], "int", [
            ret(["reduce", ["post", V("a"), "~"], ["pre", "deref", V("base")],
                 ["fn", [["acc", "int"], ["e", "int"]], "int", [ret(["bin", "+", V("acc"), V("e")])]]])]],
        ["set", "r1", ["expr", ["call", V("f"), ["array", I(1), I(2)]]]],
        E(["bin", "=", V("base"), I(50)]),
        E(["tuple", V("r1"), ["call", V("f"), ["array", I(1), I(2)]]])]),
    # a loop whose body ends in `break` and holds a conditional break / continue, inside another loop
    ("inner-loop-ending-in-break-with-conditional-break", ["C12", "C04"], [
        ["fndecl", "f", [], "int", [
            ["set", "count", ["expr", ["mut", None, I(0)]]],
            ["stm", ["for", "i", ["post", ["array", I(1), I(2), I(3)], "~"], ["block",
                ["stm", ["loop", ["block",
                    ["stm", ["if", ["bin", "==", V("i"), I(2)], ["block", ["stm", "break"]], None]],
                    E(["bin", "+=", V("count"), I(10)]), ["stm", "break"]]]],
                E(["bin", "+=", V("count"), I(1)])]]],
            ret(["pre", "deref", V("count")])]],
        E(["call", V("f")])]),
    ("retry-loop-with-continue-then-break", ["C12", "C04"], [
        ["fndecl", "f", [["n", "int"]], "int", [
            ["set", "tries", ["expr", ["mut", None, I(0)]]],
            ["stm", ["loop", ["block", E(["bin", "+=", V("tries"), I(1)]),
                              ["stm", ["if", ["bin", "<", ["pre", "deref", V("tries")], V("n")], ["block", ["stm", "continue"]], None]],
                              ["stm", "break"]]]],
            ret(["pre", "deref", V("tries")])]],
        E(["tuple", ["call", V("f"), I(1)], ["call", V("f"), I(3)]])]),
    # the end marker of a type filter on a cell type is a FRESH cell every time
    ("typefilter-end-marker-cell-is-fresh", ["C17", "C13", "C11", "C05", "C16"], [
        ["fndecl", "end_of", [["cells", ["arr", ["mut", "int"]]]], ["mut", "int"], [
            ["set", "it", ["expr", ["tfilter", ["post", V("cells"), "~"], ["mut", "int"]]]],
            ret(["tacc", ["call", V("it")], 1])]],
        ["set", "a", ["expr", ["call", V("end_of"), ["array"]]]],
        E(["bin", "=", V("a"), I(41)]),
        ["set", "b", ["expr", ["call", V("end_of"), ["array"]]]],
        E(["tuple", ["pre", "deref", V("a")], ["pre", "deref", V("b")]])]),
    # calling a member of an array of functions that take different cell types
    ("call-union-of-functions-taking-cells", ["C13", "C10", "C01"], [
        ["fndecl", "wide", [["c", ["mut", ["multi", "int", "float"]]]], "void", [E(["bin", "=", V("c"), ["c", ["f", 4612811918334230528]]])]],
        ["fndecl", "narrow", [["c", ["mut", "int"]]], "void", [E(["bin", "=", V("c"), I(7)])]],
        ["set", "writers", ["expr", ["array", V("wide"), V("narrow")]]],
        ["set", "cell", ["expr", ["mut", None, I(1)]]],
        E(["call", ["at", V("writers"), I(0)], V("cell")]),
        E(V("cell"))]),
    # a function is equal to itself, also when it reaches itself through its own name
    ("function-identity-inside-own-body", ["C19", "C06"], [
        ["fndecl", "f", [["g", "any"]], "bool", [ret(["bin", "==", V("f"), V("g")])]],
        ["fndecl", "h", [], "any", [ret(V("h"))]],
        ["fndecl", "m", [["g", "any"]], "string", [ret_stm(["match", V("g"), ["aval", [V("m")], ["block", E(S("me"))]], ["aother", ["block", E(S("other"))]]])]],
        ["fndecl", "other", [["g", "any"]], "bool", [ret(B(True))]],
        E(["tuple", ["call", V("f"), V("f")], ["call", V("f"), V("other")], ["bin", "==", ["call", V("h")], V("h")],
           ["call", V("m"), V("m")], ["call", V("m"), V("f")], ["bin", "==", V("f"), V("f")], ["bin", "!=", V("f"), V("other")]])]),
    # == / != against a bool literal at a union or any static type, inside a function (folded at closure creation)
    ("eq-bool-literal-at-union-type-in-function", ["C19", "C04", "C01"], [
        ["fndecl", "f", [["x", ["multi", "int", "bool"]]], "bool", [ret(["bin", "==", V("x"), B(True)])]],
        ["fndecl", "g", [["x", "any"]], "bool", [ret(["bin", "!=", V("x"), B(False)])]],
        ["fndecl", "k", [["x", ["multi", "int", "bool"]]], "bool", [ret(["bin", "==", B(True), V("x")])]],
        E(["tuple", ["call", V("f"), I(5)], ["call", V("f"), B(True)], ["call", V("g"), S("a")], ["call", V("g"), B(False)],
           ["call", V("g"), ["array", B(False)]], ["call", V("k"), I(1)], ["call", V("k"), B(True)]])]),
    # a value arm whose candidate is only known at run time, with a constant scrutinee, inside a function
    ("value-arm-runtime-candidate-constant-scrutinee", ["C19", "C12", "C07", "C04"], [
        ["fndecl", "f", [["y", "int"]], "string", [ret_stm(["match", I(5), ["aval", [V("y")], ["block", E(S("eq"))]], ["aother", ["block", E(S("other"))]]])]],
        ["set", "target", ["expr", I(5)]],
        ["fndecl", "g", [["a", "int"], ["b", "int"]], "string", [ret_stm(["match", V("target"), ["aval", [V("a")], ["block", E(S("first"))]],
                                                                              ["aval", [V("b")], ["block", E(S("second"))]], ["aother", ["block", E(S("none"))]]])]],
        E(["tuple", ["call", V("f"), I(5)], ["call", V("f"), I(6)], ["call", V("g"), I(5), I(5)], ["call", V("g"), I(1), I(5)], ["call", V("g"), I(1), I(2)]])]),
    # S29 (known finding, C04): a failing constant operation inside a function body is reported when the
    # closure is CREATED at run time (the captured value has become a constant), even if the function is never called
    ("closure-creation-reports-fold-error-of-uncalled-function", ["C04"], [
        ["fndecl", "f", [["a", ["arr", "int"]]], "int", [
            ["fndecl", "g", [], "int", [ret(["at", V("a"), I(1)])]],
            ret(I(0))]],
        E(["call", V("f"), ["array", I(0)]])]),
    # ---- round 4
    # a loop that can only be left by a `break` inside a match arm / an initialiser still needs a return after it
    ("loop-left-by-break-in-match-arm-needs-return", ["C02", "C12", "C01"], [
        ["fndecl", "first_negative", [["it", ["fun", [], ["tup", "bool", "int"]]]], "int", [
            ["stm", ["loop", ["block",
                ["destruct", ["con", "value"], ["expr", ["call", V("it")]]],
                ["stm", ["match", V("con"), ["aval", [B(False)], ["block", ["stm", "break"]]],
                         ["aother", ["block", ["stm", ["if", ["bin", "<", V("value"), I(0)], ["return", ["expr", V("value")]], None]]]]]]]]]]],
        E(["bin", "+", ["call", V("first_negative"), ["post", ["array", I(1), I(2), I(3)], "~"]], I(1)])]),
    ("loop-left-by-break-in-initialiser-needs-return", ["C02", "C12", "C01"], [
        ["fndecl", "g", [["n", "int"]], "int", [
            ["stm", ["loop", ["block", ["set", "x", ["if", ["bin", ">", V("n"), I(0)], ["block", ["stm", "break"]], ["block", E(I(1))]]],
                              ret(V("x"))]]]]],
        E(["bin", "+", ["call", V("g"), I(1)], I(1)])]),
    ("endless-loop-needs-no-return", ["C12", "C02"], [
        ["fndecl", "g", [["n", "int"]], "int", [["stm", ["loop", ["block", ret(V("n"))]]]]],
        E(["call", V("g"), I(4)])]),
    # a top-level destructuring that rebinds a name it also reads (run-time old value, constant new value)
    ("toplevel-destructuring-reads-rebound-name", ["C04", "C17", "C03", "C06"], [
        ["set", "m", ["expr", ["mut", None, I(7)]]], ["set", "x", ["expr", ["pre", "deref", V("m")]]],
        ["destruct", ["x", "y"], ["expr", ["tuple", I(1), V("x")]]], E(["tuple", V("x"), V("y")])]),
    ("toplevel-destructuring-rebound-name-prunes-branch", ["C04", "C17", "C03"], [
        ["set", "m", ["expr", ["mut", None, I(7)]]], ["set", "x", ["expr", ["pre", "deref", V("m")]]],
        ["destruct", ["x", "y"], ["expr", ["tuple", I(0), V("x")]]],
        ["stm", ["if", ["bin", "==", V("y"), I(0)], ["block", E(S("zero"))], ["block", E(S("seven"))]]]]),
    ("toplevel-swap-by-destructuring", ["C04", "C17", "C06"], [
        ["fndecl", "idf", [["v", "int"]], "int", [ret(V("v"))]],
        ["set", "a", ["expr", ["call", V("idf"), I(1)]]], ["set", "b", ["expr", ["call", V("idf"), I(2)]]],
        ["destruct", ["a", "b"], ["expr", ["tuple", V("b"), V("a")]]], E(["bin", "+", ["bin", "*", V("a"), I(10)], V("b")])]),
    # every iteration of a loop body gets a fresh scope
    ("loop-body-scope-is-per-iteration", ["C06", "C12"], [
        ["fndecl", "idf", [["v", "int"]], "int", [ret(V("v"))]],
        ["set", "x", ["expr", ["call", V("idf"), I(1)]]], ["set", "i", ["expr", ["mut", None, I(0)]]],
        ["set", "seen", ["expr", ["mut", ["arr", "int"], ["array"]]]],
        ["stm", ["loop", ["block", ["stm", ["if", ["bin", ">=", ["pre", "deref", V("i")], I(3)], ["block", ["stm", "break"]], None]],
                          E(["bin", "+=", V("seen"), ["array", V("x")]]), ["set", "x", ["expr", ["bin", "*", V("x"), I(10)]]],
                          E(["bin", "+=", V("i"), I(1)])]]],
        E(["tuple", ["pre", "deref", V("seen")], V("x")])]),
    ("while-body-closure-sees-outer-name-each-iteration", ["C06", "C12"], [
        ["fndecl", "run", [["start", "int"]], ["arr", "int"], [
            ["set", "out", ["expr", ["mut", ["arr", "int"], ["array"]]]], ["set", "i", ["expr", ["mut", None, I(0)]]],
            ["stm", ["while", ["bin", "<", ["pre", "deref", V("i")], I(3)], ["block",
                ["fndecl", "get", [], "int", [ret(V("start"))]],
                E(["bin", "+=", V("out"), ["array", ["call", V("get")]]]),
                ["set", "start", ["expr", ["bin", "+", ["call", V("get")], I(100)]]],
                E(["bin", "+=", V("i"), I(1)])]]],
            ret(["pre", "deref", V("out")])]],
        E(["call", V("run"), I(7)])]),
    # closures created twice by the same expression capture their own values, also when the free name sits in a nested scope
    ("closure-factory-free-name-in-nested-scope", ["C06", "C04"], [
        ["fndecl", "make", [["n", "int"], ["flag", "bool"]], ["fun", [], "int"], [
            ret(["fn", [], "int", [["stm", ["if", V("flag"), ["block", ret(V("n"))], None]], ret(I(0))]])]],
        ["set", "a", ["expr", ["call", V("make"), I(1), B(True)]]], ["set", "b", ["expr", ["call", V("make"), I(2), B(True)]]],
        ["set", "c", ["expr", ["call", V("make"), I(3), B(False)]]],
        E(["tuple", ["call", V("a")], ["call", V("b")], ["call", V("c")]])]),
    # the arms of a match are tried top to bottom, the catch-all arm included
    ("match-catch-all-arm-first", ["C12", "C19"], [
        ["fndecl", "first", [["v", ["multi", "int", "string"]]], "string", [
            ret_stm(["match", V("v"), ["aother", ["block", E(S("default"))]], ["aval", [I(5)], ["block", E(S("five"))]],
                     ["atype", "x", "int", ["block", E(S("int"))]], ["atype", "s", "string", ["block", E(S("string"))]]])]],
        ["fndecl", "middle", [["v", ["multi", "int", "string"]]], "string", [
            ret_stm(["match", V("v"), ["aval", [I(5)], ["block", E(S("five"))]], ["aother", ["block", E(S("default"))]],
                     ["atype", "x", "int", ["block", E(S("int"))]], ["atype", "s", "string", ["block", E(S("string"))]]])]],
        E(["tuple", ["call", V("first"), I(5)], ["call", V("first"), I(7)], ["call", V("first"), S("a")],
           ["call", V("middle"), I(5)], ["call", V("middle"), I(7)], ["call", V("middle"), S("a")]])]),
    # a cell type is covered only by an arm of exactly its type (cells are invariant)
    ("match-on-cell-needs-exact-cell-arm", ["C12", "C13", "C03", "C02"], [
        ["fndecl", "f", [["m", ["mut", "int"]]], "int", [ret_stm(["match", V("m"), ["atype", "c", ["mut", ["multi", "int", "string"]], ["block", E(I(1))]]])]],
        E(["call", V("f"), ["mut", None, I(5)]])]),
    ("match-on-cell-or-string-needs-exact-cell-arm", ["C12", "C13", "C03", "C02"], [
        ["fndecl", "f", [["m", ["multi", ["mut", "int"], "string"]]], "int", [
            ret_stm(["match", V("m"), ["atype", "c", ["mut", ["multi", "int", "string"]], ["block", E(I(1))]], ["atype", "s", "string", ["block", E(I(2))]]])]],
        E(["call", V("f"), ["mut", None, I(5)]])]),
    # the value a compound assignment yields has the type of the cell's content
    ("compound-assign-yield-has-content-type", ["C13", "C01", "C02"], [
        ["set", "c", ["expr", ["mut", ["arr", ["multi", "int", "float"]], ["array", I(1)]]]],
        ["set", "d", ["expr", ["mut", ["arr", "float"], ["array"]]]],
        E(["bin", "=", V("d"), ["bin", "+=", V("c"), ["array", ["c", ["f", 4612811918334230528]]]]]),
        E(["tuple", V("d"), ["pre", "deref", V("c")]])]),
    ("assign-keeps-negative-zero", ["C13", "C08"], [
        ["set", "c", ["expr", ["mut", None, ["c", ["f", 0]]]]],
        ["set", "r", ["expr", ["bin", "=", V("c"), ["pre", "neg", ["c", ["f", 0]]]]]],
        E(["tuple", ["bin", "/", ["c", ["f", 4607182418800017408]], V("r")], ["bin", "/", ["c", ["f", 4607182418800017408]], ["pre", "deref", V("c")]]])]),
    ("sum-and-product-of-never-iterator", ["C11", "C01"], [
        E(["tuple", ["post", ["post", ["array"], "~"], "$+"], ["post", ["post", ["array"], "~"], "$*"]])]),
    ("sum-never-missing-return", ["C01", "C02"], [
        ["fndecl", "f", [], "int", [["set", "x", ["expr", ["post", ["post", ["array"], "~"], "$+"]]]]],
        E(["bin", "+", ["call", V("f")], I(1)])]),
    ("union-end-marker-default", ["C05"], [
        ["set", "it", ["expr", ["post", ["array", I(1), S("a")], "~"]]],
        E(["call", V("it")]), E(["call", V("it")]), E(["call", V("it")])]),
    ("typefilter-names-do-not-leak", ["C06", "C11"], [
        ["fndecl", "f", [["default", "int"], ["iterator", "string"]], ["tup", "int", "string"], [
            ["set", "floats", ["expr", ["post", ["tfilter", ["post", ["array", I(1), ["c", ["f", 4612811918334230528]], I(3)], "~"], "float"], "$]"]]],
            ret(["tuple", V("default"), V("iterator")])]],
        E(["call", V("f"), I(7), S("it")])]),
    ("helper-names-do-not-leak", ["C06", "C11"], [
        ["fndecl", "f", [["func", "int"], ["mapper", "int"], ["predicate", "int"], ["res", "int"], ["con", "int"], ["value", "int"], ["array", "int"], ["i", "int"], ["len", "int"], ["iter", "int"], ["acc", "int"], ["curr", "int"]], ["arr", "int"], [
            ["set", "a", ["expr", ["post", ["bin", "?", ["bin", "@", ["post", ["array", I(1), I(2), I(3)], "~"], ["fn", [["x", "int"]], "int", [ret(["bin", "+", V("x"), V("value")])]]], ["fn", [["x", "int"]], "bool", [ret(["bin", ">", V("x"), V("con")])]]], "$]"]]],
            ["set", "s", ["expr", ["post", ["post", V("a"), "~"], "$+"]]],
            ["stm", ["for", "q", ["post", V("a"), "~"], ["block", E(V("q"))]]],
            ret(["array", V("func"), V("mapper"), V("predicate"), V("res"), V("con"), V("value"), V("array"), V("i"), V("len"), V("iter"), V("acc"), V("curr"), V("s")])]],
        E(["call", V("f"), I(1), I(2), I(3), I(4), I(5), I(6), I(7), I(8), I(9), I(10), I(11), I(12)])]),
    ("param-named-like-function", ["C06", "C17"], [
        ["fndecl", "id", [["id", "int"]], "int", [ret(["bin", "+", V("id"), I(1)])]],
        E(["tuple", ["call", V("id"), I(5)], ["post", ["bin", "@", ["post", ["array", I(1), I(2)], "~"], V("id")], "$]"]])]),
    ("match-value-mixed-types", ["C12", "C19"], [
        ["fndecl", "k", [["x", ["multi", "int", "string"]]], "int", [
            ret(["call", ["fn", [], "int", [["stm", ["match", V("x"),
                ["aval", [I(1), S("a")], ["return", ["expr", I(10)]]],
                ["atype", "i", "int", ["return", ["expr", I(20)]]],
                ["atype", "s", "string", ["return", ["expr", I(30)]]]]], ret(I(0))]]])]],
        E(["array", ["call", V("k"), I(1)], ["call", V("k"), S("a")], ["call", V("k"), I(2)], ["call", V("k"), S("b")]])]),
    ("ifset-wider-declared-type", ["C12"], [
        ["fndecl", "k", [["v", ["multi", "int", "string", "float"]]], "int", [
            ["stm", ["ifset", "x", ["multi", "int", "string"], V("v"), ["return", ["expr", I(1)]], None]],
            ret(I(2))]],
        ["fndecl", "a", [["v", ["arr", "int"]]], "int", [
            ["stm", ["ifset", "x", "any", V("v"), ["return", ["expr", I(1)]], None]], ret(I(2))]],
        E(["array", ["call", V("k"), I(1)], ["call", V("k"), S("s")], ["call", V("k"), ["c", ["f", 4612811918334230528]]], ["call", V("a"), ["array"]]])]),
    ("whileset-wider-declared-type", ["C12"], [
        ["set", "src", ["expr", ["array", I(1), ["c", ["f", 4612811918334230528]], I(3), S("stop"), I(9)]]],
        ["set", "i", ["expr", ["mut", None, I(0)]]],
        ["stm", ["whileset", "x", ["multi", "int", "float"], ["at", V("src"), ["pre", "deref", V("i")]], ["block", E(["bin", "+=", V("i"), I(1)])]]],
        E(["pre", "deref", V("i")])]),
    ("break-after-constant-while-rejected", ["C12", "C02"], [
        ["stm", ["while", B(False), ["block", E(I(1))]]], ["stm", "break"], E(I(1))]),
    ("continue-after-constant-while-true-rejected", ["C12", "C02"], [
        ["stm", ["while", B(True), ["block", ["stm", "break"]]]], ["stm", ["if", B(True), ["block", ["stm", "continue"]], None]], E(I(1))]),
    ("break-in-function-inside-loop-rejected", ["C12", "C02"], [
        ["stm", ["loop", ["block", ["fndecl", "stop", [], None, [["stm", "break"]]], E(["call", V("stop")]), ["stm", "break"]]]], E(I(1))]),
    ("continue-in-closure-inside-for-rejected", ["C12", "C02"], [
        ["stm", ["for", "x", ["post", ["array", I(1)], "~"], ["block", ["set", "g", ["expr", ["fn", [], None, [["stm", "continue"]]]]], E(["call", V("g")])]]], E(I(1))]),
    ("return-outside-function-rejected", ["C12", "C02"], [["stm", ["return", ["expr", I(1)]]]]),
    ("break-after-loop-rejected", ["C12", "C02"], [["stm", ["loop", ["block", ["stm", "break"]]]], ["stm", "break"]]),
    ("break-in-match-arm-of-loop-ok", ["C12"], [
        ["set", "c", ["expr", ["mut", None, I(0)]]],
        ["stm", ["while", B(True), ["block", E(["bin", "+=", V("c"), I(1)]),
                                   ["stm", ["match", ["pre", "deref", V("c")], ["aval", [I(3)], ["block", ["stm", "break"]]], ["aother", ["block", ["stm", "continue"]]]]]]]],
        E(["pre", "deref", V("c")])]),
    ("reduce-init-type-in-result", ["C01"], [
        E(["reduce", ["post", ["slice", ["array", I(7)], I(1), None, None], "~"], ["c", ["f", 4602678819172646912]],
           ["fn", [["acc", ["multi", "int", "float"]], ["x", "int"]], "int", [ret(V("x"))]]])]),
    ("reduce-init-type-rejected-as-int", ["C01"], [
        ["fndecl", "last_or", [["a", ["arr", "int"]]], "int", [
            ret(["reduce", ["post", V("a"), "~"], ["c", ["f", 4602678819172646912]],
                 ["fn", [["acc", ["multi", "int", "float"]], ["x", "int"]], "int", [ret(V("x"))]]])]],
        E(["tuple", ["call", V("last_or"), ["array", I(3), I(4)]], ["call", V("last_or"), ["slice", ["array", I(1)], I(1), None, None]]])]),
    ("loop-body-never-still-needs-return-for", ["C01", "C12"], [
        ["fndecl", "first", [["a", ["arr", "int"]]], "int", [["stm", ["for", "x", ["post", V("a"), "~"], ["block", ret(V("x"))]]]]],
        E(["tuple", ["call", V("first"), ["array", I(4)]], ["call", V("first"), ["slice", ["array", I(1)], I(1), None, None]]])]),
    ("loop-body-never-still-needs-return-while", ["C01", "C12"], [
        ["fndecl", "w", [["c", "bool"]], "int", [["stm", ["while", V("c"), ["block", ret(I(1))]]]]],
        E(["call", V("w"), B(False)])]),
    ("loop-body-never-still-needs-return-loop", ["C01", "C12"], [
        ["fndecl", "w", [], "int", [["stm", ["loop", ["block", ["stm", "break"]]]]]],
        E(["call", V("w")])]),
    ("ifset-binder-does-not-leak", ["C01", "C06", "C12"], [
        ["fndecl", "describe", [["v", ["multi", "int", "string"]], ["name", "string"]], "string", [
            ["stm", ["ifset", "name", "int", V("v"), ["block", E(["bin", "+", V("name"), I(1)])], None]],
            ret(V("name"))]],
        E(["call", V("describe"), I(5), S("second")])]),
    ("ifset-binder-cell-does-not-leak", ["C01", "C06", "C13"], [
        ["set", "cell", ["expr", ["mut", None, I(1)]]], ["set", "text", ["expr", ["mut", None, S("a")]]],
        ["fndecl", "pick", [["z", "int"]], ["multi", ["mut", "int"], ["mut", "string"]], [
            ["stm", ["if", ["bin", ">", V("z"), I(0)], ["return", ["expr", V("text")]], None]], ret(V("cell"))]],
        ["stm", ["ifset", "cell", ["mut", "string"], ["call", V("pick"), I(1)], ["block", E(["bin", "=", V("cell"), S("b")])], None]],
        E(["tuple", ["pre", "deref", V("cell")], ["pre", "deref", V("text")]])]),
    ("whileset-binder-does-not-leak", ["C06", "C12", "C17"], [
        ["fndecl", "run", [["item", "string"]], "string", [
            ["set", "queue", ["expr", ["array", I(1), I(2), S("end")]]], ["set", "pos", ["expr", ["mut", None, I(0)]]],
            ["stm", ["whileset", "item", "int", ["at", V("queue"), ["pre", "deref", V("pos")]], ["block", E(["bin", "+=", V("pos"), I(1)])]]],
            ret(V("item"))]],
        E(["call", V("run"), S("none")])]),
    ("break-after-constant-while-in-block-rejected", ["C12", "C02"], [
        ["stm", ["block", ["stm", ["while", B(False), ["block", E(I(1))]]], ["stm", "break"]]], E(I(1))]),
    ("continue-after-constant-while-in-function-rejected", ["C12", "C02"], [
        ["fndecl", "f", [], None, [["stm", ["while", B(True), ["block", ["stm", "break"]]]], ["stm", ["if", B(True), ["block", ["stm", "continue"]], None]]]],
        E(["call", V("f")])]),
    ("break-after-constant-while-in-if-rejected", ["C12", "C02"], [
        ["stm", ["if", B(True), ["block", ["stm", ["while", B(False), ["block"]]], ["stm", "break"]], None]], E(I(1))]),
    ("match-value-order", ["C07", "C12"], [
        ["set", "log", ["expr", ["mut", ["arr", "int"], ["array"]]]],
        ["fndecl", "t", [["n", "int"]], "int", [E(["bin", "+=", V("log"), ["array", V("n")]]), ret(V("n"))]],
        ["set", "r", ["match", ["call", V("t"), I(2)],
                      ["aval", [["call", V("t"), I(1)], ["call", V("t"), I(2)], ["call", V("t"), I(3)]], ["block", E(S("first"))]],
                      ["aval", [["call", V("t"), I(2)]], ["block", E(S("second"))]],
                      ["aother", ["block", E(S("other"))]]]],
        E(["tuple", V("r"), ["pre", "deref", V("log")]])]),
    ("break-in-nested-block-arm", ["C12"], [
        ["set", "c", ["expr", ["mut", None, I(0)]]],
        ["stm", ["loop", ["block",
                          E(["bin", "+=", V("c"), I(1)]),
                          ["stm", ["match", ["pre", "deref", V("c")],
                                   ["aval", [I(3)], ["block", ["stm", ["block", ["stm", ["if", B(True), ["block", ["stm", "break"]], None]]]]]],
                                   ["aother", ["block", ["stm", "continue"]]]]],
                          E(["bin", "+=", V("c"), I(100)])]]],
        E(["pre", "deref", V("c")])]),
    ("return-from-nested-loops", ["C12"], [
        ["fndecl", "f", [], "int", [
            ["stm", ["for", "x", ["post", ["array", I(1), I(2), I(3)], "~"], ["block",
                ["stm", ["for", "y", ["post", ["array", I(10), I(20)], "~"], ["block",
                    ["stm", ["if", ["bin", "==", ["bin", "+", V("x"), V("y")], I(22)], ["return", ["expr", ["bin", "*", V("x"), V("y")]]], None]]]]]]]],
            ret(I(0))]],
        E(["call", V("f")])]),
    ("while-set-stops-at-non-match", ["C12"], [
        ["set", "it", ["expr", ["post", ["array", I(1), I(2), S("x"), I(4)], "~"]]],
        ["set", "acc", ["expr", ["mut", None, I(0)]]],
        ["stm", ["whileset", "v", "int", ["tacc", ["call", V("it")], 1], ["block", E(["bin", "+=", V("acc"), V("v")])]]],
        E(["pre", "deref", V("acc")])]),
]

"""Lane L6 (front part) — the model's own front-end against the implementation, on SOURCE TEXT.

(a) round trip  front(program(ast)) == ast  for the crafted corpus and random typed programs:
    the renderer (sast.py), the PEG model (Peg.v + GenGrammar.v) and Front.v together must
    reproduce the AST the program lanes feed to Check directly;
(b) full stack  (src-ty text) [text -> Peg -> Front -> Check -> Recreate -> Exec, all extracted]
    against (run-ty text) [Code::parse + exec]: acceptance class, value, static type — on the
    texts of README/docs/examples, rendered programs, token sequences in contexts, mutations
    of valid programs and short arbitrary UTF-8;
(c) Type::from_str / Variable::from_str against Front.parse_type_str / parse_value_str.

Every `!panic` of the implementation is a violation: C03 when the model did not get to execute
the program (panic inside Code::parse), C02 otherwise.  Texts the model cannot decide (fuel,
native stack) are not sent to the implementation: they may not terminate there either."""
import itertools
import re
import resource
import subprocess
import os
from concurrent.futures import ThreadPoolExecutor
from . import common, corpus, progen, sast, l6_peg, l7_programs
from .l6_peg import sx_str

LANE = "L6F"
HELPERS = l7_programs.HELPERS
SIX = l7_programs.SIX

# --------------------------------------------------------------------------- running

def _limits():
    # a runaway allocation (`[0; 1 << 40]`, doubling arrays) must kill the child, not the box
    try:
        resource.setrlimit(resource.RLIMIT_AS, (6 << 30, 6 << 30))
    except (ValueError, OSError):
        pass


def _shard(binary, lines, timeout, env):
    data = "\n".join(lines) + "\n"
    e = dict(os.environ)
    if env:
        e.update(env)
    try:
        p = subprocess.run([binary], input=data.encode(), stdout=subprocess.PIPE, stderr=subprocess.PIPE,
                           timeout=timeout, env=e, preexec_fn=_limits)
    except subprocess.TimeoutExpired:
        return ["!timeout"] * len(lines)
    out = p.stdout.decode("utf-8", "replace").split("\n")
    if out and out[-1] == "":
        out.pop()
    if len(out) > len(lines):       # a program printed something: nothing of this shard can be trusted
        return ["!died garbled"] * len(lines)
    if len(out) != len(lines):
        out = out + ["!died rc=%d" % p.returncode] * (len(lines) - len(out))
    return out


def _robust(binary, lines, timeout, env):
    """One shard; when the process hangs or dies, bisect so that only the culprit is lost."""
    out = _shard(binary, lines, timeout, env)
    bad = [k for k, o in enumerate(out) if o.startswith(("!timeout", "!died"))]
    if not bad or len(lines) == 1:
        return out
    first = bad[0]
    rest = lines[first:]
    if len(rest) == 1:
        return out
    t = max(8, timeout // 2)
    mid = len(rest) // 2
    return out[:first] + _robust(binary, rest[:mid], t, env) + _robust(binary, rest[mid:], t, env)


def run_robust(binary, cases, env=None, shard=300, timeout=60):
    if not cases:
        return []
    chunks = [cases[i:i + shard] for i in range(0, len(cases), shard)]
    with ThreadPoolExecutor(max_workers=common.NPROC) as ex:
        outs = list(ex.map(lambda c: _robust(binary, c, timeout, env), chunks))
    res = []
    for o in outs:
        res.extend(o)
    return res


def model(cases, **kw):
    return run_robust(common.DRIVER, cases, env={"VERIF_HELPERS": HELPERS}, **kw)


def impl(cases, **kw):
    return run_robust(common.HARNESS, cases, **kw)


# --------------------------------------------------------------------------- normalisation

def norm_impl(out):
    out = renumber(out) if out.startswith("ok ") else out
    if out.startswith("reject "):
        v = out[7:].split(" ")[0]
        return "reject " + v if v in SIX else "reject"
    if out.startswith("!panic"):
        return "!panic"
    return out


def norm_model(out):
    if out.startswith("!panic"):
        return "!panic"
    return renumber(out) if out.startswith("ok ") else out


def classify(out):
    for k in ("ok", "err", "reject"):
        if out.startswith(k):
            return k
    if out.startswith("!panic"):
        return "panic"
    return "other"


_STD = re.compile(r"\bstd\b")
_STD_LEN = re.compile(r"\bstd\s*\.\s*len\b")


def comparable(text):
    """The model's `std` only has `len`; the real one does I/O (which would garble the
    protocol) and has dozens of members."""
    return len(_STD.findall(text)) == len(_STD_LEN.findall(text))


# --------------------------------------------------------------------------- (a) round trip

def random_programs(rnd, n):
    progs = []
    for _ in range(n):
        p, _st = progen.program(rnd, n_lines=rnd.randrange(2, 9), max_depth=rnd.choice([2, 3, 3, 4]))
        progs.append(p)
    return progs


def _leftmost(e):
    while isinstance(e, list) and e:
        h = e[0]
        if h == "bin":
            e = e[2]
        elif h in ("reduce", "at", "slice", "call", "tacc", "facc", "tfilter", "post"):
            e = e[1]
        else:
            return h
    return None


def _starts_with_not(e):
    while isinstance(e, list) and e:
        h = e[0]
        if h == "pre":
            return e[1] == "not"
        if h == "bin":
            e = e[2]
        elif h in ("reduce", "at", "slice", "call", "tacc", "facc", "tfilter", "post"):
            e = e[1]
        else:
            return False
    return False


def minimal_ok(node):
    """sast's minimal mode (written for the helper sources) does not parenthesise a prefix
    operator under a prefix operator (`--2`: the grammar allows one per atom) nor a function
    literal at the start of `x := ...` (read as a function declaration): skip such programs"""
    if not isinstance(node, (list, tuple)):
        return True
    if node and node[0] == "pre" and isinstance(node[2], list) and node[2] and node[2][0] == "pre":
        return False
    if node and node[0] == "set" and isinstance(node[2], list) and node[2] and node[2][0] == "expr" \
            and _leftmost(node[2][1]) == "fn":
        return False
    if node and node[0] == "mut" and node[1] is None and _starts_with_not(node[2]):
        return False       # `mut !x`: the `!` is read as the type `!`
    return all(minimal_ok(x) for x in node)


def round_trip(rep, progs, tag, minimal=False):
    # minimal: parentheses only where the precedence table requires them (exercises the Pratt step)
    sast.MINIMAL[0] = minimal
    try:
        texts = [sast.program(p) for p in progs]
    finally:
        sast.MINIMAL[0] = False
    fc = ["(front " + sx_str(t) + ")" for t in texts]
    ac = ["(ast-id " + " ".join(sast.sx(l) for l in p) + ")" for p in progs]
    fo = model(fc)
    ao = model(ac)
    rep.evaluations += 2 * len(progs)
    rep.compared += len(progs)
    rep.distinct.update(fc)
    for k in range(len(progs)):
        rep.count(f"{LANE}.roundtrip.{tag}")
        if fo[k] != ao[k]:
            rep.count(f"{LANE}.roundtrip.differs")
            rep.disagreements.append({"lane": LANE, "case": "(run-ty " + sx_str(texts[k]) + ")", "model_case": fc[k],
                                      "ast_case": ac[k], "model": fo[k][:3000], "impl": ao[k][:3000],
                                      "what": "front(program(ast)) != ast (both sides are the model: `model` = (front text), "
                                              "`impl` = (ast-id AST))", "program": texts[k]})
    if texts:
        rep.sample({"lane": LANE, "part": "roundtrip", "program": texts[0][:400], "front": fo[0][:400]})
    return texts


# --------------------------------------------------------------------------- (b) texts

IDENTS = ["x", "y", "a", "f", "c", "t"]
TOKENS = l6_peg.KEYWORDS + l6_peg.OPERATORS + l6_peg.BRACKETS + ["1", "1.5", '"s"', "true"] + IDENTS + \
    l6_peg.TYPE_NAMES
# the declarations the token sequences can refer to (y stays undeclared)
PRE = 'x := 1; a := [1, 2]; f := (n: int) -> int { return n; }; c := mut 0; t := (1, "s");\n'
# (name, template, executes the sequence?)
CONTEXTS = [("stm", PRE + "@@", True), ("set", PRE + "y := @@;", True), ("fn", PRE + "g := () { @@ };", False)]
# tokens that can make a short sequence run forever
LOOPING = {"loop", "while", "for"}
# a smaller alphabet for the exhaustive length-3 sweep
TOKENS3 = ["if", "else", "match", "return", "loop", "break", "mut", "struct",
           "==", "<", "&&", "|", "**", "*", "+", "-", "@", "?", "\\", "$", "=", "+=", "!", "~", "$+", "$&&", "$]",
           ".", ":", ":=", "=>", "->", ",", ";", "(", ")", "[", "]", "{", "}",
           "1", "1.5", '"s"', "true", "x", "y", "a", "f", "c", "t", "int", "any"]


def token_texts(tier, r):
    out = []
    for n in (0, 1, 2):
        for seq in itertools.product(TOKENS, repeat=n):
            joined = " ".join(seq)
            loops = bool(LOOPING & set(seq))
            for cname, ctx, runs in CONTEXTS:
                if loops and runs:
                    continue
                out.append((f"tok{n}.{cname}", ctx.replace("@@", joined)))
            if n == 2 and not loops:
                tight = "".join(seq)
                if tight != joined:
                    out.append(("tok2.tight", PRE + tight))
    if tier == "thorough":
        for seq in itertools.product(TOKENS3, repeat=3):
            joined = " ".join(seq)
            loops = bool(LOOPING & set(seq))
            for cname, ctx, runs in CONTEXTS[:1] if not loops else CONTEXTS[2:]:
                out.append((f"tok3.{cname}", ctx.replace("@@", joined)))
    nrand = 60000 if tier == "thorough" else 6000
    seps = [" ", " ", " ", "", "\n", "\t", " /*c*/ ", " //c\n"]
    for _ in range(nrand):
        n = r.randint(3, 7)
        seq = [r.choice(TOKENS) for _ in range(n)]
        t = "".join(tok + (r.choice(seps) if k + 1 < n else "") for k, tok in enumerate(seq))
        loops = bool(LOOPING & set(seq))
        cname, ctx, runs = r.choice(CONTEXTS)
        if loops and runs:
            cname, ctx, runs = CONTEXTS[2]
        t = ctx.replace("@@", t)
        if l6_peg.nesting_ok(t, 7):
            out.append(("rand." + cname, t))
    return out


LITERALS = ["0", "7", "9223372036854775807", "9223372036854775808", "0x7fff_ffff_ffff_ffff", "0x8000000000000000",
            "0b1_01", "0b__1", "0o17", "0o_7_7", "0xfF", "1_000", "1__0", "1.5", "1e3", "1E-2", "1.5e+_3", "1_0.2_5",
            "1e999", "0.0", '""', '"a\\nb"', '"\\t\\r\\b\\f\\/\\\'"', '"\\0"', '"\\101"', '"\\1012"', '"\\47"', '"\\477"',
            '"\\8"', '"\\x41"', '"\\x4"', '"\\xZZ"', '"\\x+1"', '"\\x-1"', '"\\u{1F600}"', '"\\u{41"', '"\\u{}"',
            '"\\u{D800}"', '"\\u{110000}"', '"\\u{+41}"', '"\\u0041"', '"\\u004"', '"\\u+041"', '"\\uD800"', '"\\q"',
            '"\\""', '"\\\\"', '"é\\u{e9}"', '"a\nb"', "()", "true", "false"]


def literal_texts(r, n):
    """programs built around literals in every position the code reads them"""
    out = []
    shapes = ["{0}", "x := {0}; x", "[{0}, {0}]", "({0}, 1).0", "(1, 2).{0}", "t := (1, 2); t.{0}", "-{0}", "[{0}; 2]",
              "[1; {0}]", "f := (n: int) -> int {{ return {0}; }}; f(1)", "match 1 {{ {0} => 1, => 2, }}",
              "a := [1, 2, 3]; a[{0}]", "a := [1, 2, 3]; a[{0}:]", "struct{{a := {0}}}.a", "mut {0}",
              "{0} == {0}", "import {0}", "y := undefined; {0}", "{0}; y := undefined;", "{0}.0", "x := 1; x.{0}"]
    for lit in LITERALS:
        for sh in shapes:
            # constant repeat counts beyond 10^6 exhaust memory: outside C03's claim
            if sh.startswith("[1; ") and lit[0].isdigit() and len(lit) > 6:
                continue
            out.append(("literal", sh.format(lit)))
    for _ in range(n):
        a, b = r.choice(LITERALS), r.choice(LITERALS)
        op = r.choice(["+", "-", "*", "==", "<", "&", "**", "<<"])
        out.append(("literal", f"{a} {op} {b}"))
    return out


CRAFTED = [
    # Pratt: every level against its neighbours, prefix/postfix interplay, right-assoc assignments
    "c := mut 0; d := mut 0; c = d = 5", "c := mut 1; c += c -= 1", "1 + 2 * 3 ** 2 ** 2", "2 ** 3 ** 2", "- 2 ** 2",
    "-[1, 2][0]", "![true][0]", "c := mut [1]; *c[0]", "c := mut [1]; (*c)[0]", "a := [1, 2]; - a ~ $+", "a := [1, 2]; a ~ $+ + 1",
    "a := [1, 2]; a ~ @ (v: int) -> int { return v; } $]", "a := [1, 2]; a ~ $ 0 (s: int, v: int) -> int { return s + v; }",
    "a := [1, 2]; a ~ $ 0 (s: int, v: int) -> int { return s + v; } + 1", "1 < 2 == true", "1 | 2 ^ 3 & 4", "1 << 2 + 3",
    "true || false && false", "1 + 2 == 3 && 4 < 5", "a := [[1, 2], [3]]; a[0][1:][0]", "f := () -> () -> int { return () -> int { return 1; }; }; f()()",
    "s := struct{a := struct{b := (1, 2)}}; s.a.b.1", "a := [1, 2.5, \"s\"]; a ~ ? int $]", "a := [1, 2]; a ~ ? (v: int) -> bool { return v > 1; } $]",
    "a := [1, 2]; a ~ \\ (v: int) -> bool { return v > 1; }", "x := 5; x ? int", "1 + - 1", "1 - - 1", "!!true", "- - 1", "*mut 1",
    # slicing triage
    "a := [1, 2, 3, 4]; a[:]", "a := [1, 2, 3, 4]; a[::]", "a := [1, 2, 3, 4]; a[1:]", "a := [1, 2, 3, 4]; a[:2]", "a := [1, 2, 3, 4]; a[::2]",
    "a := [1, 2, 3, 4]; a[1:3]", "a := [1, 2, 3, 4]; a[1::2]", "a := [1, 2, 3, 4]; a[:3:2]", "a := [1, 2, 3, 4]; a[0:4:2]", "a := [1, 2, 3, 4]; a[1:3:]",
    "\"hello\"[1:3]", "a := [1, 2, 3, 4]; a[\"s\":]", "a := [1, 2, 3, 4]; a[::1.5]",
    # types in every position
    "x := mut int | float 1; x = 1.5; *x", "x := mut [] []; *x", "x := mut [int] []; x += [1]; *x", "x := mut (int, string) (1, \"a\"); *x",
    "f := (g: (int) -> int, v: int) -> int { return g(v); }; f((n: int) -> int { return n + 1; }, 1)",
    "f := (s: struct{a: int, b: string}) -> int { return s.a; }; f(struct{a := 1, b := \"x\", c := 2})", "f := (s: struct{a: int, a: float}) -> float { return s.a; }; f(struct{a := 1.5})",
    "f := (v: any) -> int { if w: int = v { return w; } return 0; }; f(1) + f(\"s\")", "f := (v: int | string) int { match v { i: int => return i, s: string => return 0, } }; f(1)",
    "f := (v: mut int) { v += 1; }; c := mut 1; f(c); *c", "f := (v: mut (int | float)) { v = 1.5; }; c := mut int | float 1; f(c); *c",
    "f := (v: !) { }; 1", "f := () -> ! { loop { } }; 1", "f := (v: [[int]] | ()) -> () { }; f([[1]])", "x: int = 5", "if x: int = 5 { x } else { 0 }",
    "if x: (int, int) | int = (1, 2) { 1 } else { 0 }", "c := mut 0; while x: int = *c { c = \"s\"; } *c", "f := () (int) -> int { return (n: int) -> int { return n; }; }; f()(3)",
    # statements
    "if true 1 else 2", "if true return else 2", "if false { 1 } else if true { 2 } else { 3 }", "x := if true { 1 } else { \"s\" }; x", "x := { y := 1; y + 1 }; x",
    "(p, q) := (1, \"s\"); q", "() := (1, 2);", "(p) := (1, 2);", "(p, q) := 1;", "f := () { return; }; f()", "f := () -> int { return 1 }; f()",
    "c := mut 0; for i in [1, 2, 3] { c += i; } *c", "c := mut 0; for i in [1, 2, 3] ~ { c += i; } *c", "c := mut 0; while *c < 3 { c += 1; } *c", "c := mut 0; loop { c += 1; if *c > 2 break; } *c",
    "c := mut 0; loop { c += 1; if *c > 2 { break; } } *c", "for i in [1, 2] { continue; }", "break", "continue", "return 1", "f := () -> int { loop { return 1; } }; f()",
    "m := mod { p := 1; q := (n: int) -> int { return n + p; }; }; m.q(1)", "m := mod { }; m", "s := struct{}; s", "x := 1; s := struct{x, y := 2}; s.x + s.y", "match 1 { 1, 2 => \"a\", => \"b\", }",
    "match (1, \"s\") { p: (int, string) => p.0, }", "match 1 { }", "match 1.5 { v: int => 1, }", "x := 1 y := 2; x + y", "x := 1\ny := 2\nx + y", "x := 1\n-1", "x := 1;\n-1", "f := (n: int) -> int { return n; }\n(1)",
    "x := (n: int) -> int { return n; }; x(1)", "x := ((n: int) -> int { return n; }); x(1)", "// c\n1 /* c */ + /* /* n */ 2", "1 /* unterminated", "x := 1; // c", "",
    " ", ";", "1;;", "if := 1; if", "in := 2; in", "else := 3; else", "match := 4; match", "import := 5; import", "truex := 1; truex", "returns := 1; returns", "mutx := 1; mutx",
    "import \"/nonexistent/file.ssl\"", "import \"\\q\"", "x := import \"/nonexistent\"; x", "std.len([1, 2])", "std.len(\"héllo\")", "l := std.len; l([1])",
    # reading order: a rejected literal after something else that is rejected / before
    "y; 99999999999999999999", "99999999999999999999; y", "[y, 99999999999999999999]", "[99999999999999999999, y]", "(1).99999999999999999999", "(1, 2).99999999999999999999",
    "(1, 2).0x1", "(1, 2).0b0", "(1, 2).1_", "(1, 2) . 1", "(1,2).1.0", "((1, 2), 3).0.1", "t := ((1, 2), 3); t.0.1", "1.5.0", "x := 1.5; x.0",
]


PRE2 = ('x := 3; a := [1, 2, 3]; f := (n: int) -> int { return n + 1; }; c := mut 5; t := (7, "s");\n'
        'inc := (n: int) -> int { return n + 1; }; pos := (n: int) -> bool { return n > 1; };\n'
        'add := (s: int, n: int) -> int { return s + n; }; b := true; s := struct{p := 2, q := [1, 2]};\n')
INT_ATOMS = ["1", "2", "3", "7", "0", "x", "a[0]", "a[1]", "t.0", "f(2)", "*c", "s.p", "s.q[1]", "std.len(a)", "a[1:][0]",
             "[4, 5][1]", "(1 + 2)", "f(x)", "a[-1]", "t.1[0:1] == \"s\"", "inc(1)"]
INT_OPS = ["+", "-", "*", "/", "%", "**", "<<", ">>", "&", "|", "^"]
CMP_OPS = ["==", "!=", "<", "<=", ">", ">="]
SRC = ["a ~", "[1, 2, 3, 4] ~", "[3; 2] ~", "a[1:] ~", "s.q ~", "[1, \"s\", 2.5] ~ ? int"]
STAGES = ["@ inc", "? pos", "@ (n: int) -> int { return n * 2; }", "? int", "@ f ? pos"]
TERMS = ["$]", "$+", "$*", "$ 0 add", "$ 10 (u: int, n: int) -> int { return u - n; }", "\\ pos", "@ pos $&&", "@ pos $||",
         "$&", "$|", "$] [0]", "$+ + 1", "$+ * 2 + 1", "$] [1:]", "$] ~ $+", "$ 0 add + 1", "$+ == 6", "@ pos $&& && b"]


def soup(r):
    """operator soups without parentheses: the value depends on precedence and associativity"""
    def atom():
        a = r.choice(INT_ATOMS)
        k = r.random()
        if k < 0.12:
            return "-" + a
        if k < 0.2:
            return "!" + a
        if k < 0.24:
            return "- " + a
        return a

    def chain(n):
        parts = [atom()]
        for _ in range(n):
            parts.append(r.choice(INT_OPS))
            parts.append(atom())
        return " ".join(parts)
    k = r.randrange(10)
    if k < 4:
        return chain(r.randint(1, 6))
    if k < 6:
        e = chain(r.randint(0, 3)) + " " + r.choice(CMP_OPS) + " " + chain(r.randint(0, 3))
        for _ in range(r.randint(0, 2)):
            e += " " + r.choice(["&&", "||", "==", "!="]) + " " + r.choice(
                ["b", "!b", "true", chain(r.randint(0, 2)) + " " + r.choice(CMP_OPS) + " " + chain(r.randint(0, 2))])
        return e
    if k < 9:
        e = r.choice(SRC)
        for _ in range(r.randint(0, 2)):
            e += " " + r.choice(STAGES)
        return e + " " + r.choice(TERMS)
    # assignments: right associative, lowest level
    op = r.choice(["=", "+=", "-=", "*=", "/=", "%=", "<<=", ">>=", "&=", "|=", "^=", "**="])
    e = "c " + op + " " + chain(r.randint(0, 3))
    if r.random() < 0.3:
        e = "d := mut 1; d " + r.choice(["=", "+="]) + " " + e
    return e + "; *c"


def soup_texts(r, n):
    return [("soup", PRE2 + soup(r)) for _ in range(n)]


def corpus_texts():
    out = []
    for o, t in l6_peg.corpus():
        if o in ("doc", "docline", "script", "embedded"):
            out.append((o, t))
        elif o == "ruststr" and len(t) <= 200:
            out.append((o, t))
    return out


def _dedupe(cases, seen):
    uniq = []
    for o, t in cases:
        if t in seen or "\x00" in t:
            continue
        seen.add(t)
        if not l6_peg.nesting_ok(t, 9) or len(t) > 6000:
            continue
        uniq.append((o, t))
    return uniq


def build_texts(tier, rendered, seen):
    r = common.rng("L6F")
    cases = []
    cases.extend(corpus_texts())
    for t in rendered:
        # one line, as lane L7 feeds them (every line of a rendered program ends in `;`)
        cases.append(("rendered", t.replace("\n", " ")))
    for t in CRAFTED:
        cases.append(("crafted", t))
    cases.extend(literal_texts(r, 400 if tier == "thorough" else 100))
    cases.extend(soup_texts(r, 40000 if tier == "thorough" else 6000))
    cases.extend(token_texts(tier, r))
    for o, t in l6_peg.utf8_texts(tier, r):
        cases.append((o, t))
    cases.extend(derived_texts(tier, r))
    return _dedupe(cases, seen)


def derived_texts(tier, r):
    """random sentences derived from the grammar itself (every alternative of every rule gets
    used, so every child shape Front can be handed occurs), bare and after the declarations"""
    try:
        rules = l6_peg.load_grammar()
    except Exception as ex:
        common.log(f"{LANE}: grammar-directed generation skipped ({ex})")
        return []
    d = l6_peg.Deriver(rules, r)
    out = []
    n = 120000 if tier == "thorough" else 12000
    entries = ["input"] * 4 + ["line", "line", "stm", "expr", "expr", "function", "match", "var", "mut", "struct", "mod",
                               "if_else", "set_if_else", "while_set", "for", "slicing", "tuple", "array_repeat"]
    for _ in range(n):
        rule = r.choice(entries)
        if rule not in rules:
            continue
        budget = d.cost.get(rule, 0) + r.randint(0, 8)
        t = d.gen(("ident", rule), budget + 1, False)
        if len(t) > 300 or not l6_peg.nesting_ok(t, 7):
            continue
        out.append(("derived", t))
        if r.random() < 0.3:
            out.append(("derived", PRE + t))
    return out


def build_mutations(tier, bases, seen):
    """mutations of programs the implementation ran to completion (so that a known defect of
    the base program is not reported again for each of its mutants)"""
    r = common.rng("L6F.mut")
    cases = []
    nmut = 60000 if tier == "thorough" else 6000
    if not bases:
        return []
    for _ in range(nmut):
        base = r.choice(bases)
        if len(base) > 1200:
            lines = base.split("\n")
            a = r.randrange(len(lines))
            base = "\n".join(lines[a:a + r.randint(1, 12)])
        t = l6_peg.mutate(base, r)
        if r.random() < 0.3:
            t = l6_peg.mutate(t, r)
        if l6_peg.nesting_ok(t, 8):
            cases.append(("mut", t))
    return _dedupe(cases, seen)


def case_of(origin, text):
    """the exact harness command (for rendered programs this is also the case text of lane L7,
    which the known findings are matched against: see build_texts)"""
    return "(run-ty " + sx_str(text) + ")"


def model_case_of(text):
    return "(src-ty " + sx_str(text) + ")"


_ID = re.compile(r"\((fun|mut) (\d+)")


def renumber(out):
    """function / cell identities are numbered by first appearance in the printed value; the
    harness walks struct fields in hash order before sorting them, so the numbering is
    normalised on both sides (same identity -> same number, by position in the text)"""
    maps = {"fun": {}, "mut": {}}

    def sub(m):
        d = maps[m.group(1)]
        return "(%s %d" % (m.group(1), d.setdefault(m.group(2), len(d)))
    return _ID.sub(sub, out)


def full_stack(rep, cases):
    """cases: [(origin, text)]; returns the texts the implementation accepted and ran"""
    usable = []
    for o, t in cases:
        if comparable(t):
            usable.append((o, t))
        else:
            rep.count(f"{LANE}.skipped.std")
    mc = ["(src-ty " + sx_str(t) + ")" for _, t in usable]
    mo = model(mc, timeout=40)
    rep.evaluations += len(mc)
    # what the model cannot decide is not run on the implementation (it may not terminate)
    keep = []
    for k, m in enumerate(mo):
        if m.startswith(("!fuel", "!stack", "!timeout", "!died", "!fail", "!bad", "!parse")):
            rep.count(f"{LANE}.inconclusive.model." + m.split(" ")[0].lstrip("!"))
        else:
            keep.append(k)
    ic = ["(run-ty " + sx_str(usable[k][1]) + ")" for k in keep]
    io = impl(ic, timeout=40)
    # where the model's native stack gave out (huge repeat counts, runaway recursion) the
    # implementation still gets one process per text: a panic there is a violation all the same
    singles = [k for k, m in enumerate(mo) if m.startswith("!stack")][:40]
    so = impl(["(run-ty " + sx_str(usable[k][1]) + ")" for k in singles], shard=1, timeout=10)
    for k, o in zip(singles, so):
        rep.count(f"{LANE}.single." + ("panic" if o.startswith("!panic") else o.split(" ")[0].lstrip("!")))
        if o.startswith("!panic") and ("LayoutError" in o or "capacity overflow" in o or "allocation" in o):
            # a literal size that exhausts memory: outside the claim of C03
            rep.count(f"{LANE}.inconclusive.memory")
            rep.note(f"{LANE}: (outside the claim) allocation panic on {usable[k][1][:120]!r}: {o[:100]}")
        elif o.startswith("!panic"):
            where = impl(["(parse-ty " + sx_str(usable[k][1]) + ")"], shard=1, timeout=10)[0]
            rep.violations.append({"property": "C03" if where.startswith("!panic") else "C02", "lane": LANE,
                                   "what": "implementation panics (the model ran out of native stack on this text): " + o[:200],
                                   "program": usable[k][1], "case": case_of(*usable[k]),
                                   "model_case": model_case_of(usable[k][1])})
    rep.evaluations += len(ic)
    rep.compared += len(ic)
    rep.distinct.update(ic)
    # a difference may come from the hash order of this one process (default value of a union,
    # C05's business): ask the implementation again, in fresh processes
    differ = [j for j, k in enumerate(keep)
              if norm_model(mo[k]) != norm_impl(io[j]) and not io[j].startswith(("!timeout", "!died"))]
    flaky = {}
    if differ and len(differ) <= 2000:
        for _ in range(6):
            again = impl([ic[j] for j in differ], shard=max(1, len(differ) // common.NPROC + 1), timeout=40)
            for j, a in zip(differ, again):
                flaky.setdefault(j, set()).add(norm_impl(a))
    typed = []
    good = []
    ndis = 0
    for j, (k, iraw) in enumerate(zip(keep, io)):
        origin, text = usable[k]
        o = origin.split(".")[0]
        m, i = norm_model(mo[k]), norm_impl(iraw)
        if iraw.startswith(("!timeout", "!died")):
            rep.count(f"{LANE}.inconclusive.impl")
            rep.note(f"{LANE}: implementation {iraw.split(' ')[0]} on {text[:120]!r} (model: {mo[k][:80]})")
            continue
        rep.count(f"{LANE}.{o}.{classify(i)}")
        rep.count(f"{LANE}.class.{classify(i)}")
        if "import" in text and not i.startswith(("reject", "!panic")):
            rep.count(f"{LANE}.skipped.import")       # an import that found a file
            continue
        if i == "!panic":
            # C03 when Code::parse itself panics, C02 when the parsed program does
            where = impl(["(parse-ty " + sx_str(text) + ")"], shard=1, timeout=20)[0]
            executed = not where.startswith("!panic")
            rep.violations.append({"property": "C02" if executed else "C03", "lane": LANE,
                                   "what": "implementation panics: " + iraw[:200], "program": text,
                                   "case": case_of(origin, text), "model_case": model_case_of(text)})
        elif i.startswith(("ok", "err")):
            good.append(text)
        if m != i:
            outs = flaky.get(j, set()) | {i}
            if m in outs and len(outs) > 1:
                rep.count(f"{LANE}.impl-nondeterministic")
                rep.note(f"{LANE}: the implementation's answer depends on the run (hash order): {text[:160]!r} -> "
                         + " / ".join(sorted(x[:80] for x in outs)))
                continue
            ndis += 1
            if len(rep.disagreements) < 300:
                rep.disagreements.append({"lane": LANE, "case": case_of(origin, text), "model_case": model_case_of(text),
                                          "model": m[:600], "impl": i[:600], "program": text, "origin": origin})
        if i.startswith("ok ") and " :: " in i:
            v, t = i[3:].split(" :: ", 1)
            typed.append((origin, text, v, t))
    if ndis > 300:
        rep.note(f"{LANE}: {ndis} disagreements, only the first 300 recorded")
    # Front's two modes (literal errors reported at once / deferred into the AST) can only differ
    # when the checker panics before it reaches the faulty literal
    sub = [k for k in keep if usable[k][0].split(".")[0] in ("literal", "crafted", "soup", "mut", "derived")][:20000]
    eo = model(["(src-eager-ty " + sx_str(usable[k][1]) + ")" for k in sub], timeout=40)
    rep.evaluations += len(sub)
    for k, e in zip(sub, eo):
        if e != mo[k]:
            rep.count(f"{LANE}.eager-differs")
            rep.note(f"{LANE}: eager/deferred rejection differ on {usable[k][1][:160]!r}: {e[:60]} / {mo[k][:60]}")
    # C01: the value belongs to the static type reported for the program
    seen = set()
    qs = []
    for origin, text, v, t in typed:
        q = f"(has-type {v} {t})"
        if q not in seen and "(deep)" not in v:
            seen.add(q)
            qs.append((q, origin, text))
    ans = model([q for q, _, _ in qs])
    rep.evaluations += len(qs)
    for (q, origin, text), a in zip(qs, ans):
        if a != "true":
            rep.violations.append({"property": "C01", "lane": LANE, "what": f"result does not inhabit the static type: {q[:300]} ({a})",
                                   "program": text, "case": case_of(origin, text), "model_case": model_case_of(text)})
    for j in (0, len(keep) // 3, len(keep) // 2, len(keep) - 1):
        if 0 <= j < len(keep):
            rep.sample({"lane": LANE, "part": "full-stack", "text": usable[keep[j]][1][:300], "model": mo[keep[j]][:200],
                        "impl": io[j][:200]})
    return good


# --------------------------------------------------------------------------- (c) from_str

INT_TEXTS = ["0", "1", "-1", "- 1", "-0", "00", "007", "1_000", "1_", "_1", "1__2", "9223372036854775807", "9223372036854775808",
             "-9223372036854775807", "-9223372036854775808", "-9223372036854775809", "99999999999999999999", "0b0", "0b1", "0b_1", "0b1_",
             "0b", "0b2", "0B1", "0b" + "1" * 63, "0b" + "1" * 64, "-0b" + "1" * 63, "0o7", "0o8", "0o_17", "0o777777777777777777777",
             "0o1000000000000000000000", "0x0", "0xff", "0xFF", "0xfF_", "0x_f", "0x", "0xg", "0X1", "0x7fffffffffffffff", "0x8000000000000000",
             "-0x8000000000000000", "-0x7fffffffffffffff", "0x0000000000000000000001", "+1", "1 ", " 1", "\t1\n", "\u00a01\u3000", "\u200b1",
             "1 2", "- 0x1f", "-\t1", "-\n1", "-/*c*/1", "1/*c*/", "1//c"]
FLOAT_TEXTS = ["1.5", "-1.5", "- 1.5", "-\t1.5", "-\n1.5", "-/*c*/1.5", "0.0", "-0.0", "1e5", "1E5", "1e+5", "1e-5", "1.5e3", "1_0.5", "1.5_",
               "1._5", "1e_5", "1e+_5", "1e5_", "1__0.0__1e1__0", "1.", ".5", "1.e5", "1e", "1e+", "1e999", "-1e999", "1e-999",
               "4.9e-324", "2.2250738585072014e-308", "1.7976931348623157e308", "1.7976931348623159e308", "0.1", "0.30000000000000004",
               "123456789012345678901234567890.0", "9007199254740993.0", "1.0000000000000002", "5e-324", "2.5e-324", "2.4703282292062328e-324",
               "inf", "nan", "infinity", "1.5f", "0x1.8p1", "1.5.5", "1 .5", "1. 5", "1 e5"]
STRING_TEXTS = ['""', '"a"', '"a b"', '" a "', '"é"', '"\U0001F600"', '"a\nb"', '"\\n"', '"\\t"', '"\\r"', '"\\b"', '"\\f"', '"\\\\"', '"\\""',
                "\"\\'\"", '"\\/"', '"\\0"', '"\\00"', '"\\000"', '"\\0000"', '"\\7"', '"\\77"', '"\\777"', '"\\377"', '"\\400"', '"\\101"',
                '"\\1012"', '"\\18"', '"\\8"', '"\\9"', '"\\x41"', '"\\x7f"', '"\\x80"', '"\\xff"', '"\\xFF"', '"\\x4"', '"\\x"', '"\\xg1"',
                '"\\x+4"', '"\\x-4"', '"\\x 4"', '"\\xé1"', '"\\u{41}"', '"\\u{1F600}"', '"\\u{10FFFF}"', '"\\u{110000}"', '"\\u{D7FF}"',
                '"\\u{D800}"', '"\\u{DFFF}"', '"\\u{E000}"', '"\\u{}"', '"\\u{"', '"\\u{41"', '"\\u{41}}"', '"\\u{+41}"', '"\\u{-41}"',
                '"\\u{ 41}"', '"\\u{0000000041}"', '"\\u{FFFFFFFFF}"', '"\\u{g}"', '"\\u0041"', '"\\u00e9"', '"\\uD800"', '"\\uFFFF"',
                '"\\u004"', '"\\u"', '"\\u+041"', '"\\u-041"', '"\\u00 1"', '"\\u00é1"', '"\\a"', '"\\e"', '"\\v"', '"\\q"', '"\\ "', '"\\\n"',
                '"\\é"', '"a\\', '"a', 'a"', '"a"b"', '"\\\\\\"', '"\\\\\\""', '"x\\u{41}y\\x42z\\103"']


def gen_value(r, depth=0):
    k = r.randrange(12 if depth < 3 else 6)
    sp = lambda: r.choice(["", "", " ", "\n", "\t", "/*c*/", " //c\n"])
    if k <= 1:
        return r.choice(INT_TEXTS[:48])
    if k == 2:
        return r.choice(FLOAT_TEXTS[:42])
    if k == 3:
        return r.choice(STRING_TEXTS)
    if k == 4:
        return r.choice(["true", "false", "()", "( )", "truex", "x"])
    if k == 5:
        return r.choice(["1", "2.5", '"s"', "true", "()"])
    if k in (6, 7):
        return "[" + sp() + (sp() + "," + sp()).join(gen_value(r, depth + 1) for _ in range(r.randint(0, 3))) + sp() + "]"
    if k == 8:
        return "[" + sp() + gen_value(r, depth + 1) + sp() + ";" + sp() + r.choice(["0", "1", "3", "0x2", "0b11", "1_0", "-1", "1.5", "x"]) + sp() + "]"
    if k == 9:
        return "(" + (sp() + "," + sp()).join(gen_value(r, depth + 1) for _ in range(r.randint(1, 3))) + ")"
    fs = (sp() + "," + sp()).join(r.choice("abxy") + sp() + r.choice([":=", ":=", ":=", "=", ":"]) + sp() + gen_value(r, depth + 1)
                                  for _ in range(r.randint(0, 3)))
    return "struct" + sp() + "{" + sp() + fs + sp() + "}"


def from_str(rep, tier):
    r = common.rng("L6F.fromstr")
    types = []
    tl = 4 if tier == "thorough" else 3
    for n in range(0, tl + 1):
        for seq in itertools.product(l6_peg.TYPE_TOKENS, repeat=n):
            types.append(" ".join(seq))
    pad = ["", "", "", " ", "\n", " x", " |", "//c", "/*c*/", "x", "_"]
    for _ in range(30000 if tier == "thorough" else 5000):
        types.append(r.choice(pad[:5]) + l6_peg.gen_type(r) + r.choice(pad))
    types += ["struct{a: int, a: float}", "struct{a: int, b: float, a: string}", "struct{a: struct{a: int, a: !}}", "int|int", "int|float|int",
              "any|int", "int|!", "!|!", "[!]", "[]", "[int|!]", "(int|float)|string", "() -> int | float", "() -> (int | float)", "mut int | float",
              "mut (int | float)", "mut mut int", "[[[]]]", "(int,)", "(int)", "()", "( )", "(\n)", "(int, float)", "intx", "int x", "int|", "|int",
              "boolean", "strings", "anyone", "!x", "struct {}", "struct{}", "struct{a:int}", "structx{}", "mutint", "mut  int", "mut\tint"]
    values = list(INT_TEXTS) + list(FLOAT_TEXTS) + list(STRING_TEXTS)
    vl = 4 if tier == "thorough" else 3
    for n in range(0, vl + 1):
        for seq in itertools.product(l6_peg.VAR_TOKENS, repeat=n):
            values.append(" ".join(seq))
            if n <= 2:
                values.append("".join(seq))
    for _ in range(40000 if tier == "thorough" else 6000):
        values.append(r.choice(["", "", "", " ", "\n", "\u00a0", "\u3000"]) + gen_value(r) + r.choice(["", "", "", " ", "\n", "\u2028", " x", ";", "//c", "/*c*/"]))
    values += ["[1; 1000]", "[[1; 3]; 2]", "[\"a\\n\"; 2]", "[1, 2.5]", "[[1], [2.5]]", "[[], [1]]", "[(1, 2)]", "(1, 2)", "struct{a := 1, a := 2.5}",
               "struct{a := (1, 2)}", "struct{a := 99999999999999999999, b := (1, 2)}", "struct{b := (1, 2), a := 99999999999999999999}",
               "[99999999999999999999, (1, 2)]", "[(1, 2), 99999999999999999999]", "[1; 99999999999999999999]", "[\"\\q\"; 2]", "[(1,2); 2]"]
    n = 0
    for kind, texts in (("type-from-str", types), ("value-from-str", values)):
        uniq = list(dict.fromkeys(t for t in texts if l6_peg.nesting_ok(t, 8) and "\x00" not in t))
        cs = [f"({kind} {sx_str(t)})" for t in uniq]
        mo = model(cs)
        io = impl(cs)
        rep.evaluations += 2 * len(cs)
        rep.compared += len(cs)
        rep.distinct.update(cs)
        n += len(cs)
        for t, c, m, i in zip(uniq, cs, mo, io):
            cls = "accept" if not i.startswith(("reject", "!")) else ("reject" if i == "reject" else "other")
            rep.count(f"{LANE}.{kind}.{cls}")
            if i.startswith("!panic"):
                rep.violations.append({"property": "C03", "lane": LANE, "what": f"{kind} panics: {i[:200]}", "program": t,
                                       "case": c, "model_case": c})
            if m.startswith("!fuel"):
                rep.count(f"{LANE}.{kind}.model-fuel")      # repeat count beyond Front.REPEAT_LIMIT
            elif m != i and not (m.startswith("!panic") and i.startswith("!panic")):
                rep.disagreements.append({"lane": LANE, "case": c, "model_case": c, "model": m[:600], "impl": i[:600]})
        if cs:
            rep.sample({"lane": LANE, "part": kind, "case": cs[len(cs) // 2][:200], "model": mo[len(cs) // 2][:200], "impl": io[len(cs) // 2][:200]})
    return n


# --------------------------------------------------------------------------- lane

def run(rep, tier):
    rnd = common.rng("L6F.progs")
    nprog = 3000 if tier == "thorough" else 400
    cprogs = [e[2] for e in corpus.CORPUS]
    rprogs = random_programs(rnd, nprog)
    rendered = round_trip(rep, cprogs, "corpus") + round_trip(rep, rprogs, "random")
    # minimal renderings of the corpus only make the round trip (their known defects would be
    # reported a second time under another text)
    round_trip(rep, [p for p in cprogs if minimal_ok(p)], "corpus-minimal", True)
    rendered += round_trip(rep, [p for p in rprogs if minimal_ok(p)], "random-minimal", True)
    seen = set()
    cases = build_texts(tier, rendered, seen)
    for o, _ in cases:
        rep.count(f"{LANE}.origin.{o.split('.')[0]}")
    good = full_stack(rep, cases)
    origin = {t: o for o, t in cases}
    bases = [t for t in good if origin.get(t, "").split(".")[0] in ("doc", "script", "embedded", "rendered", "crafted")
             and len(t) >= 12]
    muts = build_mutations(tier, bases, seen)
    rep.count(f"{LANE}.origin.mut", len(muts))
    full_stack(rep, muts)
    from_str(rep, tier)
    return rep.compared

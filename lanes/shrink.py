"""Delta-debugging shrinker for program ASTs: removes lines (at any block depth) while the
predicate (e.g. "model and implementation still disagree") keeps holding."""
import copy


def _line_lists(node, out):
    """collect every list-of-lines container inside the AST as (parent, key) pairs"""
    if isinstance(node, list):
        if node and node[0] == "block":
            out.append((node, slice(1, None)))
        if node and node[0] in ("fn",) and len(node) == 4:
            out.append((node[3], slice(0, None)))
        if node and node[0] == "fndecl":
            out.append((node[4], slice(0, None)))
        if node and node[0] == "mod":
            out.append((node, slice(1, None)))
        for x in node:
            _line_lists(x, out)


def shrink(prog, still_bad, budget=200):
    prog = copy.deepcopy(prog)
    changed = True
    while changed and budget > 0:
        changed = False
        containers = [(prog, slice(0, None))]
        _line_lists(prog, containers)
        for cont, sl in containers:
            items = cont[sl]
            i = len(items) - 1
            while i >= 0 and budget > 0:
                cand_items = items[:i] + items[i + 1:]
                backup = cont[sl]
                cont[sl] = cand_items
                budget -= 1
                if still_bad(prog):
                    items = cand_items
                    changed = True
                else:
                    cont[sl] = backup
                i -= 1
    return prog

"""Lane L10 — mutable cells (C13): random aliasing graphs (cells in arrays, structs, closures,
other cells), all 12 assignment operators, union-typed cells, failing updates.  A Python
simulation of "one store, aliases are references" is the property oracle; the model is compared too."""
from . import common, sast, l7_programs
from .sast import I, S, B, V
from .l2_scalars import spec_int, wrap

OPS = {"+=": "add", "-=": "sub", "*=": "mul", "/=": "div", "%=": "mod", "**=": "pow", "<<=": "shl",
       ">>=": "shr", "&=": "band", "|=": "bor", "^=": "xor"}


def paths(ci):
    c = f"c{ci}"
    return [V(c), ["at", V("arr"), I(ci)], ["facc", V("st"), c], ["call", V(f"g{ci}")],
            ["pre", "deref", V(f"cc{ci}")], ["tacc", V("tp"), ci]]


def gen(rnd, nops):
    ncell = 3
    init = [rnd.randrange(-5, 20) for _ in range(ncell)]
    lines = []
    for i in range(ncell):
        lines.append(["set", f"c{i}", ["expr", ["mut", "int" if rnd.random() < 0.5 else None, I(init[i])]]])
    lines.append(["set", "arr", ["expr", ["array"] + [V(f"c{i}") for i in range(ncell)]]])
    lines.append(["set", "st", ["expr", ["struct"] + [[f"c{i}", V(f"c{i}")] for i in range(ncell)]]])
    lines.append(["set", "tp", ["expr", ["tuple"] + [V(f"c{i}") for i in range(ncell)]]])
    for i in range(ncell):
        lines.append(["fndecl", f"g{i}", [], ["mut", "int"], [["stm", ["return", ["expr", V(f"c{i}")]]]]])
        lines.append(["set", f"cc{i}", ["expr", ["mut", None, V(f"c{i}")]]])
    cells = list(init)
    observed = []     # expected observations (python ints)
    obs_exprs = []
    fail = None
    for k in range(nops):
        ci = rnd.randrange(ncell)
        target = rnd.choice(paths(ci))
        op = rnd.choice(list(OPS) + ["="] * 2)
        v = rnd.choice([0, 1, 2, 3, -1, 5, 63, 64, -7, 10])
        if op == "=":
            new = ("ok", v)
        else:
            sp = spec_int(OPS[op], cells[ci], v)
            new = ("ok", int(sp[1][3:-1])) if sp[0] == "ok" else ("err", sp[1])
        name = f"r{k}"
        lines.append(["set", name, ["expr", ["bin", op, target, I(v)]]])
        if new[0] == "err":
            fail = new[1]
            break
        cells[ci] = new[1]
        observed.append(new[1])           # the operation yields the stored value
        obs_exprs.append(V(name))
        # read every cell through a random alias
        for j in range(ncell):
            rp = rnd.choice(paths(j))
            observed.append(cells[j])
            obs_exprs.append(["pre", "deref", rp])
            name2 = f"o{k}_{j}"
            lines.append(["set", name2, ["expr", obs_exprs[-1]]])
            obs_exprs[-1] = V(name2)
    return lines, obs_exprs, observed, fail, cells


def run(rep, tier):
    rnd = common.rng("L10")
    n = 2000 if tier == "thorough" else 400
    progs, expect = [], []
    for k in range(n):
        lines, obs_exprs, observed, fail, cells = gen(rnd, rnd.randrange(1, 7))
        final = ["stm", ["expr", ["tuple"] + obs_exprs + [I(0), I(0)]]]
        progs.append(lines + [final])
        if fail:
            expect.append("err " + fail)
        else:
            expect.append("ok (tup" + "".join(f" (i {x})" for x in observed) + " (i 0) (i 0))")
    mo, io = l7_programs.run_programs(rep, progs, "L10")
    for k, p in enumerate(progs):
        got = l7_programs.norm_impl(io[k]).split(" :: ")[0]
        if got.startswith("reject "):
            got = "err " + got[7:]     # constant operands: the failing update is reported at parse time
        rep.count("L10." + ("fail" if expect[k].startswith("err") else "ok"))
        if got != expect[k]:
            rep.violations.append({"property": "C13", "lane": "L10",
                                   "what": f"cells behave differently from one shared store: implementation {got[:200]} / expected {expect[k][:200]}",
                                   "program": sast.program(p),
                                   "case": '(run-ty "' + l7_programs.esc(sast.program(p)) + '")'})
    # failing updates leave the cell unchanged (observed through the REPL route: the interpreter survives the error)
    cases, exp = [], []
    for k in range(n // 2):
        a = rnd.randrange(-9, 30)
        op, v = rnd.choice([("/=", 0), ("%=", 0), ("**=", -1), ("<<=", 64), (">>=", -1), ("<<=", 99)])
        path = rnd.choice(["c", "arr[0]", "st.f", "g()", "*cc"])
        cases.append('(repl (c) "c := mut %s" "arr := [c]; st := struct{f := c}; g := () -> mut int { return c; }; cc := mut c" "h := (z: int) -> int { return z; }; %s %s h(%d)" "*c")'
                     % (f"({a})" if a < 0 else str(a), path, op, v))
        exp.append(a)
    out = common.run_cases(common.HARNESS, cases)
    rep.evaluations += len(cases)
    rep.distinct.update(cases)
    for c, o, a in zip(cases, out, exp):
        rep.compared += 1
        rep.count("L10.failing-update")
        steps = o.split("] [")
        ok = len(steps) == 4 and steps[2].startswith("err ") and steps[3].startswith(f"ok (i {a}) ")
        if not ok:
            rep.violations.append({"property": "C13", "lane": "L10",
                                   "what": f"a failing compound assignment must raise its error and leave the cell at {a}: {o[:300]}",
                                   "case": c})
    # union-typed cells keep their declared type; mut is invariant
    typed = [
        ('c := mut int|string 1; c = "s"; c = 2; d := c; d = "t"; *c', 'ok (s "t")'),
        ('c := mut int|string 1; c = 2.5; *c', "reject"),
        ('c := mut int 1; f := (m: mut int|string) -> () { m = "s"; }; f(c); *c', "reject"),
        ('c := mut [int] []; c += [1]; c += [2, 3]; *c', "ok (arr (i 1) (i 2) (i 3))"),
        ('c := mut [int] []; c += ["a"]; *c', "reject"),
        ('c := mut int|float 1; c += 1; *c', "reject"),
        ('c := mut any 1; c = "x"; c = [c]; 1', "ok (i 1)"),
        ('a := mut 1; b := mut 1; (a == b, a == a, [a] == [a], *a == *b)', "ok (tup (b false) (b true) (b true) (b true))"),
        ('mk := () -> mut int { return mut 0; }; x := mk(); y := mk(); x += 1; (*x, *y)', "ok (tup (i 1) (i 0))"),
    ]
    tc = ['(run "' + l7_programs.esc(p) + '")' for p, _ in typed]
    to = common.run_cases(common.HARNESS, tc)
    rep.evaluations += len(tc)
    rep.distinct.update(tc)
    for c, o, (p, e) in zip(tc, to, typed):
        rep.compared += 1
        got = "reject" if o.startswith("reject") else o
        if got != e:
            rep.violations.append({"property": "C13", "lane": "L10", "what": f"typed cell program gives {o[:200]}, expected {e}", "case": c})
    rep.sample({"lane": "L10", "program": sast.program(progs[0])[:800], "expected": expect[0][:200]})

"""Lane L3 — indexing, slicing, len over arrays and strings: model vs implementation in
folded (literal) and run-time form; Python's own slicing/indexing is the property oracle
(C09); the static type reported for the literal form is checked against the value (C01)."""
import itertools
from . import common
from .l2_scalars import lit_int, MIN, MAX, norm

ARR_ELEMS = [("(i 1)", "1"), ('(s "a")', '"a"'), ("(f 4612811918334230528)", "2.5"), ("(b true)", "true"),
             ("(arr (i 7))", "[7]"), ("(tup (i 1) (i 2))", "(1, 2)")]
STR_CHARS = ["a", "é", "€", "\U0001F600", "z", "́"]


def sx_str(s):
    out = '"'
    for ch in s:
        c = ord(ch)
        if c == 34:
            out += '\\"'
        elif c == 92:
            out += "\\\\"
        elif 32 <= c < 127:
            out += ch
        else:
            out += "\\u{%x}" % c
    return out + '"'


def esc_prog(p):
    return p.replace("\\", "\\\\").replace('"', '\\"')


def sequences():
    seqs = []
    for n in range(0, 7):
        elems = ARR_ELEMS[:n]
        sx = "(arr" + "".join(" " + e[0] for e in elems) + ")"
        lit = "[" + ", ".join(e[1] for e in elems) + "]"
        py = [e[0] for e in elems]
        seqs.append(("arr", sx, lit, py))
    for n in range(0, 7):
        s = "".join(STR_CHARS[:n])
        seqs.append(("str", "(s " + sx_str(s) + ")", '"' + s + '"', list(s)))
    seqs.append(("arr", "(arr (i 5) (i 6) (i 7) (i 8) (i 9))", "[5, 6, 7, 8, 9]", ["(i 5)", "(i 6)", "(i 7)", "(i 8)", "(i 9)"]))
    seqs.append(("str", '(s "hello")', '"hello"', list("hello")))
    return seqs


def show_sel(kind, items):
    if kind == "arr":
        return "ok (arr" + "".join(" " + x for x in items) + ")"
    return "ok (s " + sx_str("".join(items)) + ")"


def run(rep, tier):
    seqs = sequences()
    ext = [MIN, MIN + 1, MAX, MAX - 1, -2**32, 2**32, -2**31 - 1]
    idxs = list(range(-9, 10)) + ext
    rng_small = range(-8, 9) if tier == "thorough" else range(-5, 6)
    bounds = [None] + list(rng_small) + ([MIN, MIN + 1, MAX, 2**40, -2**40] if tier == "thorough" else [MIN, MAX, MIN + 1])
    model_cases, impl_cases, expect, meta = [], [], [], []

    def add(mc, ic, exp, info):
        model_cases.append(mc)
        impl_cases.append(ic)
        expect.append(exp)
        meta.append(info)

    for kind, sx, lit, py in seqs:
        n = len(py)
        pty = "[any]" if kind == "arr" else "string"
        # len
        add(f"(len {sx})", f'(call "(s: {pty}) -> any {{ return std.len(s); }}" {sx})', f"ok (i {n})", ("len", kind))
        add(f"(len {sx})", f'(run "{esc_prog("std.len(" + lit + ")")}")', f"ok (i {n})", ("len-lit", kind))
        # indexing
        for i in idxs:
            if -n <= i < n:
                e = py[i]
                exp = f"ok {e}" if kind == "arr" else "ok (s " + sx_str(e) + ")"
            else:
                exp = "err IndexOutOfBounds"
            add(f"(at {sx} (i {i}))",
                f'(call "(s: {pty}, i: int) -> any {{ return s[i]; }}" {sx} (i {i}))', exp, ("at", kind))
            add(f"(at {sx} (i {i}))", f'(run "{esc_prog(lit + "[" + lit_int(i) + "]")}")', exp, ("at-lit", kind))
            # through a variable holding the sequence (the folding path for Array instructions)
            add(f"(at {sx} (i {i}))",
                f'(call "(i: int) -> any {{ return {esc_prog(lit)}[i]; }}" (i {i}))', exp, ("at-mixed", kind))
            # a non-constant array literal indexed by a literal: the folding pass checks the index
            # against the number of element expressions
            if kind == "arr" and n > 0:
                lit2 = "[p, " + lit[1:].split(", ", 1)[1] if n > 1 else "[p]"
                add(f"(at {sx} (i {i}))",
                    f'(call "(p: any) -> any {{ return {esc_prog(lit2)}[{lit_int(i)}]; }}" {py[0]})', exp, ("at-nonconst-literal", kind))
        # slicing
        for a, b, c in itertools.product(bounds, repeat=3):
            if c == 0:
                sel = []
            else:
                sel = py[slice(a, b, c)]
            exp = show_sel(kind, sel)
            ms = " ".join("none" if x is None else f"(i {x})" for x in (a, b, c))
            params = "".join(f", {nm}: int" for nm, x in zip("abc", (a, b, c)) if x is not None)
            text = ("a" if a is not None else "") + ":" + ("b" if b is not None else "") + \
                   (":" + ("c" if c is not None else "") if c is not None else "")
            args = "".join(f" (i {x})" for x in (a, b, c) if x is not None)
            add(f"(slice {sx} {ms})",
                f'(call "(s: {pty}{params}) -> any {{ return s[{text}]; }}" {sx}{args})', exp, ("slice", kind))
        # a LITERAL (constant) sequence sliced with run-time bounds, and with bounds of which only some
        # are literals: the folding pass sees a constant sequence but may not drop or fix a bound
        sub2 = [None, -7, -2, -1, 0, 1, 2, 7, MIN]
        for a, b, c in itertools.product(sub2, repeat=3):
            if a is None and b is None and c is None:
                continue
            sel = [] if c == 0 else py[slice(a, b, c)]
            exp = show_sel(kind, sel)
            ms = " ".join("none" if x is None else f"(i {x})" for x in (a, b, c))
            params = ", ".join(f"{nm}: int" for nm, x in zip("abc", (a, b, c)) if x is not None)
            text = ("a" if a is not None else "") + ":" + ("b" if b is not None else "") + \
                   (":" + ("c" if c is not None else "") if c is not None else "")
            args = "".join(f" (i {x})" for x in (a, b, c) if x is not None)
            add(f"(slice {sx} {ms})",
                f'(call "({params}) -> any {{ return {esc_prog(lit)}[{text}]; }}"{args})', exp, ("slice-litseq-rtbounds", kind))
            # the sequence bound to a constant variable; the first present bound stays a parameter, the others are literals
            first = next(nm for nm, x in zip("abc", (a, b, c)) if x is not None)
            fx = {"a": a, "b": b, "c": c}[first]
            mixed = ((first if first == "a" else lit_int(a)) if a is not None else "") + ":" + \
                    ((first if first == "b" else lit_int(b)) if b is not None else "") + \
                    (":" + ((first if first == "c" else lit_int(c)) if c is not None else "") if c is not None else "")
            add(f"(slice {sx} {ms})",
                f'(call "({first}: int) -> any {{ q := {esc_prog(lit)}; return q[{mixed}]; }}" (i {fx}))', exp, ("slice-constvar-mixed", kind))
        # literal (folded) slices on a sub-grid, with the static type
        sub = [None, -7, -2, -1, 0, 1, 2, 7, MIN, MAX]
        for a, b, c in itertools.product(sub, repeat=3):
            sel = [] if c == 0 else py[slice(a, b, c)]
            exp = show_sel(kind, sel)
            ms = " ".join("none" if x is None else f"(i {x})" for x in (a, b, c))
            text = (lit_int(a) if a is not None else "") + ":" + (lit_int(b) if b is not None else "") + \
                   (":" + (lit_int(c) if c is not None else "") if c is not None else "")
            add(f"(slice {sx} {ms})", f'(run-ty "{esc_prog(lit + "[" + text + "]")}")', exp, ("slice-lit", kind))

    # ill-typed bounds / indices: every position must be checked by the checker, never at run time
    bad_progs = []
    for badv in ['"a"', "1.5", "true", "[1]", "()"]:
        for text in (f"{badv}:1:1", f"0:{badv}:1", f"0:1:{badv}", f"0:{badv}", f"{badv}:", f":{badv}",
                     f"::{badv}", f"{badv}::1", f":{badv}:1", f"{badv}:1", badv):
            for seq in ('[1,2,3]', '"abc"'):
                bad_progs.append(f'(run "{esc_prog(seq + "[" + text + "]")}")')
    bo = common.run_cases(common.HARNESS, bad_progs)
    rep.evaluations += len(bad_progs)
    rep.distinct.update(bad_progs)
    for c, o in zip(bad_progs, bo):
        rep.count("L3.illtyped-bound")
        if not o.startswith("reject "):
            rep.violations.append({"property": "C02" if o.startswith("!panic") else "C09", "lane": "L3",
                                   "what": f"ill-typed index/bound is not rejected by the checker: {o}", "case": c})

    uniq = sorted(set(model_cases))
    mo = dict(zip(uniq, common.run_cases(common.DRIVER, uniq)))
    io = common.run_cases(common.HARNESS, impl_cases)
    rep.evaluations += len(impl_cases) + len(uniq)
    rep.compared += len(impl_cases)
    rep.distinct.update(impl_cases)
    common.attribute_panics(rep, "L3", impl_cases, io)
    rep.exhaustive = True
    for i in (0, 5, len(impl_cases) // 3, len(impl_cases) // 2, len(impl_cases) - 1):
        rep.sample({"lane": "L3", "impl_case": impl_cases[i], "impl": io[i], "model": mo[model_cases[i]],
                    "python": expect[i]})
    type_checks = []
    for k, info in enumerate(meta):
        rep.count("L3." + info[0] + "." + info[1])
        got = io[k]
        static = None
        if info[0] == "slice-lit" and " :: " in got:
            got_t, static = got.split(" :: ", 1)
            # typed value text -> untyped for comparison is done by asking the model below
            type_checks.append((k, got_t, static))
            continue
        got = norm(got)
        if got != expect[k]:
            rep.violations.append({"property": "C09", "lane": "L3",
                                   "what": f"{info[0]} on {info[1]}: implementation gives {got}, Python/len/index semantics give {expect[k]}",
                                   "case": impl_cases[k]})
        if got != mo[model_cases[k]]:
            rep.disagreements.append({"lane": "L3", "case": impl_cases[k], "model": mo[model_cases[k]],
                                      "impl": got, "model_case": model_cases[k]})
    # literal slices: value (with hidden types) must inhabit the static type; content must equal Python's
    if type_checks:
        qs = []
        for k, got_t, static in type_checks:
            if got_t.startswith("ok "):
                qs.append(f"(has-type {got_t[3:]} {static})")
                qs.append(f"(untyped {got_t[3:]})")
            else:
                qs.append("(ty-id int)")
                qs.append("(ty-id int)")
        ans = common.run_cases(common.DRIVER, qs)
        rep.evaluations += len(qs)
        for j, (k, got_t, static) in enumerate(type_checks):
            if not got_t.startswith("ok "):
                g = norm(got_t)
                if g != expect[k]:
                    rep.violations.append({"property": "C09", "lane": "L3",
                                           "what": f"literal slice: implementation gives {g}, Python gives {expect[k]}",
                                           "case": impl_cases[k]})
                continue
            ht, plain = ans[2 * j], ans[2 * j + 1]
            if "ok " + plain != expect[k]:
                rep.violations.append({"property": "C09", "lane": "L3",
                                       "what": f"literal slice: implementation gives {plain}, Python gives {expect[k]}",
                                       "case": impl_cases[k]})
            if ht != "true":
                rep.violations.append({"property": "C01", "lane": "L3",
                                       "what": f"value {got_t[3:]} does not inhabit the static type {static} reported for the program",
                                       "case": impl_cases[k]})
            if "ok " + plain != mo[model_cases[k]]:
                rep.disagreements.append({"lane": "L3", "case": impl_cases[k], "model": mo[model_cases[k]],
                                          "impl": "ok " + plain})

"""Lane L1 — the type algebra: model (extracted Coq) vs implementation on a type
universe; the C10/C05 laws evaluated on the implementation's own answers."""
import itertools
from . import common, typegen

QUERIES = ["index_result", "element_type", "return_type", "mut_element_type", "params",
           "flatten_tuple", "is_function", "is_tuple", "is_mut", "is_iterator", "is_struct",
           "can_be_indexed", "tuple_len", "min_tuple_len", "iter_element"]
ARG_QUERIES = [("tuple_element_at", ["0", "1", "2"]), ("field_type", ["a", "b"]),
               ("has_field", ["a", "c"])]

LAW_NAMES = ["refl", "bot", "top", "trans", "ub_l", "ub_r", "lub", "meet_l", "meet_r",
             "cov_arr", "cov_tup", "cov_field", "width", "contra_param", "cov_result",
             "mut_inv", "eq_sym", "eq_matches", "concat_comm", "concat_idem"]


def sizes(tier):
    if tier == "thorough":
        return dict(d1=260, d2=260, triples=60000, repeats=3)
    return dict(d1=90, d2=60, triples=6000, repeats=2)


def run(rep, tier, props=("C10",)):
    rnd = common.rng("L1")
    sz = sizes(tier)
    U = typegen.universe(rnd, sz["d1"], sz["d2"])
    # shapes where a relation may be tempted to distribute a constructor over a union (a tuple / struct /
    # function / array / cell with a union component next to the union of the componentwise variants),
    # structs sharing only some field names, functions differing only in a void result
    U += ["(tup (multi int float) float)", "(multi (tup int int) (tup float float))", "(tup (multi int float) (multi int float))",
          "(multi (tup int float) (tup float int))", "(tup int float)", "(tup float float)", "(tup int int)",
          "(arr (multi int float))", "(multi (arr int) (arr float))", "(mut (multi int float))", "(multi (mut int) (mut float))",
          "(fun ((multi int float)) int)", "(multi (fun (int) int) (fun (float) int))", "(fun (int) (multi int float))",
          "(multi (fun (int) int) (fun (int) float))", "(fun () void)", "(fun () int)", "(fun () any)", "(fun (int) void)",
          "(struct (a int) (c int))", "(struct (a int) (b int))", "(struct (a int) (x int))", "(struct (y int) (z int))",
          "(struct (a string))", "(struct (a (multi int float)))", "(multi (struct (a int)) (struct (a float)))",
          "(struct (a int) (b int) (c int))"]
    U = list(dict.fromkeys(U))
    n = len(U)
    rep.count("L1.universe", n)
    for t in U[:3] + U[-3:]:
        rep.sample({"lane": "L1", "type": t})

    # --- well-formedness of every generated type, and identity through both parsers
    cases = [f"(ty-id {t})" for t in U]
    pair_ops = ["ty-eq", "ty-matches", "ty-concat", "ty-conjoin"]
    pairs = list(itertools.product(range(n), repeat=2))
    for op in pair_ops:
        cases += [f"({op} {U[i]} {U[j]})" for i, j in pairs]
    for q in QUERIES:
        cases += [f"(ty-q {q} {t})" for t in U]
    for q, args in ARG_QUERIES:
        for a in args:
            cases += [f"(ty-q {q} {t} {a})" for t in U]
    # sampled deeper triples for the law oracle
    triples = []
    for _ in range(sz["triples"]):
        d = 2 if rnd.random() < 0.7 else 3
        triples.append((typegen.random_type(rnd, d), typegen.random_type(rnd, d),
                        typegen.random_type(rnd, d)))
    # plus triples from the universe
    for _ in range(sz["triples"]):
        triples.append((rnd.choice(U), rnd.choice(U), rnd.choice(U)))
    law_cases = [f"(ty-laws {a} {b} {c})" for a, b, c in triples]
    cases += law_cases

    model, impl = [], []
    for r in range(sz["repeats"]):
        # repeats rebuild every type (fresh HashSet/HashMap keys on the impl side)
        m, i = common.run_both(cases)
        if r == 0:
            model, impl = m, i
        else:
            for k, (x, y) in enumerate(zip(impl, i)):
                if x != y:
                    rep.violations.append({
                        "property": "C05", "lane": "L1",
                        "what": "same type computation gave two different answers in two runs",
                        "case": cases[k], "first": x, "second": y})
    rep.evaluations += len(cases) * sz["repeats"]
    rep.compared += len(cases)
    for k, c in enumerate(cases):
        if model[k] != impl[k]:
            rep.disagreements.append({"lane": "L1", "case": c, "model": model[k], "impl": impl[k]})
        if impl[k].startswith("!") or model[k].startswith("!"):
            rep.count("L1.bang")
    rep.distinct.update(cases)

    # --- laws on the implementation's answers (the property oracle)
    base = len(cases) - len(law_cases)
    for k, (a, b, c) in enumerate(triples):
        out = impl[base + k]
        if out.startswith("!"):
            rep.violations.append({"property": "C10", "lane": "L1", "what": "law evaluation failed: " + out,
                                   "case": law_cases[k]})
            continue
        bits = out.split()
        for name, bit in zip(LAW_NAMES, bits):
            if bit != "1":
                rep.violations.append({"property": "C10", "lane": "L1",
                                       "what": f"law {name} fails on the implementation",
                                       "case": law_cases[k], "a": a, "b": b, "c": c})
        mbits = model[base + k].split()
        if any(b != "1" for b in mbits):
            rep.violations.append({"property": "C10", "lane": "L1",
                                   "what": "law fails on the MODEL (theorem/model mismatch)",
                                   "case": law_cases[k], "bits": model[base + k]})
    # transitivity over ALL triples of the universe from the implementation's pair table
    off = n  # after ty-id
    mt_off = off + len(pairs)  # ty-matches block
    le = [[False] * n for _ in range(n)]
    for idx, (i, j) in enumerate(pairs):
        le[i][j] = impl[mt_off + idx] == "true"
    succ = [[j for j in range(n) if le[i][j]] for i in range(n)]
    checked = 0
    for a in range(n):
        if not le[a][a]:
            rep.violations.append({"property": "C10", "lane": "L1", "what": "matches not reflexive",
                                   "case": f"(ty-matches {U[a]} {U[a]})"})
        sa = set(succ[a])
        for b in succ[a]:
            for c in succ[b]:
                checked += 1
                if c not in sa:
                    rep.violations.append({"property": "C10", "lane": "L1",
                                           "what": "matches not transitive",
                                           "a": U[a], "b": U[b], "c": U[c]})
    rep.count("L1.trans_triples_checked", checked)
    rep.count("L1.matches_true", sum(len(s) for s in succ))
    rep.count("L1.pairs", len(pairs))
    return U

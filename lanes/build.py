"""Regenerate Gen files, build and audit the Coq development, build driver + harness."""
import glob
import os
import re
import time
from . import common
from .common import VERIF, BUILD, REPO, sh, log

COQ = os.path.join(VERIF, "coq")
QFLAGS = ["-Q", "Model", "SSL.Model", "-Q", "Lemmas", "SSL.Lemmas", "-Q", "Gen", "SSL.Gen",
          "-Q", "Props", "SSL.Props", "-Q", "Extract", "SSL.Extract"]

STD_AXIOMS_OK = {
    # axioms declared by the standard library / Flocq's dependencies; allowed when
    # named in the trusted base of the property that uses them
    "ClassicalDedekindReals.sig_not_dec", "ClassicalDedekindReals.sig_forall_dec",
    "FunctionalExtensionality.functional_extensionality_dep", "Classical_Prop.classic",
}


def _translators():
    d = os.path.join(VERIF, "translators")
    return sorted(f for f in glob.glob(os.path.join(d, "*2coq.py")))


def regenerate(rep):
    """Run every translator: /repo sources -> coq/Gen/*.v (rewritten only on change so
    that `make` can tell whether a proof has to be re-checked)."""
    rep.fatal = False
    for tr in _translators():
        rc, out = sh(["python3", tr, REPO, os.path.join(COQ, "Gen")], timeout=120)
        name = os.path.basename(tr)
        if rc != 0:
            rep.proof_errors.append({"kind": "translator", "name": name, "output": out[-3000:]})
            log(f"translator {name} FAILED:\n{out[-2000:]}")
        else:
            rep.count("translators_ok")


def strip_comments(src):
    out = []
    depth = 0
    i = 0
    n = len(src)
    in_str = False
    while i < n:
        if depth == 0 and src[i] == '"':
            in_str = not in_str
            out.append(src[i])
            i += 1
            continue
        if not in_str and src.startswith("(*", i):
            depth += 1
            i += 2
            continue
        if not in_str and depth > 0 and src.startswith("*)", i):
            depth -= 1
            i += 2
            continue
        if depth == 0:
            out.append(src[i])
        i += 1
    return "".join(out)


FORBIDDEN = re.compile(
    r"\bAdmitted\b|\badmit\b|\bAxiom\b|\bAxioms\b|\bParameter\b|\bParameters\b|\bConjecture\b"
    r"|Unset\s+Guard|bypass_check|type-in-type|impredicative-set|Admit\s+Obligations"
    r"|Unset\s+Positivity|Unset\s+Universe")


def hygiene():
    """No Admitted/admit/Axiom/... anywhere; Variable/Hypothesis only inside Sections."""
    bad = []
    for f in sorted(glob.glob(os.path.join(COQ, "**", "*.v"), recursive=True)):
        src = strip_comments(open(f).read())
        for m in FORBIDDEN.finditer(src):
            line = src.count("\n", 0, m.start()) + 1
            bad.append(f"{os.path.relpath(f, VERIF)}:{line}: {m.group(0)}")
        depth = 0
        for ln, line in enumerate(src.split("\n"), 1):
            if re.match(r"\s*Section\s+\w+", line):
                depth += 1
            elif re.match(r"\s*End\s+\w+\s*\.", line) and depth > 0:
                depth -= 1
            elif re.match(r"\s*(Variable|Variables|Hypothesis|Hypotheses|Context)\b", line) and depth == 0:
                # `End` also closes Modules; we only use Sections for variables
                bad.append(f"{os.path.relpath(f, VERIF)}:{ln}: Variable/Hypothesis outside a Section")
    for f in ["_CoqProject"]:
        txt = open(os.path.join(COQ, f)).read()
        if re.search(r"type-in-type|impredicative-set|-vos|-vok|bypass", txt):
            bad.append(f"coq/{f}: forbidden flag")
    return bad


def ensure_makefile():
    mk = os.path.join(COQ, "Makefile")
    proj = os.path.join(COQ, "_CoqProject")
    if not os.path.exists(mk) or os.path.getmtime(mk) < os.path.getmtime(proj):
        sh(["coq_makefile", "-f", "_CoqProject", "-o", "Makefile"], cwd=COQ, check=True)


def theorem_names(path):
    src = strip_comments(open(path).read())
    return re.findall(r"^\s*Theorem\s+([A-Za-z0-9_']+)", src, re.M)


def coq(rep, cfg):
    """Full .vo build of the property's closure; Print Assumptions per theorem."""
    t0 = time.time()
    bad = hygiene()
    for b in bad:
        rep.proof_errors.append({"kind": "hygiene", "where": b})
    ensure_makefile()
    targets = cfg["coq_targets"]
    rc, out = sh(["timeout", "3000", "make", "-j16"] + targets, cwd=COQ, timeout=3100)
    rep.checker_cmd = "cd coq && make -j16 " + " ".join(targets) + "  (coq_makefile, full .vo) + coqc Print Assumptions per theorem"
    thms = []
    for t in targets:
        if t.startswith("Props/"):
            thms += [(t[:-3].replace("/", "."), n) for n in theorem_names(os.path.join(COQ, t[:-1]))]
    rep.obligations = len(thms)
    rep.theorems = [n for _, n in thms]
    if rc != 0:
        rep.proof_errors.append({"kind": "coq-build", "targets": targets, "output": out[-4000:]})
        log("Coq build FAILED:\n" + out[-3000:])
        rep.discharged = 0
        return
    # Print Assumptions, always re-run (cheap), so that cached builds are audited too
    adir = os.path.join(BUILD, "assum")
    os.makedirs(adir, exist_ok=True)
    vf = os.path.join(adir, f"{rep.prop}_assum.v")
    mods = sorted({m for m, _ in thms})
    with open(vf, "w") as f:
        for m in mods:
            f.write(f"From SSL.Props Require Import {m.split('.')[-1]}.\n")
        for _, n in thms:
            f.write(f'Goal True. idtac "@@ {n}". exact I. Qed.\nPrint Assumptions {n}.\n')
    rc, out = sh(["timeout", "600", "coqc"] + QFLAGS + [vf], cwd=COQ, timeout=700)
    if rc != 0:
        rep.proof_errors.append({"kind": "assumptions", "output": out[-3000:]})
        rep.discharged = 0
        return
    cur = None
    ax = {}
    for line in out.split("\n"):
        if line.startswith("@@ "):
            cur = line[3:].strip()
            ax[cur] = []
        elif cur and re.match(r"^[A-Za-z_][\w.']*\s*:", line) and not line.startswith("Axioms"):
            ax[cur].append(line.split(":")[0].strip())
    allowed = set(cfg.get("axioms_allowed", []))
    ok = 0
    for _, n in thms:
        extra = [a for a in ax.get(n, []) if a not in allowed]
        if n not in ax:
            rep.proof_errors.append({"kind": "assumptions", "theorem": n, "output": "not reported"})
        elif extra:
            rep.proof_errors.append({"kind": "axiom-not-allowed", "theorem": n, "axioms": extra})
        else:
            ok += 1
    rep.assumptions = ax
    rep.discharged = ok
    log(f"[{rep.prop}] coq: {ok}/{len(thms)} theorems re-checked, axioms ok ({time.time()-t0:.1f}s)")
    if rep.tier == "thorough":
        coqchk(rep, cfg, sorted({m for m, _ in thms}))


def coqchk(rep, cfg, mods):
    """thorough tier: the compiled property files and everything they depend on are re-checked by the
    independent checker; its context summary must report no type-in-type, no unsafe fixpoint, no assumed
    positivity, and no axiom outside the allow-list"""
    t0 = time.time()
    rc, out = sh(["timeout", "3000", "coqchk", "-silent", "-o"] + QFLAGS + ["SSL." + m for m in mods], cwd=COQ, timeout=3100)
    if rc != 0 or "CONTEXT SUMMARY" not in out:
        rep.proof_errors.append({"kind": "coqchk", "output": out[-3000:]})
        return
    summary = out[out.index("CONTEXT SUMMARY"):]
    sections = re.split(r"\n\* ", summary)
    # coqchk lists the axioms of EVERY library in the cone of the checked files, whether or not a
    # theorem uses them (Print Assumptions above is the per-theorem audit): the four axioms that the
    # standard library declares and Flocq's definitions reach are admitted here for every property
    allowed = {"sig_not_dec", "sig_forall_dec", "functional_extensionality_dep", "classic"}
    for sec in sections[1:]:
        head, _, body = sec.partition(":")
        items = [x.strip() for x in body.strip().split("\n") if x.strip() and x.strip() != "<none>"]
        if head.startswith("Axioms"):
            extra = [x for x in items if x.split(":")[0].strip().split(".")[-1] not in allowed]
            if extra:
                rep.proof_errors.append({"kind": "coqchk-axioms", "axioms": extra})
        elif head.startswith(("Constants/Inductives relying on", "Inductives whose positivity")):
            if items:
                rep.proof_errors.append({"kind": "coqchk-unsafe", "what": head, "items": items[:10]})
    rep.checker_cmd += " + coqchk -silent -o (thorough tier)"
    log(f"[{rep.prop}] coqchk: context summary clean ({time.time()-t0:.1f}s)")


def binaries(rep):
    t0 = time.time()
    rc, out = sh([os.path.join(VERIF, "ocaml", "build.sh")], timeout=900)
    if rc != 0:
        rep.proof_errors.append({"kind": "driver-build", "output": out[-3000:]})
        rep.fatal = True
        log("driver build FAILED:\n" + out[-2000:])
    rc, out = sh(["cargo", "build", "--offline", "--features", "verif"],
                 cwd=common.HARNESS_DIR, timeout=1800)
    if rc != 0:
        rep.proof_errors.append({"kind": "harness-build", "output": out[-3000:]})
        rep.fatal = True
        log("harness build FAILED:\n" + out[-3000:])
    log(f"[{rep.prop}] driver+harness built ({time.time()-t0:.1f}s)")

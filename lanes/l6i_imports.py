"""Lane L6i — `import` of files in every state (C03: "imports of unreadable files").

The model has no file system (Front rejects every `import`), so this lane is implementation-only
with the property itself as oracle: Code::parse on a program that imports a missing file, a
directory, a file that is not UTF-8, a binary file, an empty file, a file with a syntax error, a
file with a type error or a file whose constant folding fails returns an error value, a readable
well-formed file is accepted, and nothing panics -- at top level, inside a function body, inside a
block, inside a module, bound to a name and as a bare statement."""
import os
import shutil

from . import common
from .l6_peg import sx_str

LANE = "L6i"


def run(rep, tier):
    d = os.path.join(common.BUILD, "imports")
    shutil.rmtree(d, ignore_errors=True)
    os.makedirs(os.path.join(d, "adir"))
    files = {
        "valid.ssl": (b"a := 5\nf := (x: int) -> int { return x + a }\n", "ok"),
        "empty.ssl": (b"", "ok"),
        "comment.ssl": (b"// only a comment\n", "ok"),
        "latin1.ssl": (b"// caf\xe9\na := 5\n", "reject"),
        "binary.ssl": (bytes(range(256)) * 4, "reject"),
        "lone_continuation.ssl": (b"a := \"\x80\"\n", "reject"),
        "truncated_utf8.ssl": (b"a := \"\xe2\x82\"\n", "reject"),
        "utf16.ssl": ("a := 5\n".encode("utf-16"), "reject"),
        "bom.ssl": (b"\xef\xbb\xbfa := 5\n", None),           # either way, but no panic
        "nul.ssl": (b"a := 5\x00\n", None),
        "syntax_error.ssl": (b"a := := 5\n", "reject"),
        "type_error.ssl": (b"a := 5 + \"x\"\n", "reject"),
        "fold_error.ssl": (b"a := 5 / 0\n", "reject"),
        "undefined.ssl": (b"a := b\n", "reject"),
        "imports_missing.ssl": (b"m := import \"/nonexistent/zzz.ssl\"\n", "reject"),
        "crlf.ssl": (b"a := 5\r\nb := 6\r\n", None),
    }
    for name, (content, _) in files.items():
        with open(os.path.join(d, name), "wb") as f:
            f.write(content)
    targets = [(os.path.join(d, n), exp) for n, (_, exp) in files.items()]
    targets += [(os.path.join(d, "adir"), "reject"), (os.path.join(d, "missing.ssl"), "reject"),
                (d + "/valid.ssl/x", "reject"), ("", "reject"), (os.path.join(d, "a" * 300), "reject")]
    shapes = ['import "{p}"', 'm := import "{p}"; 1', 'f := () {{ m := import "{p}" }}; f()',
              '{{ import "{p}" }}', 'm := mod {{ import "{p}" }}; 1', 'if true {{ import "{p}" }}',
              'x := 1; import "{p}"; x', 'import "{p}"; import "{p}"']
    cases, meta = [], []
    for path, exp in targets:
        for sh in shapes:
            text = sh.format(p=path)
            cases.append("(run-ty " + sx_str(text) + ")")
            meta.append((path, exp, text))
    outs = common.run_cases(common.HARNESS, cases, timeout=120)
    rep.evaluations += len(cases)
    rep.distinct.update(cases)
    common.attribute_panics(rep, LANE, cases, outs)
    for c, o, (path, exp, text) in zip(cases, outs, meta):
        rep.compared += 1
        cls = "panic" if o.startswith("!panic") else "reject" if o.startswith("reject") else \
              "ok" if o.startswith(("ok", "err")) else "other"
        rep.count(f"{LANE}.{cls}")
        if cls == "other":
            rep.violations.append({"property": "C03", "lane": LANE, "case": c,
                                   "what": f"importing {os.path.basename(path)!r}: the worker did not return ({o[:80]})"})
        elif exp is not None and cls != "panic" and cls != exp:
            rep.violations.append({"property": "C03", "lane": LANE, "case": c,
                                   "what": f"importing {os.path.basename(path)!r} ({text[:60]}): expected {exp}, implementation: {o[:120]}"})
    rep.sample({"lane": LANE, "case": cases[0], "impl": outs[0]})
    shutil.rmtree(d, ignore_errors=True)

"""Lane L14 — operator precedence and associativity (C14), tied to the real parser.

For an expression written WITHOUT parentheses the lane computes the grouping the DOCUMENTED table
prescribes (docs/operators.md as parsed by translators/docprec2coq.py, completed with `$]`,
slicing, tuple and field access as the property text places them; blank associativity cells filled
from above), renders that grouping fully parenthesised (lanes/sast.py) and checks on the
implementation that both texts give the same result:

    run-ty "r := a o1 b o2 c; (r, *x, *y, *z, *w)"   ==   run-ty "r := (a o1 b) o2 c; ..."      (say)

The check only means something when a different grouping would have been noticed, so operands are
searched (small ints, bools, strings, `mut int` cells, arrays, iterators, functions ...) until the
documented grouping and the other grouping(s) give DIFFERENT results on the implementation
(rejection by the checker counts as a result).  Shapes for which no operands distinguish the
groupings (e.g. `a & b & c`, or operator pairs without a common typing) are counted as skipped.

  pairs      every ordered pair of binary operators              a o1 b o2 c
  pre-bin    every prefix operator before every binary operator   ~a o b
  pre-post   every prefix operator with every postfix form        ~a!
  bin-post   every binary operator before every postfix form      a o b!
  triples    sampled triples of binary operators (5 groupings)    a o1 b o2 c o3 d
  random     random operator sequences (up to 6 binary operators, prefix and postfix forms mixed in)
             over int / bool / assignment / iterator algebras; ALL other groupings are evaluated

The documented grouping is computed by an operator-precedence (shunting-yard) reduction that uses
nothing but the pairwise relation "which of two adjacent operators groups first" of the docs.
Three more comparisons per shape:
  * the tree the Pratt MODEL (coq/Model/Pratt.v with the table regenerated from parser/src/lib.rs;
    driver command `(pratt ..)`, ocaml/lane_pratt.ml) builds from the token sequence must be the
    documented tree (mismatch: rep.disagreements, lane L14-tree),
  * the value the program MODEL gives to the documented grouping (`(prog-ty AST)`) must be the
    implementation's (mismatch: rep.disagreements, lane L14),
  * unparenthesised != documented grouping on the implementation: a C14 violation.
"""
import itertools
import os
import sys

from . import common, sast, l7_programs
from .sast import I, B, S, V

sys.path.insert(0, os.path.join(common.VERIF, "translators"))
import opmap2coq      # noqa: E402
import docprec2coq    # noqa: E402

# the four operators the markdown table omits, at the levels the property text gives them
DOC_EXTRA = {"collect": 3, "slicing": 1, "tuple_access": 1, "field_access": 1}


# ------------------------------------------------------------------------------------------
# the documented table
class Doc:
    def __init__(self, repo):
        self.ops = opmap2coq.load(repo)
        levels, self.irregular = docprec2coq.parse_doc(repo, self.ops)
        self.level = {}
        prev = None
        self.assoc_of_level = {}
        for lv in levels:
            a = lv["assoc"] if lv["assoc"] is not None else prev
            if a is None:
                raise RuntimeError("first documented level has no associativity")
            prev = a
            self.assoc_of_level[lv["level"]] = a
            for _sp, _d, rule in lv["rows"]:
                self.level[rule] = lv["level"]
        for rule, n in DOC_EXTRA.items():
            if rule in self.level:
                raise RuntimeError(f"{rule} is documented now: drop it from DOC_EXTRA")
            self.level[rule] = n

    def left_first(self, r1, r2):
        """r1 stands left of an operand (prefix/binary), r2 right of it (binary/postfix)"""
        l1, l2 = self.level[r1], self.level[r2]
        if l1 != l2:
            return l1 < l2
        return self.assoc_of_level[l1] == "LeftToRight"


# ------------------------------------------------------------------------------------------
# tokens
class Tok:
    __slots__ = ("kind", "rule", "text", "ast", "mk")

    def __init__(self, kind, rule, text, ast=None, mk=None):
        self.kind, self.rule, self.text, self.ast, self.mk = kind, rule, text, ast, mk


PRE_NAME = {"not": "not", "unary_minus": "neg", "indirection": "deref"}
POSTFIX_FORM = {
    "at": ("[1]", lambda e: ["at", e, I(1)]),
    "slicing": ("[0:2]", lambda e: ["slice", e, I(0), I(2), None]),
    "function_call": ("(3)", lambda e: ["call", e, I(3)]),
    "tuple_access": (".1", lambda e: ["tacc", e, 1]),
    "field_access": (".a", lambda e: ["facc", e, "a"]),
    "type_filter": ("? int", lambda e: ["tfilter", e, "int"]),
}


def op_tok(doc, rule):
    o = doc.ops
    lit = o.shape[rule][0]
    if rule in o.bin_alts:
        if rule == "reduce":
            return Tok("in", rule, "$ 0", mk=lambda l, r: ["reduce", l, I(0), r])
        return Tok("in", rule, lit, mk=lambda l, r, s=lit: ["bin", s, l, r])
    if rule in o.prefix_alts:
        return Tok("pre", rule, lit, mk=lambda e, n=PRE_NAME[rule]: ["pre", n, e])
    if rule in POSTFIX_FORM:
        text, mk = POSTFIX_FORM[rule]
        return Tok("post", rule, text, mk=mk)
    return Tok("post", rule, lit, mk=lambda e, s=lit: ["post", e, s])


CELLS = ["x", "y", "z", "w", "x", "y", "z"]
STRS = ["ab", "cd", "ef", "gh", "ij", "kl", "mn"]
INT_VALS = [(7, 3, 2, 5, 1, 4, 6), (5, 6, 1, 3, 5, 2, 1), (2, 5, 3, 1, 2, 7, 3), (6, 7, 2, 2, 3, 1, 1),
            (1, 0, 1, 0, 1, 2, 0), (4, 1, 2, 7, 2, 2, 9), (8, 2, 2, 2, 8, 3, 2), (6, 4, 9, 2, 8, 3, 2)]
# every combination of the first three positions occurs
BOOL_VALS = [(True, False, True, True, True, False, True), (False, True, True, False, False, True, False),
             (False, False, True, True, False, True, True), (True, True, False, False, True, False, False),
             (True, False, False, False, True, False, True), (False, True, False, True, False, True, False),
             (True, True, True, False, False, False, True), (False, False, False, True, True, True, False)]
FIXED = {"XS": "xs", "BS": "bs", "IT": "it", "BIT": "bit", "F": "f", "P": "p", "G": "g", "T": "t",
         "ST": "s", "CS": "cs", "CA": "ca", "CB": "cb", "TB": "tb", "SB": "sb", "TC": "tc", "SC": "sc",
         "FC": "fc", "FS": "fs", "PS": "ps", "GS": "gs", "TF": "tf", "SF": "sf"}
VALUED = {"I", "B"}


def atom_tok(kind, pos, v):
    if kind == "I":
        n = INT_VALS[v % len(INT_VALS)][pos]
        return Tok("atom", None, str(n), ast=I(n))
    if kind == "B":
        b = BOOL_VALS[v % len(BOOL_VALS)][pos]
        return Tok("atom", None, "true" if b else "false", ast=B(b))
    if kind == "C":
        return Tok("atom", None, CELLS[pos], ast=V(CELLS[pos]))
    if kind == "S":
        return Tok("atom", None, '"%s"' % STRS[pos], ast=S(STRS[pos]))
    return Tok("atom", None, FIXED[kind], ast=V(FIXED[kind]))


def fn(name, params, ret, body):
    return ["fndecl", name, params, ret, [["stm", ["return", ["expr", body]]]]]


PRELUDE = [
    ["set", "x", ["expr", ["mut", None, I(7)]]],
    ["set", "y", ["expr", ["mut", None, I(3)]]],
    ["set", "z", ["expr", ["mut", None, I(2)]]],
    ["set", "w", ["expr", ["mut", None, I(5)]]],
    ["set", "xs", ["expr", ["array", I(5), I(6), I(7)]]],
    ["set", "bs", ["expr", ["array", B(True), B(False)]]],
    ["set", "t", ["expr", ["tuple", I(4), I(9)]]],
    ["set", "s", ["expr", ["struct", ["a", I(6)], ["b", I(1)]]]],
    fn("f", [["v", "int"]], "int", ["bin", "*", V("v"), I(2)]),
    fn("f2", [["v", "int"]], "int", ["bin", "+", V("v"), I(1)]),
    fn("p", [["v", "int"]], "bool", ["bin", ">", V("v"), I(5)]),
    fn("p2", [["v", "int"]], "bool", ["bin", "<", V("v"), I(6)]),
    fn("g", [["a", "int"], ["c", "int"]], "int", ["bin", "+", ["bin", "*", V("a"), I(2)], V("c")]),
    fn("g2", [["a", "int"], ["c", "int"]], "int", ["bin", "+", V("a"), V("c")]),
    fn("fc", [["v", "int"]], ["mut", "int"], ["mut", None, V("v")]),
    ["set", "cs", ["expr", ["array", ["mut", None, I(1)], ["mut", None, I(2)]]]],
    ["set", "ca", ["expr", ["mut", None, ["array", I(1), I(2)]]]],
    ["set", "cb", ["expr", ["mut", None, B(True)]]],
    ["set", "tb", ["expr", ["tuple", B(True), B(False)]]],
    ["set", "sb", ["expr", ["struct", ["a", B(True)], ["b", I(2)]]]],
    ["set", "tc", ["expr", ["tuple", ["mut", None, I(1)], ["mut", None, I(8)]]]],
    ["set", "sc", ["expr", ["struct", ["a", ["mut", None, I(4)]]]]],
    ["set", "fs", ["expr", ["array", V("f"), V("f2")]]],
    ["set", "ps", ["expr", ["array", V("p"), V("p2")]]],
    ["set", "gs", ["expr", ["array", V("g"), V("g2")]]],
    ["set", "tf", ["expr", ["tuple", V("f2"), V("f")]]],
    ["set", "sf", ["expr", ["struct", ["a", V("f2")]]]],
    ["set", "it", ["expr", ["post", V("xs"), "~"]]],
    ["set", "bit", ["expr", ["post", V("bs"), "~"]]],
]
FINAL = ["stm", ["expr", ["tuple", V("r")] + [["pre", "deref", V(c)] for c in ("x", "y", "z", "w", "ca", "cb")]]]
PRELUDE_TEXT = sast.program(PRELUDE)
FINAL_TEXT = sast.program([FINAL])


# ------------------------------------------------------------------------------------------
# trees: ("atom", i) | ("pre", tok, t) | ("post", tok, t) | ("in", tok, l, r)   (i = atom number)
def doc_tree(doc, toks):
    """operator-precedence reduction driven by the documented pairwise relation"""
    operands, ops = [], []
    n_atom = 0

    def reduce_top():
        o = ops.pop()
        if o.kind == "pre":
            a = operands.pop()
            operands.append(("pre", o, a))
        else:
            r = operands.pop()
            left = operands.pop()
            operands.append(("in", o, left, r))

    for t in toks:
        if t.kind == "atom":
            operands.append(("atom", n_atom, t))
            n_atom += 1
        elif t.kind == "pre":
            ops.append(t)
        else:
            while ops and doc.left_first(ops[-1].rule, t.rule):
                reduce_top()
            if t.kind == "post":
                operands.append(("post", t, operands.pop()))
            else:
                ops.append(t)
    while ops:
        reduce_top()
    assert len(operands) == 1
    return operands[0]


def all_trees(toks, limit=4000):
    """every tree whose in-order yield is the token list, whatever the precedences"""
    atoms = {}
    k = 0
    for i, t in enumerate(toks):
        if t.kind == "atom":
            atoms[i] = k
            k += 1
    memo = {}

    def go(i, j):
        if (i, j) in memo:
            return memo[(i, j)]
        res = []
        if j - i == 1:
            if toks[i].kind == "atom":
                res.append(("atom", atoms[i], toks[i]))
        elif j - i > 1:
            if toks[i].kind == "pre":
                res += [("pre", toks[i], t) for t in go(i + 1, j)]
            if toks[j - 1].kind == "post":
                res += [("post", toks[j - 1], t) for t in go(i, j - 1)]
            for m in range(i + 1, j - 1):
                if toks[m].kind == "in":
                    ls = go(i, m)
                    if ls:
                        rs = go(m + 1, j)
                        res += [("in", toks[m], a, b) for a in ls for b in rs]
                        if len(res) > limit:
                            break
        memo[(i, j)] = res
        return res

    return go(0, len(toks))


def tree_ast(t):
    h = t[0]
    if h == "atom":
        return t[2].ast
    if h == "pre" or h == "post":
        return t[1].mk(tree_ast(t[2]))
    return t[1].mk(tree_ast(t[2]), tree_ast(t[3]))


def tree_shape(t):
    h = t[0]
    if h == "atom":
        return "(atom %d)" % t[1]
    if h == "in":
        return "(in %s %s %s)" % (t[1].rule, tree_shape(t[2]), tree_shape(t[3]))
    return "(%s %s %s)" % (h, t[1].rule, tree_shape(t[2]))


def tree_text(t, top=True, hoists=None):
    """the grouping made explicit: every operator node that is an operand is parenthesised, atoms
    are written bare (`(7 - 3) - 2`, `-(7 ** 2)`, `(xs ~) $+`).
    `a $ init f`: the token `$ init` swallows a following `(..)` as a call of the initial value, so a
    grouping whose reduce node has a compound right operand cannot be written in place: that
    operand is bound to a fresh variable on a line of its own first (appended to `hoists`)."""
    h = t[0]
    if h == "atom":
        return t[2].text
    if h == "pre":
        s = t[1].text + tree_text(t[2], False, hoists)
    elif h == "post":
        sub = tree_text(t[2], False, hoists)
        s = sub + glue(sub, t[1]) + t[1].text
    else:
        left = tree_text(t[2], False, hoists)
        if t[1].rule == "reduce" and t[3][0] != "atom" and hoists is not None:
            rhs = tree_text(t[3], True, hoists)
            name = "q%d" % len(hoists)
            hoists.append(name + " := " + rhs)
            right = name
        else:
            right = tree_text(t[3], False, hoists)
        s = left + " " + t[1].text + " " + right
    return s if top else "(" + s + ")"


def glue(prev_text, post):
    """how a postfix form is attached: tight forms directly — except `.1` after a number, which would
    read as a float literal (`7.1`)"""
    if post.rule in POSTFIX_FORM and post.rule != "type_filter":
        if post.rule == "tuple_access" and prev_text[-1:].isdigit():
            return " "
        return ""
    return " "


def flat_text(toks):
    out = ""
    prev = None
    for t in toks:
        if prev is None or prev.kind == "pre":
            out += t.text
        elif t.kind == "post":
            out += glue(out, t) + t.text
        else:
            out += " " + t.text
        prev = t
    return out


def pratt_case(toks):
    parts = []
    k = 0
    for t in toks:
        if t.kind == "atom":
            parts.append("(a %d)" % k)
            k += 1
        else:
            parts.append("(o %s)" % t.rule)
    return "(pratt " + " ".join(parts) + ")"


def impl_case_text(expr_text, hoists=()):
    pre = "".join(h + ";\n" for h in hoists)
    return '(run-ty "' + l7_programs.esc(PRELUDE_TEXT + "\n" + pre + "r := " + expr_text + ";\n" + FINAL_TEXT) + '")'


def impl_case_tree(t):
    hoists = []
    text = tree_text(t, True, hoists)
    return impl_case_text(text, hoists)




def model_case(ast):
    return "(prog-ty " + " ".join(sast.sx(l) for l in PRELUDE + [["set", "r", ["expr", ast]], FINAL]) + ")"


# ------------------------------------------------------------------------------------------
# operand kinds an operator plausibly takes (only to prune the search; the implementation decides)
def kinds(doc):
    o = doc.ops
    L, R = {}, {}
    for r in o.bin_alts:
        L[r], R[r] = {"I"}, {"I"}
    for r in ("add",):
        L[r] = R[r] = {"I", "S", "XS"}
    for r in ("bitwise_and", "bitwise_or", "xor"):
        L[r] = R[r] = {"I", "B"}
    for r in ("equal", "not_equal"):
        L[r] = R[r] = {"I", "B", "S"}
    for r in ("and", "or"):
        L[r] = R[r] = {"B"}
    for r in o.assigns_alts:
        L[r], R[r] = {"C", "CA", "CB"}, {"I", "XS", "B"}
    for r, k in (("map", "F"), ("filter", "P"), ("partition", "P"), ("reduce", "G")):
        L[r], R[r] = {"IT"}, {k}
    PRE = {"not": {"I", "B"}, "unary_minus": {"I"}, "indirection": {"C", "CB", "CA"}}
    POST = {"at": {"XS", "BS", "CS", "S", "FS", "PS", "GS"}, "slicing": {"XS", "S"},
            "function_call": {"F", "P", "FC"}, "tuple_access": {"T", "TB", "TC", "TF"},
            "field_access": {"ST", "SB", "SC", "SF"}, "type_filter": {"IT"}, "sum": {"IT"}, "product": {"IT"},
            "all": {"BIT"}, "reduce_any": {"BIT"}, "bitand_reduce": {"IT"}, "bitor_reduce": {"IT"},
            "collect": {"IT", "BIT"}, "iter": {"XS", "BS"}}
    for r in o.postfix_alts:
        if r not in POST:
            raise RuntimeError(f"lane L14 does not know the postfix operator {r}")
    for r in o.prefix_alts:
        if r not in PRE:
            raise RuntimeError(f"lane L14 does not know the prefix operator {r}")
    return L, R, PRE, POST


# ------------------------------------------------------------------------------------------
FAMILY = {"I": "int", "C": "int", "B": "bool", "CB": "bool", "XS": "arr", "CA": "arr", "S": "str"}


class Shape:
    __slots__ = ("family", "name", "template", "max_alts", "rnd", "gen", "done", "best", "typed", "violated",
                 "first", "tried")

    def __init__(self, family, name, template, max_alts, rnd):
        self.family, self.name, self.template, self.max_alts, self.rnd = family, name, template, max_alts, rnd
        self.gen = None
        self.done = False
        self.best = None          # (alternatives told apart, result is ok, toks, d, n_alts, (case, out) of D)
        self.typed = False
        self.violated = False
        self.first = None         # first instance (toks, d) — used when nothing distinguishes
        self.tried = 0


class Batch:
    """collects shapes; runs them in rounds (a few operand choices per shape and round) until the
    documented grouping of a shape has been told apart from another grouping, or the choices are
    exhausted; then asks the model for its tree and its value"""

    def __init__(self, rep, doc, nvals, chunk=6, rounds=6):
        self.rep, self.doc, self.nvals, self.chunk, self.rounds = rep, doc, nvals, chunk, rounds
        self.shapes = []

    def add(self, family, name, template, max_alts=200, rnd=None):
        """template: list of Tok (operators) and sets of kinds (atom slots)"""
        self.shapes.append(Shape(family, name, template, max_alts, rnd))

    def prepare(self, sh):
        slots = [i for i, t in enumerate(sh.template) if not isinstance(t, Tok)]
        combos = list(itertools.product(*[sorted(sh.template[i]) for i in slots]))
        # operands of one family first (int with int cells, bool with bool cells, ...): most likely typed
        combos.sort(key=lambda c: len({FAMILY[k] for k in c if k in FAMILY}))
        sh.gen = {"slots": slots, "combos": combos,
                  "fresh": list(range(len(combos))),      # kind choices not tried yet (value choice 0)
                  "more": []}                              # (kind choice, next value choice) of typed ones

    def take(self, sh):
        """next operand choice: further values for kind choices that turned out to be typed, then
        kind choices not tried yet"""
        g = sh.gen
        if g["more"]:
            ci, v = g["more"].pop(0)
        elif g["fresh"]:
            ci, v = g["fresh"].pop(0), 0
        else:
            return None
        c = g["combos"][ci]
        toks = list(sh.template)
        for pos, (i, k) in enumerate(zip(g["slots"], c)):
            toks[i] = atom_tok(k, pos, v)
        return ci, v, toks

    def feedback(self, sh, ci, v, typed):
        c = sh.gen["combos"][ci]
        if typed and v + 1 < self.nvals and any(k in VALUED for k in c):
            sh.gen["more"].append((ci, v + 1))

    def round(self, active):
        rep, doc = self.rep, self.doc
        cases, index, insts = [], [], []
        for sh in active:
            took = 0
            while True:
                nxt = self.take(sh)
                if nxt is None:
                    break
                ci, v, toks = nxt
                d = doc_tree(doc, toks)
                ds = tree_shape(d)
                alts = [t for t in all_trees(toks) if tree_shape(t) != ds]
                if len(alts) > sh.max_alts:
                    alts = (sh.rnd or common.rng("L14-alts")).sample(alts, sh.max_alts)
                if sh.first is None:
                    sh.first = (toks, d)
                ii = len(insts)
                insts.append((sh, toks, d, alts, ci, v))
                hoists = []
                dtext = tree_text(d, True, hoists)
                cases.append(impl_case_text(flat_text(toks)))
                index.append((ii, "U", False))
                cases.append(impl_case_text(dtext, hoists))
                index.append((ii, "D", bool(hoists)))
                for a in alts:
                    cases.append(impl_case_tree(a))
                    index.append((ii, "A", False))
                took += 1
                sh.tried += 1
                if took >= self.chunk:
                    break
            if took == 0:
                sh.done = True          # choices exhausted
        outs = common.run_cases(common.HARNESS, cases, timeout=900)
        rep.evaluations += len(cases)
        rep.distinct.update(cases)
        res = [{"A": []} for _ in insts]
        for (ii, role, hoisted), c, o in zip(index, cases, outs):
            if role == "A":
                res[ii]["A"].append(o)
            else:
                res[ii][role] = (c, o, hoisted)
        for (sh, toks, d, alts, ci, v), e in zip(insts, res):
            (uc, uo, _), (dc, do, hoisted) = e["U"], e["D"]
            rep.compared += 1
            self.feedback(sh, ci, v, do.startswith(("ok", "err")) or any(a.startswith(("ok", "err")) for a in e["A"]))
            if do.startswith("!") or uo.startswith("!"):
                rep.count(f"L14.{sh.family}.inconclusive")
                if "!panic" in do or "!panic" in uo:
                    rep.count(f"L14.{sh.family}.impl-panic")
                continue
            if do.startswith(("ok", "err")) or any(a.startswith(("ok", "err")) for a in e["A"]):
                sh.typed = True
            same = uo == do or (hoisted and uo.startswith("reject") and do.startswith("reject"))
            if not same and not sh.violated:
                sh.violated = True
                rep.violations.append({
                    "property": "C14", "lane": "L14",
                    "what": f"{sh.family} {sh.name}: `{flat_text(toks)}` is not grouped as documented "
                            f"`{tree_text(d)}`: {uo[:120]} vs {do[:120]}",
                    "case": uc, "documented_case": dc})
            ndiff = sum(1 for a in e["A"] if a != do)
            key = (ndiff, do.startswith("ok"))
            if ndiff and (sh.best is None or key > sh.best[:2]):
                sh.best = (ndiff, do.startswith("ok"), toks, d, len(alts), (dc, do))
        for sh in active:
            # stop once told apart with a result that is a value (or after the choices ran out)
            if sh.best is not None and (sh.best[1] or sh.tried >= 3 * self.chunk):
                sh.done = True

    def run(self):
        rep, doc = self.rep, self.doc
        for sh in self.shapes:
            self.prepare(sh)
        for _ in range(self.rounds):
            active = [sh for sh in self.shapes if not sh.done]
            if not active:
                break
            self.round(active)
        tree_q, model_q = [], []
        for sh in self.shapes:
            fam = sh.family
            rep.count(f"L14.{fam}.shapes")
            rep.count(f"L14.{fam}.instances", sh.tried)
            if sh.first is None:
                continue
            tree_q.append((sh, pratt_case(sh.first[0]), tree_shape(sh.first[1])))
            if sh.best is None:
                why = "same-result" if sh.typed else "no-typed-instance"
                rep.count(f"L14.{fam}.skipped-indistinguishable")
                rep.count(f"L14.{fam}.skipped-indistinguishable.{why}")
                if os.environ.get("L14_DEBUG"):
                    print("skipped", fam, sh.name, why)
                continue
            ndiff, _ok, toks, d, nalt, (dc, do) = sh.best
            rep.count(f"L14.{fam}.distinguished")
            rep.count(f"L14.{fam}.alternatives", nalt)
            rep.count(f"L14.{fam}.alternatives-distinguished", ndiff)
            model_q.append((sh, d, dc, do))
            if len(rep.samples) < 12 and (len(rep.samples) < 4 or fam not in {s.get("family") for s in rep.samples}):
                rep.sample({"lane": "L14", "family": fam, "text": flat_text(toks), "documented": tree_text(d),
                            "result": do[:80]})
        # the Pratt model's tree
        env = {"VERIF_HELPERS": l7_programs.HELPERS}
        touts = common.run_cases(common.DRIVER, [q for _, q, _ in tree_q], env=env, timeout=600)
        rep.evaluations += len(tree_q)
        for (sh, q, want), got in zip(tree_q, touts):
            rep.count("L14.model-trees")
            if got != want:
                rep.disagreements.append({"lane": "L14-tree", "case": q, "model": got, "impl": want,
                                          "what": "the Pratt model's tree is not the documented grouping "
                                                  f"({sh.family} {sh.name})"})
        # the program model's value for the documented grouping
        mcases = [model_case(tree_ast(d)) for _, d, _, _ in model_q]
        mouts = common.run_cases(common.DRIVER, mcases, env=env, timeout=900)
        rep.evaluations += len(mcases)
        for (sh, d, dc, do), mc, mo in zip(model_q, mcases, mouts):
            i = l7_programs.norm_impl(do)
            if do.startswith("!") or mo.startswith("!fuel"):
                rep.count("L14.model-inconclusive")
                continue
            rep.count("L14.model-values")
            if mo != i:
                if len([x for x in rep.disagreements if x.get("lane") == "L14"]) < 40:
                    rep.disagreements.append({"lane": "L14", "case": dc, "model": mo, "impl": i, "model_case": mc})
                else:
                    rep.count("L14.model-disagreements-not-listed")


# ------------------------------------------------------------------------------------------
# random sequences over algebras in which (almost) every grouping is well-typed
INT_OPS = ["subtract", "divide", "pow", "lshift", "add", "multiply", "modulo", "rshift", "bitwise_and",
           "bitwise_or", "xor"]
BOOL_OPS = ["and", "or", "equal", "not_equal", "bitwise_and", "bitwise_or", "xor"]
CMP_OPS = ["lower", "lower_equal", "greater", "greater_equal", "equal", "not_equal"]


def rand_int_operand(doc, rnd, pos):
    """an int operand (None = a literal to be filled in), sometimes under a prefix operator or as a
    postfix form"""
    c = rnd.random()
    if c < 0.12:
        return [op_tok(doc, "unary_minus"), None]
    if c < 0.2:
        return [op_tok(doc, "not"), None]
    if c < 0.27:
        return [Tok("atom", None, "xs", ast=V("xs")), op_tok(doc, "at")]
    if c < 0.32:
        return [Tok("atom", None, "t", ast=V("t")), op_tok(doc, "tuple_access")]
    if c < 0.37:
        return [Tok("atom", None, "f", ast=V("f")), op_tok(doc, "function_call")]
    if c < 0.42:
        return [op_tok(doc, "unary_minus"), Tok("atom", None, "s", ast=V("s")), op_tok(doc, "field_access")]
    if c < 0.46:
        return [op_tok(doc, "indirection"), Tok("atom", None, CELLS[pos % 4], ast=V(CELLS[pos % 4]))]
    return [None]


def fill_ints(rnd, toks):
    out = []
    for t in toks:
        if t is None:
            n = rnd.choice([1, 2, 2, 3, 3, 4, 5, 7])
            out.append(Tok("atom", None, str(n), ast=I(n)))
        else:
            out.append(t)
    return out


def random_sequence(doc, rnd):
    fam = rnd.choice(["int", "int", "int", "bool", "cmp", "assign", "iter", "iter"])
    n = rnd.randrange(2, 7)
    toks = []
    if fam == "int":
        for k in range(n + 1):
            if k:
                toks.append(op_tok(doc, rnd.choice(INT_OPS)))
            toks += rand_int_operand(doc, rnd, k)
        return fam, fill_ints(rnd, toks)
    if fam == "bool":
        for k in range(n + 1):
            if k:
                toks.append(op_tok(doc, rnd.choice(BOOL_OPS)))
            if rnd.random() < 0.2:
                toks.append(op_tok(doc, "not"))
            b = rnd.random() < 0.5
            toks.append(Tok("atom", None, "true" if b else "false", ast=B(b)))
        return fam, toks
    if fam == "cmp":
        # int expressions compared, the comparisons joined by && and ||
        nseg = rnd.randrange(1, 4)
        for sgm in range(nseg):
            if sgm:
                toks.append(op_tok(doc, rnd.choice(["and", "or"])))
            for side in range(2):
                if side:
                    toks.append(op_tok(doc, rnd.choice(CMP_OPS[:4])))
                toks.append(None)
                for _ in range(rnd.choice([0, 0, 1, 1, 2]) if nseg < 3 else rnd.choice([0, 0, 1])):
                    toks += [op_tok(doc, rnd.choice(INT_OPS)), None]
        return fam, fill_ints(rnd, toks)
    if fam == "assign":
        na = rnd.randrange(1, 4)
        assigns = doc.ops.assigns_alts
        for k in range(na):
            toks.append(Tok("atom", None, CELLS[k], ast=V(CELLS[k])))
            toks.append(op_tok(doc, rnd.choice(assigns)))
        for k in range(max(1, n - na) + 1):
            if k:
                toks.append(op_tok(doc, rnd.choice(INT_OPS)))
            toks.append(None)
        return fam, fill_ints(rnd, toks)
    # iterator pipelines with arithmetic around them
    head = rnd.random() < 0.4
    if head:
        toks += [None, op_tok(doc, rnd.choice(["pow", "add", "subtract", "multiply", "lshift"]))]
    toks += [Tok("atom", None, "xs", ast=V("xs")), op_tok(doc, "iter")]
    for _ in range(rnd.randrange(0, 3)):
        if rnd.random() < 0.5:
            toks += [op_tok(doc, "map"), Tok("atom", None, "f", ast=V("f"))]
        else:
            toks += [op_tok(doc, "filter"), Tok("atom", None, "p", ast=V("p"))]
    if rnd.random() < 0.2:
        toks.append(op_tok(doc, "type_filter"))
    end = rnd.choice(["sum", "product", "collect", "bitand_reduce", "bitor_reduce", "reduce", "sum"])
    if end == "reduce":
        toks += [op_tok(doc, "reduce"), Tok("atom", None, "g", ast=V("g"))]
    else:
        toks.append(op_tok(doc, end))
        if end == "collect" and rnd.random() < 0.7:
            toks.append(op_tok(doc, "at"))
            end = "int"
    if end != "collect":
        for _ in range(rnd.randrange(0, 3)):
            toks += [op_tok(doc, rnd.choice(INT_OPS)), None]
    return "iter", fill_ints(rnd, toks)


# ------------------------------------------------------------------------------------------
def run(rep, tier):
    thorough = tier == "thorough"
    doc = Doc(common.REPO)
    for s in doc.irregular:
        rep.count("L14.doc-rows-malformed")
    o = doc.ops
    L, R, PRE, POST = kinds(doc)
    rnd = common.rng("L14")

    # sanity: the prelude itself runs on both sides
    chk = common.run_cases(common.HARNESS, [impl_case_text("1")])
    if not chk[0].startswith("ok "):
        rep.violations.append({"property": "C14", "lane": "L14", "what": "lane prelude does not run: " + chk[0],
                               "case": impl_case_text("1")})
        return

    bt = Batch(rep, doc, 8, chunk=6, rounds=40 if thorough else 8)
    bins = list(o.bin_alts)
    # every ordered pair of binary operators
    for o1 in bins:
        for o2 in bins:
            bt.add("pairs", f"{o1},{o2}", [L[o1] | {"I"}, op_tok(doc, o1), R[o1] | L[o2], op_tok(doc, o2), R[o2] | {"I"}])
    # each prefix operator before each binary operator
    for p in o.prefix_alts:
        for b in bins:
            bt.add("pre-bin", f"{p},{b}", [op_tok(doc, p), PRE[p] | L[b], op_tok(doc, b), R[b]])
    # each prefix operator with each postfix form
    for p in o.prefix_alts:
        for q in o.postfix_alts:
            bt.add("pre-post", f"{p},{q}", [op_tok(doc, p), PRE[p] | POST[q], op_tok(doc, q)])
    # each binary operator before each postfix form
    for b in bins:
        for q in o.postfix_alts:
            bt.add("bin-post", f"{b},{q}", [L[b], op_tok(doc, b), R[b] | POST[q], op_tok(doc, q)])
    bt.run()

    # sampled triples of binary operators (all 5 groupings)
    bt = Batch(rep, doc, 8, chunk=4, rounds=30 if thorough else 6)
    scalar = [b for b in bins if b not in ("map", "filter", "partition", "reduce")]
    ntr = 6000 if thorough else 260
    seen = set()
    while len(seen) < ntr:
        pool = bins if rnd.random() < 0.15 else scalar
        tr = (rnd.choice(pool), rnd.choice(pool), rnd.choice(pool))
        if tr in seen:
            continue
        seen.add(tr)
        o1, o2, o3 = tr
        bt.add("triples", ",".join(tr),
               [L[o1], op_tok(doc, o1), R[o1] | L[o2], op_tok(doc, o2), R[o2] | L[o3], op_tok(doc, o3), R[o3]])
    bt.run()

    # random operator sequences, every other grouping evaluated
    bt = Batch(rep, doc, 1, chunk=1, rounds=1)
    nseq = 12000 if thorough else 500
    for k in range(nseq):
        fam, toks = random_sequence(doc, rnd)
        bt.add("random-" + fam, flat_text(toks), toks, max_alts=150 if thorough else 60, rnd=rnd)
    bt.run()
    rep.note(f"L14: documented table read with {len(doc.irregular)} malformed markdown rows accepted; "
             f"{rep.dist.get('L14.pairs.distinguished', 0)}/{rep.dist.get('L14.pairs.shapes', 0)} binary pairs, "
             f"{rep.dist.get('L14.pre-bin.distinguished', 0)}/{rep.dist.get('L14.pre-bin.shapes', 0)} prefix x binary, "
             f"{rep.dist.get('L14.pre-post.distinguished', 0)}/{rep.dist.get('L14.pre-post.shapes', 0)} prefix x postfix, "
             f"{rep.dist.get('L14.bin-post.distinguished', 0)}/{rep.dist.get('L14.bin-post.shapes', 0)} binary x postfix, "
             f"{rep.dist.get('L14.triples.distinguished', 0)}/{rep.dist.get('L14.triples.shapes', 0)} triples distinguished")
    run_spacing(rep)


def run_spacing(rep):
    """Operators that share a prefix with another token, written with and without white space: the
    value is fixed by the documented table (independent oracle, computed here by hand), and the
    model's own front end (text -> Peg -> Pratt -> Front) must agree with the implementation."""
    from .l6_peg import sx_str
    pre = ("m := mut 10; add := (acc: int, x: int) -> int { return acc + x }; "
           "band := (acc: int, x: int) -> int { return acc & x }; b := false; "
           "pick := (acc: bool, x: bool) -> bool { return acc || x }; ")
    cases = [
        ("[1, 2, 3]~ $ *m add", "ok (i 16)"),            # reduce with the dereferenced cell as initial value
        ("[1, 2, 3]~ $ (*m) add", "ok (i 16)"),
        ("[1, 2, 3]~ $*", "ok (i 6)"),                    # the product reducer
        ("[1, 2, 3]~ $* + 1", "ok (i 7)"),
        ("[2, 3]~ $ -1 add", "ok (i 4)"), ("[2, 3]~ $-1 add", "ok (i 4)"),
        ("[6, 3]~ $ !0 band", "ok (i 2)"), ("[6, 3]~ $!0 band", "ok (i 2)"),
        ("[true]~ $ !b pick", "ok (b true)"), ("[false]~ $!b pick", "ok (b true)"),
        ("[1, 2]~ $+ + 1", "ok (i 4)"), ("[1, 2]~ $+", "ok (i 3)"),
        ("[5, 3]~ $& + 0", "ok (i 1)"), ("[5, 3]~ $| + 0", "ok (i 7)"),
        ("[true, false]~ $&&", "ok (b false)"), ("[true, false]~ $||", "ok (b true)"),
        ("1 < 2 == true", "ok (b true)"), ("1 == 2 == false", "ok (b true)"), ("(1 < 2) == true", "ok (b true)"),
        ("2 > 1 != false", "ok (b true)"), ("1 <= 1 == (2 >= 3)", "ok (b false)"),
        ("x := mut 3; x <<= 2; *x", "ok (i 12)"), ("x := mut 12; x >>= 2; *x", "ok (i 3)"),
        ("x := mut 3; x **= 2; *x", "ok (i 9)"), ("x := mut 5; x &= 3; x |= 8; x ^= 1; *x", "ok (i 8)"),
        ("a := [1, 2, 3]; *m + a~ $+", "ok (i 16)"),
        ("a := mut [1, 2, 3]; *a~ $+", "ok (i 6)"), ("t := (mut [4, 5], 0); *t.0~ $+", "ok (i 9)"),
        ("-2 ** 2", "ok (i 4)"), ("2 ** 3 ** 2", "ok (i 64)"), ("-[1, 2][0]", "ok (i -1)"),
        ("!true || true", "ok (b true)"), ("1 - 1 + 2", "ok (i 2)"), ("10 - 1 - 2", "ok (i 7)"),
        ("f := (x: int) -> int { return x - 1 + 2 }; f(10)", "ok (i 11)"),
        ("f := (x: int) -> int { return x - 1 - 2 }; f(10)", "ok (i 7)"),
        ("f := (x: int) -> int { return x / 2 * 2 }; f(7)", "ok (i 6)"),
        ("f := (x: int) -> int { return x % 4 % 3 }; f(11)", "ok (i 0)"),
        ("f := (x: int) -> int { return x << 1 << 2 }; f(1)", "ok (i 8)"),
    ]
    ic = ['(run "' + l7_programs.esc(pre + t) + '")' for t, _ in cases]
    mc = ["(src-ty " + sx_str(pre + t) + ")" for t, _ in cases]
    io = common.run_cases(common.HARNESS, ic)
    mo = common.run_cases(common.DRIVER, mc, env={"VERIF_HELPERS": l7_programs.HELPERS}, timeout=120)
    rep.evaluations += 2 * len(cases)
    for (t, want), i, m, c in zip(cases, io, mo, ic):
        rep.compared += 1
        rep.count("L14.spacing")
        got = l7_programs.norm_impl(i)
        if got != want:
            rep.violations.append({"property": "C14", "lane": "L14", "case": c,
                                   "what": f"`{t}` evaluates to {got[:80]}, the documented grouping / tokenisation gives {want}"})
        mv = m.split(" :: ")[0]
        if not m.startswith("!") and mv != got:
            rep.disagreements.append({"lane": "L14-spacing", "case": c, "model": mv[:200], "impl": got[:200]})

"""Lane L5d — determinism (C05): the same parse+run in the same process, in fresh processes and
after unrelated work gives the same outcome; structurally equal types compare equal however
their members/fields were inserted."""
import itertools
from . import common, progen, sast, l7_programs, typegen, corpus


def run(rep, tier):
    rnd = common.rng("L5d")
    nproc = 12 if tier == "thorough" else 6
    nprog = 600 if tier == "thorough" else 150
    progs = [e[2] for e in corpus.CORPUS]
    for k in range(nprog):
        p, _ = progen.program(rnd, n_lines=rnd.randrange(2, 7), max_depth=rnd.choice([2, 3]))
        progs.append(p)
    # union-heavy programs: end markers, defaults, printed types
    extra_src = [
        'it := [1, "a"]~; it(); it(); it()',
        'it := [1, "a", 2.5, true]~; it(); it(); it(); it(); it()',
        'it := [(1, "a"), ("b", 2)]~; it(); it(); it()',
        'it := ([1, "a"]~) ? int|string; it(); it(); it()',
        'x := if true { 1 } else { "s" }; it := [x, "a"]~ ? string|int|float; it(); it(); it()',
        'c := mut int|string|float 1; c = "s"; *c',
        'f := (m: mut int|mut float|mut string) -> int|float|string { return *m; }; f(mut 1.5)',
        'struct{a := 1, b := "x", c := 2.5, d := [1], e := ()}',
        'match 1 { x: int|string => { x }, => { 0 }, }',
        's := struct{a := 1, b := 2}; t := struct{b := 2, a := 1}; (s == t, [s] == [t])',
        # acceptance must not depend on which member of a union is visited first
        'f := (src: () -> (bool, any) | int) -> int { for x in src { } return 0 }',
        'f := (src: () -> (bool, any) | int) -> () -> (bool, int) { return src @ (x: any) -> int { return 1 } }',
        'f := (src: () -> (bool, any) | [int]) -> [any] { return src $] }',
        'f := (src: () -> (bool, any) | (int) -> int) -> any { return src $0 (a: any, c: any) -> any { return a } }',
        'f := (src: () -> (bool, int) | () -> (bool, any) | string) -> int { return src $+ }',
        'f := (src: [int] | [any] | int) -> any { return src[0] }',
        'f := (src: (int, any) | (any, int) | string) -> any { return src.0 }',
        'f := (src: mut int | mut any | int) -> any { return *src }',
        'f := (src: struct{a: int, b: any} | struct{a: any, b: int} | int) -> any { return src.a }',
        # values whose type is a union with multi-field struct members, printed and compared
        'x := [struct{a := 1, b := 2.5, c := "x", d := true}, 3]; y := [struct{d := true, c := "x", b := 2.5, a := 1}, 3]; (x == y, x, y)',
        # an instruction reached twice must not remember the first time
        'ints := (source: () -> (bool, any)) -> [int] { return source ? int $] }; (ints([1, 2.5, 3]~), ints([10, "a", 20]~))',
        'source := [1, 2.5, 3, "x", 4]~; ints := source ? int; ints $]',
        '[7, 8]~ $]',
        '[1, 2, 3]~ @ ((x: int) -> int { return x + 1 }) $+',
        '([1, 2, 3, 4]~ ? (x: int) -> bool { return x > 1 }) $]',
        '[1, 2, 3, 4]~ \\ (x: int) -> bool { return x > 2 }',
        '[1, 2, 3]~ $10 (a: int, c: int) -> int { return a - c }',
        'c := mut 0; for x in [1, 2, 3]~ { c += x }; *c',
        'f := () -> [int] { return [1, 2, 3]~ $] }; (f(), f())',
        'data := [4, 5, 6]; total := () -> int { return data~ $+ }; (total(), total())',
        'n := mut 0; for i in [1, 2, 3]~ { for j in [10, 20]~ { n += 1 } }; *n',
    ]
    cases = ['(run-ty "' + l7_programs.esc(sast.program(p)) + '")' for p in progs]
    cases += ['(run-ty "' + l7_programs.esc(s) + '")' for s in extra_src]
    # type computations with members inserted in different orders
    U = typegen.universe(rnd, 60, 40)
    multis = [t for t in U if t.startswith("(multi")]
    # crafted unions: an iterator / indexable / cell / struct member whose answer would absorb the
    # others next to a member for which the query is undefined; structs with several fields
    IT = lambda e: f"(fun () (tup bool {e}))"
    ST = "(struct (a int) (b float) (c string) (d bool) (e (arr int)))"
    crafted = [f"(multi {IT('any')} int)", f"(multi {IT('any')} (arr int))", f"(multi {IT('any')} (fun (int) int))",
               f"(multi {IT('any')} {IT('int')})", f"(multi {IT('any')} {IT('int')} string)",
               f"(multi {IT('never')} {IT('float')})", f"(multi (fun () never) {IT('float')})",
               "(multi (arr any) (arr int) int)", "(multi (arr any) string)", "(multi (mut any) (mut int) int)",
               "(multi (tup int any) (tup any int) string)", "(multi (fun (int) any) (fun (any) int) int)",
               f"(multi {ST} int)", f"(multi {ST} (struct (a int) (b float)) string)",
               f"(multi (arr {ST}) (arr int))", f"(multi (mut {ST}) int)"]
    multis = crafted + multis
    # unions nested three levels deep: two independently built copies are equal, and equal as cell contents
    deep3 = ["(multi (arr (multi (arr (multi int float)) string)) bool)", "(multi (fun () (multi (fun () (multi int float)) string)) bool)", "(mut (multi (arr (multi (arr (multi int float)) string)) bool))", "(multi (tup (multi (tup (multi int float) int) string) int) bool)", "(multi (arr (multi (struct (a (multi int float)) (b (multi string bool))) string)) bool)", "(arr (multi (arr (multi (arr (multi int float)) string)) bool))", "(multi (mut (multi (mut (multi int float)) string)) bool)", "(fun ((multi (arr (multi (arr (multi int float)) string)) bool)) (multi (arr (multi (arr (multi int float)) string)) bool))"]
    for t in deep3:
        for _ in range(6):
            cases.append(f"(ty-eq {t} {t})")
            cases.append(f"(ty-matches (mut {t}) (mut {t}))")
    multis = [t for t in deep3 if t.startswith("(multi")] + multis
    for t in multis[:56]:
        parts = sast_split(t)
        for perm in itertools.islice(itertools.permutations(parts), 6):
            cases.append(f"(ty-eq {t} (multi {' '.join(perm)}))")
            cases.append(f"(ty-matches (mut {t}) (mut (multi {' '.join(perm)})))")
    tcases = [f"(ty-q {q} {t})" for t in multis for q in ("index_result", "element_type", "return_type", "mut_element_type", "iter_element", "params", "flatten_tuple")]
    cases += tcases
    runs = []
    for r in range(nproc):
        # each run is a fresh set of processes (fresh hash seeds); odd runs do unrelated work first
        pre = [f"(ty-concat {rnd.choice(U)} {rnd.choice(U)})" for _ in range(50)] if r % 2 else []
        out = common.run_cases(common.HARNESS, pre + cases, shards=4)
        runs.append(out[len(pre):])
    # in-process repetition: the same cases twice in ONE process
    twice = common.run_cases(common.HARNESS, cases + cases, shards=1)
    runs.append(twice[:len(cases)])
    runs.append(twice[len(cases):])
    rep.evaluations += len(cases) * len(runs)
    rep.compared += len(cases) * (len(runs) - 1)
    rep.distinct.update(cases)
    for k, c in enumerate(cases):
        outs = {r[k] for r in runs}
        if c.startswith("(ty-eq") or c.startswith("(ty-matches"):
            if outs != {"true"}:
                rep.violations.append({"property": "C05", "lane": "L5d",
                                       "what": f"structurally equal types do not always compare equal: answers {sorted(outs)}",
                                       "case": c})
            continue
        if len(outs) > 1:
            rep.violations.append({"property": "C05", "lane": "L5d",
                                   "what": f"the same computation gave {len(outs)} different outcomes over {len(runs)} runs: " + " | ".join(sorted(o[:120] for o in outs)),
                                   "case": c})
    # the same parsed program executed twice: the second execution must not see the first
    ex = ['(exec-twice "' + l7_programs.esc(sast.program([["set", "leak", ["expr", ["c", ["i", 3]]]]] + p)) + '")' for p in progs[:len(corpus.CORPUS) + 60]]
    ex += ['(exec-twice "leak := 3; ' + l7_programs.esc(s) + '")' for s in extra_src]
    for c, o in zip(ex, common.run_cases(common.HARNESS, ex, shards=4, timeout=300)):
        parts = o.split(" || ")
        rep.evaluations += 1
        if o.startswith(("reject", "!")) or len(parts) != 3:
            continue
        rep.compared += 1
        if parts[0] != parts[1]:
            rep.violations.append({"property": "C05", "lane": "L5d",
                                   "what": "executing the same parsed program a second time gives another outcome: " + o[:300], "case": c})
    rep.count("L5d.exec-twice", len(ex))
    rep.count("L5d.cases", len(cases))
    rep.count("L5d.runs", len(runs))
    rep.sample({"lane": "L5d", "case": cases[len(progs)], "outcomes": sorted({r[len(progs)] for r in runs})})


def sast_split(t):
    """members of a (multi a b c) S-expression text"""
    inner = t[len("(multi "):-1]
    parts, depth, cur = [], 0, ""
    for ch in inner:
        if ch == "(":
            depth += 1
        if ch == ")":
            depth -= 1
        if ch == " " and depth == 0:
            parts.append(cur)
            cur = ""
        else:
            cur += ch
    if cur:
        parts.append(cur)
    return parts

"""Lane L4 — equality by content (C19): for each pair of provenance paths producing arrays,
tuples, structs with known content, `==`, `!=` and match value arms must answer by content;
model vs implementation on the same programs."""
import itertools
from . import common, sast, l7_programs
from .sast import I, B, S, V, VOID

F15 = ["c", ["f", 4609434218613702656]]  # 1.5
FN_TRUE = ["fn", [["x", "any"]], "bool", [["stm", ["return", ["expr", B(True)]]]]]
FN_FALSE = ["fn", [["x", "any"]], "bool", [["stm", ["return", ["expr", B(False)]]]]]
FN_ID = ["fn", [["x", "any"]], "any", [["stm", ["return", ["expr", V("x")]]]]]


def elems(content):
    out = []
    for c in content:
        if isinstance(c, int):
            out.append(I(c))
        elif isinstance(c, str):
            out.append(S(c))
        elif isinstance(c, float):
            out.append(F15)
        elif c is None:
            out.append(VOID)
    return out


def provenances(content):
    """expressions all evaluating to an array with exactly this content"""
    es = elems(content)
    lit = ["array"] + es
    ps = {"literal": lit}
    ps["concat-empty-left"] = ["bin", "+", ["array"], lit]
    if es:
        ps["concat-split"] = ["bin", "+", ["array"] + es[:1], ["array"] + es[1:]]
        ps["slice-of-longer"] = ["slice", ["array"] + es + [I(99)], None, I(len(es)), None]
        ps["slice-full"] = ["slice", lit, None, None, I(1)]
        ps["wider-literal-sliced"] = ["slice", ["array"] + es + [S("pad"), F15], I(0), I(len(es)), None]
    else:
        ps["slice-to-empty"] = ["slice", ["array", I(1), I(2)], I(0), I(0), None]
        ps["repeat-zero-float"] = ["repeat", F15, I(0)]
        ps["repeat-zero-string"] = ["repeat", S("a"), I(0)]
        ps["typed-empty-any"] = ["pre", "deref", ["mut", ["arr", "any"], ["array"]]]
    ps["collect"] = ["post", ["post", lit, "~"], "$]"]
    ps["partition-left"] = ["tacc", ["bin", "\\", ["post", lit, "~"], FN_TRUE], 0]
    ps["partition-right"] = ["tacc", ["bin", "\\", ["post", lit, "~"], FN_FALSE], 1]
    ps["filter-collect"] = ["post", ["bin", "?", ["post", lit, "~"], FN_TRUE], "$]"]
    ps["map-collect"] = ["post", ["bin", "@", ["post", lit, "~"], FN_ID], "$]"]
    ps["typed-cell"] = ["pre", "deref", ["mut", ["arr", "any"], lit]]
    if len(set(type(c) for c in content)) == 1 and content and isinstance(content[0], int):
        ps["repeat"] = ["repeat", es[0], I(len(es))] if len(set(content)) == 1 else lit
        ps["union-typed-cell"] = ["pre", "deref", ["mut", ["arr", ["multi", "int", "string"]], lit]]
    return ps


CONTENTS = [[], [1], [1, 1], [1, 2], ["a"], [1, "a"], [1.5], [None], [2, 1]]


def run(rep, tier):
    progs, meta = [], []
    for ca, cb in itertools.product(CONTENTS, repeat=2):
        if ca != cb and tier != "thorough" and (len(ca) > 1 and len(cb) > 1):
            continue
        pa, pb = provenances(ca), provenances(cb)
        same = ca == cb
        for (na, ea), (nb, eb) in itertools.product(pa.items(), pb.items()):
            if not same and (na, nb) not in (("literal", "literal"), ("collect", "literal"), ("literal", "partition-left"),
                                              ("slice-full", "typed-cell"), ("literal", "collect")) and tier != "thorough":
                continue
            forms = {
                "==": [["stm", ["expr", ["bin", "==", ea, eb]]]],
                "!=": [["stm", ["expr", ["bin", "!=", ea, eb]]]],
                "match": [["stm", ["match", ea, ["aval", [eb], ["block", ["stm", ["expr", B(True)]]]],
                                   ["aother", ["block", ["stm", ["expr", B(False)]]]]]]],
                "nested": [["stm", ["expr", ["bin", "==", ["tuple", ea, I(0)], ["tuple", eb, I(0)]]]]],
                "struct": [["stm", ["expr", ["bin", "==", ["struct", ["f", ea]], ["struct", ["f", eb]]]]]],
            }
            # the same comparisons with the right-hand value arriving through an any-typed parameter,
            # so that the static type of the candidate differs from the runtime type of the scrutinee
            def via_any(body):
                return [["fndecl", "w", [["k", "any"]], "bool", [["stm", ["return", body]]]],
                        ["stm", ["expr", ["call", V("w"), eb]]]]
            t, f_ = ["block", ["stm", ["expr", B(True)]]], ["block", ["stm", ["expr", B(False)]]]
            forms["==-any"] = via_any(["expr", ["bin", "==", ea, V("k")]])
            forms["match-any"] = via_any(["match", ea, ["aval", [V("k")], t], ["aother", f_]])
            forms["match-struct-any"] = via_any(["match", ["struct", ["f", ea]], ["aval", [["struct", ["f", V("k")]]], t], ["aother", f_]])
            forms["match-tuple-any"] = via_any(["match", ["tuple", ea, I(1)], ["aval", [["tuple", V("k"), I(1)]], t], ["aother", f_]])
            forms["match-array-any"] = via_any(["match", ["array", ea], ["aval", [["array", V("k")]], t], ["aother", f_]])
            for fname, p in forms.items():
                expect = same if fname != "!=" else not same
                progs.append(p)
                meta.append((fname, na, nb, ca, cb, expect))
    # scalars, kinds, identity
    extra = [
        (["bin", "==", I(1), F15], False), (["bin", "==", I(0), B(False)], False),
        (["bin", "==", S("1"), I(1)], False), (["bin", "==", VOID, ["array"]], False),
        (["bin", "==", ["tuple", I(1), I(2)], ["array", I(1), I(2)]], False),
        (["bin", "==", ["c", ["f", 0]], ["pre", "neg", ["c", ["f", 0]]]], True),
        (["bin", "==", ["bin", "/", ["c", ["f", 0]], ["c", ["f", 0]]], ["bin", "/", ["c", ["f", 0]], ["c", ["f", 0]]]], False),
        (["bin", "==", ["struct", ["a", I(1)], ["b", S("x")]], ["struct", ["b", S("x")], ["a", I(1)]]], True),
        (["bin", "==", ["struct", ["a", I(1)]], ["struct", ["a", I(1)], ["b", I(2)]]], False),
        (["bin", "==", S("hé"), ["bin", "+", S("h"), S("é")]], True),
    ]
    for e, expect in extra:
        progs.append([["stm", ["expr", e]]])
        meta.append(("scalar", "", "", None, None, expect))
    ident = [
        ([["set", "c", ["expr", ["mut", None, I(1)]]], ["set", "d", ["expr", V("c")]], ["stm", ["expr", ["bin", "==", V("c"), V("d")]]]], True),
        ([["set", "c", ["expr", ["mut", None, I(1)]]], ["set", "d", ["expr", ["mut", None, I(1)]]], ["stm", ["expr", ["bin", "==", V("c"), V("d")]]]], False),
        ([["fndecl", "f", [], "int", [["stm", ["return", ["expr", I(1)]]]]], ["set", "g", ["expr", V("f")]], ["stm", ["expr", ["bin", "==", V("f"), V("g")]]]], True),
        ([["fndecl", "f", [], "int", [["stm", ["return", ["expr", I(1)]]]]], ["fndecl", "g", [], "int", [["stm", ["return", ["expr", I(1)]]]]], ["stm", ["expr", ["bin", "==", V("f"), V("g")]]]], False),
        ([["set", "c", ["expr", ["mut", None, I(1)]]], ["stm", ["expr", ["bin", "==", ["array", V("c")], ["array", V("c")]]]]], True),
    ]
    for p, expect in ident:
        progs.append(p)
        meta.append(("identity", "", "", None, None, expect))
    # the SAME value on both sides (same variable, a copy, twice as an argument, `x + []`): the answer
    # is still the one its content gives -- in particular false when the content holds a NaN --,
    # on the folded path (x constant), the run-time path (x hidden) and inside aggregates;
    # `!=` is the negation; the value arm of `match` agrees with `==`; `==` is symmetric
    NAN = ["bin", "/", ["c", ["f", 0]], ["c", ["f", 0]]]
    selfs = [("int", I(5), True), ("nan", NAN, False), ("arr", ["array", I(1), I(2)], True), ("arr-nan", ["array", NAN], False),
             ("arr-nan-mixed", ["array", I(1), NAN], False), ("tuple-nan", ["tuple", I(1), NAN], False),
             ("struct-nan", ["struct", ["a", NAN]], False), ("nested-nan", ["array", ["array", NAN]], False),
             ("str", S("a"), True), ("empty", ["array"], True), ("struct", ["struct", ["a", I(1)], ["b", S("x")]], True),
             ("cell", ["mut", None, I(5)], True), ("cell-nan", ["mut", None, NAN], True), ("arr-of-cell", ["array", ["mut", None, NAN]], True),
             ("fn", ["fn", [], "int", [["stm", ["return", ["expr", I(1)]]]]], True)]
    hide = ["fndecl", "hd", [["q", "any"]], "any", [["stm", ["return", ["expr", V("q")]]]]]
    for nm, e, eq in selfs:
        for route, bind in (("const", ["set", "x", ["expr", e]]), ("hidden", ["set", "x", ["expr", ["call", V("hd"), e]]])):
            variants = {
                "x==x": ["bin", "==", V("x"), V("x")],
                "x!=x": ["bin", "!=", V("x"), V("x")],
                "copy": None,
                "tuple": ["bin", "==", ["tuple", V("x"), I(1)], ["tuple", V("x"), I(1)]],
                "array": ["bin", "==", ["array", V("x")], ["array", V("x")]],
                "args": ["call", ["fn", [["a", "any"], ["b", "any"]], "bool", [["stm", ["return", ["expr", ["bin", "==", V("a"), V("b")]]]]]], V("x"), V("x")],
                "match": None,
            }
            for vn, ex in variants.items():
                lines = [hide, bind]
                if vn == "copy":
                    lines += [["set", "y", ["expr", V("x")]], ["stm", ["expr", ["bin", "==", V("x"), V("y")]]]]
                elif vn == "match":
                    lines += [["stm", ["match", V("x"), ["aval", [V("x")], ["block", ["stm", ["expr", B(True)]]]],
                                       ["aother", ["block", ["stm", ["expr", B(False)]]]]]]]
                else:
                    lines += [["stm", ["expr", ex]]]
                progs.append(lines)
                meta.append((f"self.{vn}.{route}", nm, nm, None, None, (not eq) if vn == "x!=x" else eq))
    # struct equality needs the same field SET on both sides (either order of the operands), cells compare by identity
    asym = [
        (["bin", "==", ["struct", ["a", I(1)]], ["struct", ["a", I(1)], ["b", I(2)]]], False),
        (["bin", "==", ["struct", ["a", I(1)], ["b", I(2)]], ["struct", ["a", I(1)]]], False),
        (["bin", "!=", ["struct", ["a", I(1)]], ["struct", ["a", I(1)], ["b", I(2)]]], True),
        (["bin", "==", ["struct"], ["struct", ["a", I(1)]]], False),
        (["bin", "==", ["struct", ["a", I(1)]], ["struct"]], False),
    ]
    for e, expect in asym:
        progs.append([["stm", ["expr", e]]])
        meta.append(("struct-fields", "", "", None, None, expect))
    cellv = [
        ([["set", "m", ["expr", ["mut", None, I(5)]]], ["stm", ["expr", ["tuple", ["bin", "==", V("m"), I(5)], ["bin", "!=", V("m"), I(5)], ["bin", "==", I(5), V("m")]]]]], "ok (tup (b false) (b true) (b false))"),
        ([["fndecl", "f", [["x", ["multi", ["mut", "int"], "int"]], ["y", ["multi", ["mut", "int"], "int"]]], ["tup", "bool", "bool"], [
            ["set", "viamatch", ["match", V("x"), ["aval", [V("y")], ["block", ["stm", ["expr", B(True)]]]],
                                 ["aother", ["block", ["stm", ["expr", B(False)]]]]]],
            ["stm", ["return", ["expr", ["tuple", ["bin", "==", V("x"), V("y")], V("viamatch")]]]]]],
          ["stm", ["expr", ["call", V("f"), ["mut", None, I(5)], I(5)]]]], "ok (tup (b false) (b false))"),
    ]
    F10 = ["c", ["f", 4607182418800017408]]      # 1.0
    F20 = ["c", ["f", 4611686018427387904]]      # 2.0
    cellv += [
        # an int is never equal to a float, whatever the static types and whichever side is the literal
        ([["fndecl", "f", [["x", "float"]], ["tup", "bool", "bool", "bool", "bool"], [
            ["stm", ["return", ["expr", ["tuple", ["bin", "==", V("x"), I(1)], ["bin", "==", I(1), V("x")], ["bin", "!=", V("x"), I(1)], ["bin", "!=", I(1), V("x")]]]]]]],
          ["stm", ["expr", ["call", V("f"), F10]]]], "ok (tup (b false) (b false) (b true) (b true))"),
        ([["set", "x", ["expr", ["mut", None, F20]]], ["stm", ["expr", ["tuple", ["bin", "==", ["pre", "deref", V("x")], I(2)], ["bin", "!=", ["pre", "deref", V("x")], I(2)]]]]],
         "ok (tup (b false) (b true))"),
        ([["fndecl", "g", [], "float", [["stm", ["return", ["expr", F10]]]]], ["stm", ["expr", ["tuple", ["bin", "==", ["call", V("g")], I(1)], ["bin", "==", I(1), ["call", V("g")]]]]]],
         "ok (tup (b false) (b false))"),
        ([["fndecl", "f", [["x", "float"]], "bool", [["stm", ["return", ["expr", ["bin", "==", V("x"), I(9007199254740993)]]]]]],
          ["stm", ["expr", ["call", V("f"), ["c", ["f", 4845873199050653696]]]]]], "ok (b false)"),
        ([["fndecl", "f", [["x", ["multi", "int", "float"]], ["y", ["multi", "int", "string"]]], ["tup", "bool", "bool"], [
            ["stm", ["return", ["expr", ["tuple", ["bin", "==", V("x"), V("y")], ["bin", "!=", V("x"), V("y")]]]]]]],
          ["stm", ["expr", ["call", V("f"), I(1), I(1)]]]], "ok (tup (b true) (b false))"),
        # a tuple value arm matches tuples of its own length only
        ([["fndecl", "f", [["t", "any"], ["a", "int"]], "int", [
            ["stm", ["return", ["match", V("t"), ["aval", [["tuple", V("a"), I(2)]], ["block", ["stm", ["expr", I(1)]]]], ["aother", ["block", ["stm", ["expr", I(0)]]]]]]]]],
          ["stm", ["expr", ["tuple", ["call", V("f"), ["tuple", I(1), I(2)], I(1)], ["call", V("f"), ["tuple", I(1), I(2), I(3)], I(1)],
                            ["call", V("f"), ["tuple", I(1), I(3)], I(1)], ["call", V("f"), ["array", I(1), I(2)], I(1)]]]]],
         "ok (tup (i 1) (i 0) (i 0) (i 0))"),
        ([["fndecl", "f", [["t", ["multi", ["tup", "int", "int"], ["tup", "int", "int", "int"]]], ["a", "int"]], "int", [
            ["stm", ["return", ["match", V("t"), ["aval", [["tuple", V("a"), I(2), I(3)]], ["block", ["stm", ["expr", I(1)]]]], ["aother", ["block", ["stm", ["expr", I(0)]]]]]]]]],
          ["stm", ["expr", ["tuple", ["call", V("f"), ["tuple", I(1), I(2)], I(1)], ["call", V("f"), ["tuple", I(1), I(2), I(3)], I(1)]]]]],
         "ok (tup (i 0) (i 1))"),
    ]
    cell_expect = {}
    for p, want in cellv:
        cell_expect[len(progs)] = want
        progs.append(p)
        meta.append(("cell-vs-content", "", "", None, None, None))
    rep.exhaustive = True
    mo, io = l7_programs.run_programs(rep, progs, "L4")
    for k, (fname, na, nb, ca, cb, expect) in enumerate(meta):
        rep.count("L4." + fname.split("-")[0])
        got = l7_programs.norm_impl(io[k])
        want = cell_expect[k] if k in cell_expect else f"ok (b {'true' if expect else 'false'})"
        val = got.split(" :: ")[0]
        if val != want:
            rep.violations.append({"property": "C19", "lane": "L4",
                                   "what": f"{fname} of contents {ca} ({na}) and {cb} ({nb}): implementation gives {val}, equality by content gives {want}",
                                   "case": '(run-ty "' + l7_programs.esc(sast.program(progs[k])) + '")'})
    for p in progs[:2]:
        rep.sample({"lane": "L4", "program": sast.program(p)})

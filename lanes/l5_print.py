"""Lane L5 (print) — how types and values are rendered as text and read back: the model
(coq/Model/Print.v, TypeParse.v, ValueParse.v, extracted) vs the implementation, and the
C15 / C20 oracles evaluated on the implementation's own answers.

(a) types (C15).  For every type T of the universe (typegen.universe + deeper random types
    + crafted types: unions under function results / parameters / mut / arrays / tuples /
    struct fields, keyword-like field names):
    - the implementation's text `format!("{}", T)` must be the model's `print_ty` for SOME
      order of union members / struct fields: the model parses the text back
      (`tp_parse_type`), must get T, and must print exactly the same text again from what it
      parsed (parsed order); for types with few orders the text must also be among the model's
      prints of all orders of T (no parser involved);
    - C15 oracle: `Type::from_str(&T.to_string())` on the implementation must give T;
      repeated with fresh hash seeds;
    - model-level: `tp_parse_type (print_ty T')` = T for random orders T' of T (the bounded /
      unbounded theorems of Props/C15.v, sampled);
    - `([..]~ ? TEXT) $]` never panics (type_filter.rs re-parses the printed type at run time).
(b) values (C20).  Nested first-order values with boundary scalars:
    - `{:?}` and `{}`: model = implementation (also cells, functions, structs, non-finite
      floats, elision beyond depth 5);
    - C20 oracle: `Variable::from_str(debug text)` gives back the value with the same type;
      the debug text run as a program yields the value (except MIN_INT);
    - reading: model `vp_parse_value` = implementation `Variable::from_str` on debug texts, on
      integer literal forms (oracle: the mathematical value or IntegerOverflow), on escape
      sequences (the unescaper model) and on white-space / separator variations;
    - the three external parameters of the model: P (needs a \\u{..} escape) is taken from the
      toolchain's own answer for every code point and cross-checked on samples against
      Python's unicodedata; float `{:?}` / `{}` / `parse` of the driver against Rust's on
      boundary and random floats.
"""
import itertools
import os
import struct
import unicodedata
from . import common, typegen

LANE = "L5"
MAX_INT = 2 ** 63 - 1
MIN_INT = -2 ** 63


# --------------------------------------------------------------------------- s-expressions

def sx_str(s):
    out = ['"']
    for ch in s:
        c = ord(ch)
        if c == 34:
            out.append('\\"')
        elif c == 92:
            out.append("\\\\")
        elif 32 <= c < 127:
            out.append(ch)
        else:
            out.append("\\u{%x}" % c)
    out.append('"')
    return "".join(out)


def sx_unquote(q):
    """inverse of the quoting used by both drivers for result texts"""
    assert q[0] == '"' and q[-1] == '"', q
    body = q[1:-1]
    out = []
    i = 0
    while i < len(body):
        c = body[i]
        if c != "\\":
            out.append(c)
            i += 1
            continue
        e = body[i + 1]
        if e == "u":
            j = body.index("}", i)
            out.append(chr(int(body[i + 3:j], 16)))
            i = j + 1
        else:
            out.append({"n": "\n", "t": "\t", "r": "\r"}.get(e, e))
            i += 2
    return "".join(out)


def split_quoted(line):
    """'"text" => rest' -> (text, rest); None if the line has another shape"""
    if not line.startswith('"'):
        return None
    i = 1
    while i < len(line):
        if line[i] == "\\":
            i += 2
            continue
        if line[i] == '"':
            break
        i += 1
    q = line[:i + 1]
    rest = line[i + 1:]
    if not rest.startswith(" => "):
        return None
    return sx_unquote(q), rest[4:]


def sx_parse(s):
    """s-expression -> nested lists / atoms (quoted strings stay atoms, quotes included)"""
    toks = []
    i = 0
    n = len(s)
    while i < n:
        c = s[i]
        if c in " \t\n":
            i += 1
        elif c in "()":
            toks.append(c)
            i += 1
        elif c == '"':
            j = i + 1
            while s[j] != '"':
                j += 2 if s[j] == "\\" else 1
            toks.append(s[i:j + 1])
            i = j + 1
        else:
            j = i
            while j < n and s[j] not in ' \t\n()"':
                j += 1
            toks.append(s[i:j])
            i = j
    pos = [0]

    def go():
        t = toks[pos[0]]
        pos[0] += 1
        if t == "(":
            out = []
            while toks[pos[0]] != ")":
                out.append(go())
            pos[0] += 1
            return out
        return t
    return go()


def sx_show(t):
    if isinstance(t, list):
        return "(" + " ".join(sx_show(x) for x in t) + ")"
    return t


def permute_type(t, rnd):
    """a random order of every union's members and every struct's fields"""
    if not isinstance(t, list) or not t:
        return t
    head = t[0]
    if head in ("multi", "struct"):
        rest = [permute_type(x, rnd) for x in t[1:]]
        rnd.shuffle(rest)
        return [head] + rest
    return [permute_type(x, rnd) for x in t]


def all_orders(t, limit):
    """every order of members / fields (None if more than `limit`)"""
    if not isinstance(t, list) or not t:
        return [t]
    head = t[0]
    if head == "multi" and (any(x in ("any", "never") or (isinstance(x, list) and x and x[0] == "multi") for x in t[1:])
                            or len({sx_show(x) for x in t[1:]}) != len(t) - 1):
        return None      # `|` flattens / absorbs / deduplicates these: not a list order of the model
    parts = [all_orders(x, limit) for x in t[1:]] if head in ("multi", "struct") else [all_orders(x, limit) for x in t]
    if any(p is None for p in parts):
        return None
    n = 1
    for p in parts:
        n *= len(p)
        if n > limit:
            return None
    combos = [list(c) for c in itertools.product(*parts)]
    if head in ("multi", "struct"):
        out = []
        for c in combos:
            for perm in itertools.permutations(c):
                out.append([head] + list(perm))
                if len(out) > limit:
                    return None
        return out
    return combos


def is_printable_type(t):
    """tuples have at least two members (0- and 1-tuples cannot be written in the language)"""
    if not isinstance(t, list):
        return True
    if t and t[0] == "tup" and len(t) < 3:
        return False
    return all(is_printable_type(x) for x in t)


# --------------------------------------------------------------------------- type cases

CRAFTED_TYPES = [
    # unions nested three levels deep (a union inside a member of a union inside a member of a union)
    "(multi (arr (multi (arr (multi int float)) string)) bool)", "(multi (fun () (multi (fun () (multi int float)) string)) bool)", "(mut (multi (arr (multi (arr (multi int float)) string)) bool))", "(multi (tup (multi (tup (multi int float) int) string) int) bool)", "(multi (arr (multi (struct (a (multi int float)) (b (multi string bool))) string)) bool)", "(arr (multi (arr (multi (arr (multi int float)) string)) bool))", "(multi (mut (multi (mut (multi int float)) string)) bool)", "(fun ((multi (arr (multi (arr (multi int float)) string)) bool)) (multi (arr (multi (arr (multi int float)) string)) bool))",
    "(fun () (multi int float))", "(fun ((multi int float)) int)", "(fun ((multi int float) string) (multi bool void))",
    "(mut (multi int float))", "(arr (multi int float))", "(tup (multi int float) string)",
    "(struct (a (multi int float)))", "(multi (mut int) float)", "(multi (fun () int) float)",
    "(multi (fun () (multi int float)) string)", "(mut (fun () (multi int float)))", "(mut (fun ((multi int float)) int))",
    "(multi (mut (multi int float)) string)", "(fun () (fun () (multi int float)))", "(fun ((fun () int)) (fun (int) int))",
    "(arr never)", "(arr (arr never))", "(mut (arr never))", "(multi (arr never) int)", "(tup (arr never) void)",
    "(fun ((tup int float)) void)", "(fun (void) void)", "(tup void void)", "(mut void)", "(arr void)",
    "(multi void (tup int int))", "(multi (tup int int) (tup int int int))", "(multi (arr int) (arr float))",
    "(struct (int_x int))", "(struct (mutable int))", "(structs)".replace("(structs)", "(struct (structs int))"),
    "(struct (boolean bool) (returns int) (anyx any) (loops never) (_ int) (A9_ float))",
    "(struct (true_ int) (falsey int) (breaks int) (continues int) (mod_ int) (fors int) (whiles int))",
    "(struct (a (struct (b (struct (c (multi int float)))))))", "(struct)", "(mut (struct))", "(arr (struct))",
    "(multi (struct) int)", "(multi (struct (a int)) (struct (b int)))", "(fun () (struct (a (multi int float))))",
    "(mut (mut (mut (multi int float))))", "(arr (arr (arr (multi int (arr float)))))",
    "(fun ((fun ((fun ((multi int float)) int)) int)) int)", "(fun () (tup bool (multi int float)))",
    "(multi int float string bool void)", "(multi (multi int float) string)", "(multi int any)", "(multi int never)",
    "(fun (any never) any)", "(mut any)", "(mut never)", "(arr any)",
    "(tup (fun () int) (fun () (multi int string)) (mut (multi int string)))",
    "(struct (f (fun ((multi int float) (multi string bool)) (multi (mut int) (arr (multi int float))))))",
]

API_ONLY_TYPES = ["(tup int)", "(tup)", "(arr (tup int))", "(fun ((tup)) (tup int))"]


def type_cases(rnd, tier):
    sz = dict(d1=260, d2=400, deep=6000, k=4) if tier == "thorough" else dict(d1=90, d2=80, deep=500, k=2)
    U = typegen.universe(rnd, sz["d1"], sz["d2"])
    deep = []
    for i in range(sz["deep"]):
        deep.append(typegen.random_type(rnd, 3 if i % 3 else 4))
    seen = set()
    out = []
    for t in U + CRAFTED_TYPES + deep:
        if t not in seen and is_printable_type(sx_parse(t)):
            seen.add(t)
            out.append(t)
    return out, sz["k"]


def run_types(rep, tier, env):
    rnd = common.rng("L5.types")
    T, K = type_cases(rnd, tier)
    rep.count("L5.types", len(T))
    rep.sample({"lane": LANE, "type": T[len(T) // 2]})
    ids = [f"(ty-id {t})" for t in T]
    m_id = common.run_cases(common.DRIVER, ids, env=env)
    i_id = common.run_cases(common.HARNESS, ids)
    rep.evaluations += 2 * len(ids)
    for k, t in enumerate(T):
        rep.compared += 1
        if m_id[k] != i_id[k]:
            rep.disagreements.append({"lane": LANE, "case": ids[k], "model": m_id[k], "impl": i_id[k]})

    # --- implementation prints, K rounds with fresh processes (fresh hash seeds)
    texts = []   # per round: printed text per type
    for r in range(K):
        cases = [f"(ty-print {t})" for t in T] + [f"(ty-print-parse {t})" for t in T]
        out = common.run_cases(common.HARNESS, cases)
        rep.evaluations += len(cases)
        rep.distinct.update(cases)
        n = len(T)
        round_texts = []
        for k, t in enumerate(T):
            pr, back = out[k], out[n + k]
            if pr.startswith("!"):
                rep.violations.append({"property": "C15", "lane": LANE, "what": "printing a type failed: " + pr[:120],
                                       "case": cases[k]})
                round_texts.append(None)
                continue
            round_texts.append(sx_unquote(pr))
            rep.compared += 1
            if back != "ok " + i_id[k]:
                rep.violations.append({"property": "C15", "lane": LANE,
                                       "what": f"printed type does not parse back to itself: printed {pr[:200]}, read back {back[:200]}",
                                       "case": cases[n + k], "type": t})
            rep.count("L5.ty_roundtrip_impl")
        texts.append(round_texts)

    # --- the round trip judged by the implementation's own `==` (the canonical texts above are
    # computed by the harness; a Hash/Eq inconsistency of the type representation only shows here)
    eq_cases = [f"(ty-roundtrip-eq {t})" for t in T]
    for c, o in zip(eq_cases, common.run_cases(common.HARNESS, eq_cases)):
        rep.evaluations += 1
        rep.compared += 1
        if o != "true":
            rep.violations.append({"property": "C15", "lane": LANE, "case": c,
                                   "what": "Type::from_str(&t.to_string()) == t is not always true by the implementation's `==`: " + o[:100]})
    rep.count("L5.ty_roundtrip_eq", len(eq_cases))

    # --- the implementation's text is the model's print for the order it happened to use
    distinct_texts = {}
    for r in range(K):
        for k, t in enumerate(T):
            if texts[r][k] is not None:
                distinct_texts.setdefault((k, texts[r][k]), None)
    keys = list(distinct_texts)
    rep.count("L5.distinct_impl_texts", len(keys))
    cases = [f"(ty-parse {sx_str(x)})" for _, x in keys] + [f"(ty-reprint {sx_str(x)})" for _, x in keys]
    out = common.run_cases(common.DRIVER, cases, env=env)
    impl_parse = common.run_cases(common.HARNESS, cases[:len(keys)])
    rep.evaluations += len(cases) + len(keys)
    for j, (k, x) in enumerate(keys):
        rep.compared += 2
        parsed, reprint = out[j], out[len(keys) + j]
        if parsed != "ok " + m_id[k]:
            rep.disagreements.append({"lane": LANE, "case": cases[j], "what": "model parses the implementation's text to another type",
                                      "model": parsed, "impl": "printed from " + T[k]})
        if reprint != sx_str(x):
            rep.disagreements.append({"lane": LANE, "case": cases[len(keys) + j],
                                      "what": "model prints the parsed type differently from the implementation",
                                      "model": reprint, "impl": sx_str(x)})
        if impl_parse[j] != parsed:
            rep.disagreements.append({"lane": LANE, "case": cases[j], "model": parsed, "impl": impl_parse[j]})

    # --- small types: the text must be one of the model's prints over all orders (no parser)
    small_cases, owner = [], []
    for k, t in enumerate(T):
        orders = all_orders(sx_parse(t), 24)
        if orders is None:
            continue
        for o in orders:
            small_cases.append(f"(ty-print {sx_show(o)})")
            owner.append(k)
    out = common.run_cases(common.DRIVER, small_cases, env=env)
    rep.evaluations += len(small_cases)
    prints = {}
    for k, o in zip(owner, out):
        prints.setdefault(k, set()).add(o)
    for k, ps in prints.items():
        for r in range(K):
            if texts[r][k] is None:
                continue
            rep.compared += 1
            rep.count("L5.ty_print_in_model_orders")
            if sx_str(texts[r][k]) not in ps:
                rep.disagreements.append({"lane": LANE, "case": f"(ty-print {T[k]})",
                                          "what": "implementation's text is not among the model's prints over all orders",
                                          "model": " / ".join(sorted(ps))[:400], "impl": sx_str(texts[r][k])})

    # --- model-level round trip for random orders
    n_orders = 4 if tier == "thorough" else 2
    cases, owner = [], []
    for k, t in enumerate(T):
        tree = sx_parse(t)
        for _ in range(n_orders):
            cases.append(f"(ty-print-parse {sx_show(permute_type(tree, rnd))})")
            owner.append(k)
    out = common.run_cases(common.DRIVER, cases, env=env)
    rep.evaluations += len(cases)
    rep.distinct.update(cases)
    for c, k, o in zip(cases, owner, out):
        rep.compared += 1
        rep.count("L5.ty_roundtrip_model")
        if o != "ok " + m_id[k]:
            rep.violations.append({"property": "C15", "lane": LANE,
                                   "what": "MODEL: tp_parse_type (print_ty T') differs from T (theorem/model mismatch): " + o[:200],
                                   "case": c})

    # --- type_filter re-parses the printed type at run time: never a panic
    progs = []
    for k, t in enumerate(T):
        for x in sorted({texts[r][k] for r in range(K) if texts[r][k] is not None}):
            src = '([1, 2.5, "s", true, (), [1], (1, 2)]~ ? ' + x + ") $]"
            progs.append((k, "(run " + sx_str(src) + ")"))
    out = common.run_cases(common.HARNESS, [p for _, p in progs])
    rep.evaluations += len(progs)
    for (k, p), o in zip(progs, out):
        rep.compared += 1
        rep.count("L5.type_filter." + o.split(" ")[0])
        if o.startswith("!") and "Parsing" in o:
            rep.violations.append({"property": "C15", "lane": LANE,
                                   "what": "type filter: the printed type does not parse inside the generated helper: " + o[:200],
                                   "case": p})
        elif o.startswith("!"):
            # the printed type parsed; the panic has another cause (not a C15 matter)
            rep.violations.append({"property": "C02", "lane": LANE,
                                   "what": "type filter panics at run time: " + o[:160], "case": p})

    # --- types that cannot be written in the language (0- and 1-tuples): observation only
    cases = [f"(ty-print {t})" for t in API_ONLY_TYPES] + [f"(ty-print-parse {t})" for t in API_ONLY_TYPES]
    m, i = common.run_cases(common.DRIVER, cases, env=env), common.run_cases(common.HARNESS, cases)
    rep.evaluations += 2 * len(cases)
    for c, x, y in zip(cases, m, i):
        rep.compared += 1
        if x != y:
            rep.disagreements.append({"lane": LANE, "case": c, "model": x, "impl": y})
    n = len(API_ONLY_TYPES)
    rep.note("L5: tuple types with fewer than 2 members (constructible through the Rust API only) do not survive printing: "
             + "; ".join(f"{t} prints {i[k]} reads {i[n + k]}" for k, t in enumerate(API_ONLY_TYPES[:2])))


# --------------------------------------------------------------------------- value cases

def fbits(x):
    return struct.unpack("<Q", struct.pack("<d", x))[0]


BOUNDARY_FLOATS = [0.0, -0.0, 1.0, -1.0, 0.1, 0.2, 0.3, 1.5, 2.5, 1e15, 1e16, 9999999999999998.0, 9007199254740992.0,
                   9007199254740993.0, 1.2345e16, 1e17, 1e21, 1e22, 1e23, 1e100, 1e308, 1.7976931348623157e308,
                   1e-3, 1e-4, 0.00011, 9.999e-5, 1e-5, 1e-7, 1.5e-7, 1e-300, 2.2250738585072014e-308, 2.225073858507201e-308,
                   5e-324, 1e-323, 4.9406564584124654e-321, 1 / 3, 2 / 3, 123456.789, 100.0, 1000000.0, 123456789012345680.0,
                   0.30000000000000004, 5e-5, 12345678.9, 4.35, 0.000123456, 2.0 ** 63, 2.0 ** 64, -2.0 ** 63, 1e-10, 8.41e21,
                   2.98023223876953125e-8, 9.5367431640625e-7, 1.1125369292536007e-308, 3.14159, -123.456e-20, 6.02214076e23]
NONFINITE = [float("inf"), float("-inf"), float("nan")]

BOUNDARY_INTS = [0, 1, -1, 7, 10, 42, -42, 99, 100, 1000, 10 ** 18, -10 ** 18, MAX_INT, MAX_INT - 1, MIN_INT, MIN_INT + 1,
                 -MAX_INT, 2 ** 32, -2 ** 31, 2 ** 62, 9, 19, 999999999]

BOUNDARY_STRINGS = ["", "a", "hello world", 'a"b', "\\", "a\\nb", "\n", "\t\r\n", "\0", "\0" + "1", "\0" + "7", "\0" + "8",
                    "\0" + "0", "\0\0", "\0" + "12", "x\0" + "377", "\x01", "\x1b[0m", "\x7f", "\x80", "\u00a0", "\u00ad",
                    "é", "e\u0301", "\u0301", "\u0301x", "😀", "\U0001f468\u200d\U0001f469", "\u200b", "\u2028", "\u2029",
                    "\ufeff", "\U000e0100", "\U0010ffff", "\ud7ff", "\ue000", "'", "/", "\\u{41}", "{}", "\\\"", '"', '""',
                    "\\0", "\\01", "a\\", "//", "/* */", " ", "  x  ", "\u3000", "tab\there", "ὠ", "\u0600", "\u070f",
                    "\u08e2", "\U000110bd", "\u1160", "\u3164", "\uffa0", "\U0001d173", "\u0e33", "\u09be", "\ufff9", "[1, 2]",
                    "-5", "true", "()"]


def sx_val_int(n):
    return f"(i {n})"


def sx_val_float(x):
    return f"(f {fbits(x)})" if x == x else "(f 9221120237041090560)"


def sx_val_str(s):
    return f"(s {sx_str(s)})"


def random_string(rnd):
    alphabet = ["a", "b", "z", "0", "1", "7", "8", " ", '"', "\\", "\0", "\n", "\t", "\r", "\x01", "\x7f", "é", "\u0301",
                "😀", "\u200b", "'", "/", "{", "}", "u", "x", "n", "\u00a0", "\u2028", "\U000e0100", "\ue000"]
    return "".join(rnd.choice(alphabet) for _ in range(rnd.randrange(0, 7)))


def random_float(rnd):
    while True:
        b = rnd.getrandbits(64)
        x = struct.unpack("<d", struct.pack("<Q", b))[0]
        if x == x and x not in (float("inf"), float("-inf")):
            return x


def random_scalar(rnd, special):
    """(sexp, tags): special = allow the scalars with known round-trip problems"""
    c = rnd.randrange(10)
    if c < 3:
        pool = BOUNDARY_INTS if special else [n for n in BOUNDARY_INTS if n != MIN_INT]
        n = rnd.choice(pool) if rnd.random() < 0.6 else rnd.randrange(MIN_INT + 1, MAX_INT + 1)
        return sx_val_int(n), {"min"} if n == MIN_INT else set()
    if c < 5:
        x = rnd.choice(BOUNDARY_FLOATS) if rnd.random() < 0.6 else random_float(rnd)
        return sx_val_float(x), set()
    if c < 8:
        s = rnd.choice(BOUNDARY_STRINGS) if rnd.random() < 0.6 else random_string(rnd)
        tags = set()
        if any(s[i] == "\0" and s[i + 1] in "01234567" for i in range(len(s) - 1)):
            if not special:
                s = s.replace("\0", "q")
            else:
                tags.add("nul-digit")
        return sx_val_str(s), tags
    if c == 8:
        return f"(b {rnd.choice(['true', 'false'])})", set()
    return "void", set()


def random_value(rnd, depth, special, tuples=True):
    """nested first-order value of nesting <= depth"""
    if depth <= 0 or rnd.random() < 0.3:
        return random_scalar(rnd, special)
    n = rnd.randrange(0, 4)
    if tuples and rnd.random() < 0.4:
        n = max(n, 2)
        parts = [random_value(rnd, depth - 1, special, tuples) for _ in range(n)]
        tags = set().union(*[p[1] for p in parts]) | {"tuple"}
        return "(tup " + " ".join(p[0] for p in parts) + ")", tags
    parts = [random_value(rnd, depth - 1, special, tuples) for _ in range(n)]
    tags = set().union(*[p[1] for p in parts]) if parts else set()
    return "(arr" + "".join(" " + p[0] for p in parts) + ")", tags


def nest(kind, inner, levels):
    for _ in range(levels):
        inner = f"({kind} {inner})" if kind == "arr" else f"(tup {inner} (i 0))"
    return inner


def value_cases(rnd, tier):
    """list of (sexp, tags).  tags: min, nul-digit, tuple, deep (beyond the printer's depth),
    scope-out (cells, functions, structs, non-finite floats: printing only)"""
    out = []
    for n in BOUNDARY_INTS:
        out.append((sx_val_int(n), {"min"} if n == MIN_INT else set()))
    for x in BOUNDARY_FLOATS:
        out.append((sx_val_float(x), set()))
        out.append((sx_val_float(-x), set()))
    for s in BOUNDARY_STRINGS:
        tags = {"nul-digit"} if any(s[i] == "\0" and s[i + 1] in "01234567" for i in range(len(s) - 1)) else set()
        out.append((sx_val_str(s), tags))
    out += [("(b true)", set()), ("(b false)", set()), ("void", set()), ("(arr)", set()), ("(arr (arr))", set()),
            ("(arr (arr) (arr (i 1)))", set()), ("(arr (i 1) (f %d))" % fbits(1.0), set()),
            ("(arr (s \"a\") void (b true))", set()), ("(tup (i 1) (i 2))", {"tuple"}),
            ("(tup (i 1) (tup (s \"x\") void))", {"tuple"}), ("(arr (tup (i 1) (i 2)) (tup (i 3) (i 4)))", {"tuple"}),
            ("(arr (i %d))" % MIN_INT, {"min"}), ("(arr (s \"\\u{0}1\"))", {"nul-digit"})]
    # depth: arrays print their contents down to nesting 6 for ints/floats/strings, 5 otherwise
    for levels in range(1, 9):
        for leaf in ["(i 1)", "(b true)", "void", "(s \"x\")", "(arr)", "(f %d)" % fbits(0.5)]:
            v = nest("arr", leaf, levels)
            shown = levels <= 5 or (levels == 6 and leaf not in ("(b true)", "void", "(arr)"))
            out.append((v, set() if shown else {"deep"}))
            v = nest("tup", leaf, levels)
            out.append((v, {"tuple"} if shown else {"tuple", "deep"}))
    # width: long arrays and tuples (in the language a literal may have any number of elements), at top
    # level and nested, with elements of every scalar kind
    for n in (5, 6, 7, 63, 64, 65, 66, 100, 257, 1000):
        ints = " ".join(f"(i {k})" for k in range(n))
        out.append((f"(arr {ints})", set()))
        out.append((f"(arr (arr {ints}) (arr))", set()))
        out.append((f"(tup {ints})", {"tuple"}))
        out.append(("(arr " + " ".join('(s "x")' for _ in range(n)) + ")", set()))
        out.append(("(arr " + " ".join("(arr)" for _ in range(n)) + ")", set()))
        out.append(("(arr " + " ".join("(f %d)" % fbits(0.5) for _ in range(n)) + ")", set()))
        out.append((sx_val_str("ab" * n), set()))
    n_rand = 40000 if tier == "thorough" else 4000
    for i in range(n_rand):
        out.append(random_value(rnd, 1 + i % 5, special=(i % 4 == 0), tuples=(i % 2 == 0)))
    # printing only: cells, functions, structs, non-finite floats
    so = {"scope-out"}
    for x in NONFINITE:
        out.append((sx_val_float(x), so))
    out += [("(mutv int (i 3))", so), ("(mutv (multi int float) (i 3))", so), ("(mutv (arr int) (arr (i 1)))", so),
            ("(mutv (mut int) (mutv int (i 1)))", so), ("(mutv string (s \"a\\\"b\"))", so),
            ("(arr (mutv int (i 3)))", so), ("(tup (mutv float (f %d)) (i 1))" % fbits(1.0), so),
            ("(funv () int)", so), ("(funv ((x int)) int)", so), ("(funv ((x int) (y (multi int float))) (multi int float))", so),
            ("(funv ((f (fun (int) int))) (fun () (multi int float)))", so), ("(arr (funv ((a any)) never))", so),
            ("(struct)", so), ("(struct (a (i 1)))", so), ("(struct (a (i 1)) (b (s \"x\")))", so),
            ("(struct (a (struct (b (struct (c (b true)))))))", so), ("(struct (a (arr (struct (b (f %d))))))" % fbits(1.0), so),
            ("(tup (f %d) (s \"a\\\"b\") (struct (k (s \"q\"))))" % fbits(1.0), so)]
    for levels in range(1, 8):
        out.append((nest("arr", "(mutv int (i 3))", levels), so))
        out.append((nest("arr", "(mutv bool (b true))", levels), so))
        out.append((nest("arr", "(struct (a (b true)) (n (i 1)))", levels), so))
        inner = "(b true)"
        for _ in range(levels):
            inner = f"(mutv any {inner})"
        out.append((inner, so))
        inner = "(b true)"
        for _ in range(levels):
            inner = f"(struct (s {inner}))"
        out.append((nest("arr", inner, 5), so))
    seen = set()
    res = []
    for v, tags in out:
        if v not in seen:
            seen.add(v)
            res.append((v, tags))
    return res


def classify(tags):
    for t in ("min", "nul-digit", "tuple"):
        if t in tags:
            return t
    return "plain"


# the three defects this lane found (S11, S12 and the missing tuple arm) were repaired in /repo
# (fa6d4dd, 1aee34b, c639add); the labels keep a regression recognisable
WHAT = {
    "min": "MIN_INT does not read back from its debug text",
    "nul-digit": "a string with NUL followed by an octal digit does not read back from its debug text",
    "tuple": "a tuple value does not read back from its debug text",
    "plain": "the debug text does not read back to the value",
}


def run_values(rep, tier, env):
    rnd = common.rng("L5.values")
    V = value_cases(rnd, tier)
    rep.count("L5.values", len(V))
    rep.sample({"lane": LANE, "value": V[len(V) // 3][0]})
    # printing only (cells, functions, structs, non-finite floats): the implementation's text must be
    # the model's text for some order of struct fields / union members
    Vout = [v for v, tags in V if "scope-out" in tags]
    V = [(v, tags) for v, tags in V if "scope-out" not in tags]
    for b in ("val-debug", "val-display"):
        mcases, owner = [], []
        for k, v in enumerate(Vout):
            orders = all_orders(sx_parse(v), 24) or [sx_parse(v)]
            for o in orders:
                mcases.append(f"({b} {sx_show(o)})")
                owner.append(k)
        icases = [f"({b} {v})" for v in Vout]
        mo = common.run_cases(common.DRIVER, mcases, env=env)
        io = common.run_cases(common.HARNESS, icases)
        rep.evaluations += len(mcases) + len(icases)
        rep.distinct.update(icases)
        sets = {}
        for k, o in zip(owner, mo):
            sets.setdefault(k, set()).add(o)
        for k, c in enumerate(icases):
            rep.compared += 1
            rep.count("L5.val.print_only")
            if io[k] not in sets[k]:
                rep.disagreements.append({"lane": LANE, "case": c, "model": " / ".join(sorted(sets[k]))[:600], "impl": io[k]})
    vals = [v for v, _ in V]
    blocks = ["val-id", "val-debug", "val-display", "val-roundtrip"]
    cases = [f"({b} {v})" for b in blocks for v in vals]
    m = common.run_cases(common.DRIVER, cases, env=env)
    i = common.run_cases(common.HARNESS, cases)
    rep.evaluations += 2 * len(cases)
    rep.distinct.update(cases)
    n = len(V)
    for k, c in enumerate(cases):
        rep.compared += 1
        if m[k] != i[k]:
            rep.disagreements.append({"lane": LANE, "case": c, "model": m[k], "impl": i[k]})
    progs = [f"(val-as-program {v})" for v in vals]
    ip = common.run_cases(common.HARNESS, progs)
    rep.evaluations += len(progs)
    for k, (v, tags) in enumerate(V):
        vid, rt, prog = i[k], i[3 * n + k], ip[k]
        if "deep" in tags:
            rep.count("L5.val.elided")
            continue
        rep.count("L5.val.in_scope")
        sp = split_quoted(rt)
        if sp is None:
            rep.violations.append({"property": "C20", "lane": LANE, "what": "printing a value failed: " + rt[:160], "case": cases[3 * n + k]})
            continue
        text, back = sp
        rep.compared += 2
        kind = classify(tags)
        if back != "ok " + vid:
            rep.count("L5.val.roundtrip_fails." + kind)
            rep.violations.append({"property": "C20", "lane": LANE,
                                   "what": WHAT[kind] + f" [{kind}]",
                                   "case": f"(val-roundtrip {v})", "text": text, "read": back[:300]})
        else:
            rep.count("L5.val.roundtrip_ok")
        if prog != "ok " + vid:
            if "min" in tags:
                rep.count("L5.val.program_min_excluded")
            else:
                pk = "nul-digit" if "nul-digit" in tags else "plain"
                rep.count("L5.val.program_fails." + pk)
                rep.violations.append({"property": "C20", "lane": LANE,
                                       "what": ("run as a program, " + WHAT[pk] if pk != "plain" else
                                                "the debug text run as a program does not yield the value") + f" [{pk}]",
                                       "case": f"(val-as-program {v})", "text": text, "result": prog[:300]})
        else:
            rep.count("L5.val.program_ok")


# --------------------------------------------------------------------------- reading

def int_literal_cases(rnd, tier):
    """(text, expected by from_str, expected as a program); None = rejected as too big"""
    out = []
    vals = [0, 1, 7, 8, 15, 16, 255, 1000, 2 ** 31, 2 ** 62, MAX_INT - 1, MAX_INT, MAX_INT + 1, MAX_INT + 2, 2 ** 64 - 1, 2 ** 64,
            2 ** 64 + 1, 10 ** 19, 10 ** 30, 2 ** 100]
    n_rand = 2500 if tier == "thorough" else 250
    vals += [rnd.getrandbits(rnd.randrange(1, 70)) for _ in range(n_rand)]

    def under(digits, lead):
        s = ""
        for j, ch in enumerate(digits):
            if (j > 0 or lead) and rnd.random() < 0.2:
                s += "_" * rnd.randrange(1, 3)
            s += ch
        if lead and rnd.random() < 0.3:
            s = "_" + s
        if rnd.random() < 0.3:
            s += "_"
        return s
    for v in vals:
        forms = [("", "%d" % v, False), ("0b", bin(v)[2:], True), ("0o", oct(v)[2:], True), ("0x", "%x" % v, True),
                 ("0x", "%X" % v, True), ("", "0" * 3 + "%d" % v, False), ("0x", "000" + "%x" % v, True)]
        for prefix, digits, lead in forms:
            for variant in (digits, under(digits, lead)):
                text = prefix + variant
                exp = v if v <= MAX_INT else None
                out.append((text, exp, exp))
                # behind a '-': from_str hands the sign to from_str_radix (MIN_INT is read); a program
                # negates the literal (the magnitude of MIN_INT is too big: the property's exception)
                out.append(("-" + text, -v if v <= MAX_INT + 1 else None, -v if v <= MAX_INT else None))
    seen = set()
    res = []
    for t, e, ep in out:
        if t not in seen:
            seen.add(t)
            res.append((t, e, ep))
    return res


READ_TEXTS = [
    " 15", " -7", " 1__00_5__", " 0b111 ", " 0b_1_11_ ", " 0o_17__6_ ", " 0x__FA___6___ ", " 7.5 ", " -5.0 ", " 5e25 ",
    " 6E_25 ", " 6E-25 ", " 6.5e-5 ", "1e1_0", "1.5E+3", "1_0.2_5", "1e+_5", "- 5", "-\t5", "- 5.5", "-\t5.5", "-\n5.5", "-/*c*/5",
    "- 1_0.5", "--5", "+5", "5.", ".5", "1e", "1e5.5", "0x", "0b2", "0o8", "0xg", "0b", "_1", "0_", "00", "0x_", "1 2",
    "[ 1 , 2 ]", "[1,2,]", "[,]", "[1;3]", "[\"a\";2]", "[1;0]", "[[1;2];2]", "[1;0x3]", "[1;-1]", "[1; 1_0]", "[1 ;2]",
    "[ ]", "[]", "[[]]", "[[], [1]]", "[1, 1.5, \"s\", true, ()]", "( 1 , 2 )", "(1, 2)", "(1)", "()", "( )", "true", "false",
    "True", "truex", "true false", "struct{}", "struct{a:=1}", "struct { a := 1 , b := \"x\" }", "struct{a:=1,a:=2}",
    "struct{a:=1,}", "struct{a=1}", "struct{a: 1}", "struct{a:=struct{b:=[1]}}", "struct{a:=(1,2)}", "struct{mut:=1}",
    "struct{mutx:=1}", "struct{a}", "\"abc\"", "\"\"", "\"a\\\"b\"", "\"a\\\\b\"", "\"\\n\\t\\r\\b\\f\"", "\"\\'\\/\"",
    "\"\\x41\"", "\"\\x4\"", "\"\\xzz\"", "\"\\x+f\"", "\"\\x-f\"", "\"\\xff\"", "\"\\u0041\"", "\"\\u004\"", "\"\\u{41}\"",
    "\"\\u{+41}\"", "\"\\u{}\"", "\"\\u{41\"", "\"\\u{d800}\"", "\"\\u{dfff}\"", "\"\\u{10ffff}\"", "\"\\u{110000}\"",
    "\"\\u{ffffffff}\"", "\"\\u{100000000}\"", "\"\\u{41}}\"", "\"\\ud800\"", "\"\\u+041\"", "\"\\101\"", "\"\\0\"", "\"\\01\"",
    "\"\\012\"", "\"\\0123\"", "\"\\377\"", "\"\\400\"", "\"\\477\"", "\"\\777\"", "\"\\8\"", "\"\\9\"", "\"\\q\"", "\"\\ \"",
    "\"\\08\"", "\"\\1a\"", "\"\\7\"", "\"\\78\"", "\"\\\"", "\"a", "a\"", "\"a\" \"b\"", "\"\\u{1F600}\"", "\"é\\u{301}\"",
    "\" a \"", "  \"a\"  ", "\u00a0\"a\"\u00a0", "\u30001\u3000", "\u200b1", "1\u200b", "\"a\nb\"", "\"a//b\"", "[1, // c\n 2]",
    "[1, /* c */ 2]", "/* c */ 1", "1 /* c */", "1 // c", "inf", "NaN", "-inf", "1e400", "-1e400", "1e-400", "0.0", "-0.0",
    "-0", "- 0", "9223372036854775807", "9223372036854775808", "-9223372036854775807", "-9223372036854775808",
    "-9223372036854775809", "0x8000000000000000", "-0x8000000000000000", "0x7fffffffffffffff", "[9223372036854775808]",
    "[1, 9223372036854775808, \"\\q\"]", "[\"\\q\", 9223372036854775808]", "struct{a:=9223372036854775808}",
]


def escape_fuzz(rnd, n):
    atoms = ["\\", "\\\\", "\\\"", "u", "x", "{", "}", "+", "-", "0", "1", "3", "4", "7", "8", "9", "a", "f", "F", "g", "n", "t",
             "r", "b", "'", "/", "d8", "00", "\\u{", "\\x", "\\u", "\\0", " ", "é", "😀"]
    out = []
    for _ in range(n):
        body = "".join(rnd.choice(atoms) for _ in range(rnd.randrange(1, 7)))
        out.append('"' + body + '"')
    return out


def run_reading(rep, tier, env):
    rnd = common.rng("L5.read")
    lits = int_literal_cases(rnd, tier)
    rep.count("L5.int_literals", len(lits))
    texts = [t for t, _, _ in lits] + READ_TEXTS + escape_fuzz(rnd, 60000 if tier == "thorough" else 6000)
    cases = [f"(val-read {sx_str(t)})" for t in texts]
    m = common.run_cases(common.DRIVER, cases, env=env)
    i = common.run_cases(common.HARNESS, cases)
    rep.evaluations += 2 * len(cases)
    rep.distinct.update(cases)
    for k, c in enumerate(cases):
        rep.compared += 1
        rep.count("L5.read." + i[k].split(" ")[0] + ("." + i[k].split(" ")[1] if i[k].startswith("reject") else ""))
        if m[k] != i[k]:
            rep.disagreements.append({"lane": LANE, "case": c, "model": m[k], "impl": i[k]})
    # oracle: every integer literal form denotes its mathematical value or is rejected as too big
    progs = [f"(run-text {sx_str(t)})" for t, _, _ in lits]
    ip = common.run_cases(common.HARNESS, progs)
    rep.evaluations += len(progs)
    for k, (t, exp, exp_prog) in enumerate(lits):
        rep.compared += 2
        want = f"ok (i {exp})" if exp is not None else "reject IntegerOverflow"
        want_prog = f"ok (i {exp_prog})" if exp_prog is not None else "reject IntegerOverflow"
        if i[k] != want:
            rep.violations.append({"property": "C20", "lane": LANE,
                                   "what": f"integer literal read by Variable::from_str: expected {want}, got {i[k][:100]}",
                                   "case": cases[k]})
        if ip[k] != want_prog:
            rep.violations.append({"property": "C20", "lane": LANE,
                                   "what": f"integer literal as a program: expected {want_prog}, got {ip[k][:100]}",
                                   "case": progs[k]})
        rep.count("L5.int_literal." + ("value" if exp is not None else "too_big"))


# --------------------------------------------------------------------------- external parameters

def py_needs_escape(c):
    """independent prediction of P: not printable (Other / Separator except ' ') or Grapheme_Extend
    (approximated by Mn / Me + the few Other_Grapheme_Extend characters); Unicode version of the
    host's Python, which may be older or newer than the toolchain's"""
    ch = chr(c)
    cat = unicodedata.category(ch)
    if cat in ("Cc", "Cf", "Cs", "Co", "Cn", "Zl", "Zp") or (cat == "Zs" and c != 32):
        return True
    return cat in ("Mn", "Me")


def esc_table(rep):
    out = common.run_cases(common.HARNESS, ["(esc-table)"])[0]
    if out.startswith("!"):
        rep.disagreements.append({"lane": LANE, "case": "(esc-table)", "model": "", "impl": out})
        return None, []
    ranges = []
    for tok in out.split():
        a, b = tok.split("-")
        ranges.append((int(a), int(b)))
    os.makedirs(common.BUILD, exist_ok=True)
    path = os.path.join(common.BUILD, "esc_table.txt")
    with open(path, "w") as f:
        f.write("\n".join(f"{a}-{b}" for a, b in ranges) + "\n")
    return path, ranges


def run_params(rep, tier, env, ranges):
    rnd = common.rng("L5.params")
    # P: shape facts the theorems use + sampled comparison with an independent definition
    def in_table(c):
        return any(a <= c <= b for a, b in ranges)
    bad = [c for c in range(32, 127) if in_table(c) and c not in (34, 92)]
    missing = [c for c in list(range(0, 32)) + [127] if not in_table(c)]
    if bad or missing:
        rep.disagreements.append({"lane": LANE, "case": "(esc-table)", "what": "unexpected shape of the escape table on ASCII",
                                  "model": "printable ASCII unescaped, controls escaped", "impl": f"bad={bad} missing={missing}"})
    samples = list(range(0, 0x400)) + [rnd.randrange(0x400, 0x30000) for _ in range(4000)] + \
        [rnd.randrange(0xE0000, 0xE0200) for _ in range(100)] + [0xD7FF, 0xE000, 0xFFFD, 0xFFFE, 0xFFFF, 0x10FFFF]
    agree = 0
    skew = []
    for c in samples:
        if 0xD800 <= c <= 0xDFFF or c in (34, 92):
            continue
        if in_table(c) == py_needs_escape(c):
            agree += 1
        else:
            skew.append(c)
    rep.count("L5.P.sampled_agree_with_unicodedata", agree)
    rep.count("L5.P.sampled_differ_from_unicodedata", len(skew))
    if skew:
        rep.note("L5: P differs from the host's unicodedata (%s) on %d of %d sampled code points (Unicode version skew / "
                 "Other_Grapheme_Extend), e.g. %s" % (unicodedata.unidata_version, len(skew), agree + len(skew),
                                                       " ".join("U+%04X" % c for c in skew[:8])))
    # every code point of the table region boundaries: model text = implementation text
    pts = set()
    for a, b in ranges:
        pts.update([a - 1, a, b, b + 1])
    pts = sorted(c for c in pts if 0 <= c <= 0x10FFFF and not 0xD800 <= c <= 0xDFFF)
    if tier != "thorough":
        pts = pts[::4]
    cases = [f"(val-debug {sx_val_str('a' + chr(c) + 'b')})" for c in pts]
    m, i = common.run_cases(common.DRIVER, cases, env=env), common.run_cases(common.HARNESS, cases)
    rep.evaluations += 2 * len(cases)
    for c, x, y in zip(cases, m, i):
        rep.compared += 1
        if x != y:
            rep.disagreements.append({"lane": LANE, "case": c, "model": x, "impl": y})
    rep.count("L5.P.boundary_points", len(pts))

    # floats: the driver's {:?} / {} / parse against Rust's
    fl = list(BOUNDARY_FLOATS) + [-x for x in BOUNDARY_FLOATS] + NONFINITE
    for e in range(-324, 309, 1 if tier == "thorough" else 7):
        try:
            fl.append(float("1e%d" % e))
            fl.append(float("9.999999999999999e%d" % e))
        except (ValueError, OverflowError):
            pass
    for p in range(-1074, 1024, 1 if tier == "thorough" else 13):
        fl.append(2.0 ** p)
    fl += [random_float(rnd) for _ in range(150000 if tier == "thorough" else 15000)]
    # random floats in the decimal-notation band, and short decimals (ties and near-ties of the
    # shortest-digits search)
    fl += [rnd.uniform(-1, 1) * 10 ** rnd.randrange(-6, 18) for _ in range(50000 if tier == "thorough" else 5000)]
    fl += [float("%de%d" % (rnd.randrange(1, 10 ** rnd.randrange(1, 17)), rnd.randrange(-30, 30)))
           for _ in range(50000 if tier == "thorough" else 5000)]
    bits = sorted({fbits(x) for x in fl if x == x}) + ["nan"]
    cases = [f"(float-debug {b})" for b in bits if b != "nan"] + [f"(float-display {b})" for b in bits if b != "nan"]
    m, i = common.run_cases(common.DRIVER, cases, env=env), common.run_cases(common.HARNESS, cases)
    rep.evaluations += 2 * len(cases)
    nb = len(bits) - 1
    reads = []
    for k, (c, x, y) in enumerate(zip(cases, m, i)):
        rep.compared += 1
        if x != y:
            rep.disagreements.append({"lane": LANE, "case": c, "what": "float rendering parameter of the model differs from Rust's",
                                      "model": x, "impl": y})
        if k < nb and not y.startswith("!"):
            reads.append((bits[k], sx_unquote(y)))
    rep.count("L5.float.rendered", len(cases))
    # shape hypothesis + parse inverts print (finite floats)
    import re
    shape = re.compile(r"^-?[0-9]+(\.[0-9]+)?(e-?[0-9]+)?$")
    rcases = []
    for b, t in reads:
        x = struct.unpack("<d", struct.pack("<Q", b))[0]
        if x in (float("inf"), float("-inf")):
            continue
        if not shape.match(t) or ("." not in t and "e" not in t):
            rep.violations.append({"property": "C20", "lane": LANE,
                                   "what": "float debug text outside the assumed shape -?d+(.d+)?(e-?d+)? with '.' or 'e': " + t,
                                   "case": f"(float-debug {b})"})
        rcases.append((b, f"(float-read {sx_str(t)})"))
    m = common.run_cases(common.DRIVER, [c for _, c in rcases], env=env)
    i = common.run_cases(common.HARNESS, [c for _, c in rcases])
    rep.evaluations += 2 * len(rcases)
    for (b, c), x, y in zip(rcases, m, i):
        rep.compared += 2
        if x != y:
            rep.disagreements.append({"lane": LANE, "case": c, "what": "float parsing parameter of the model differs from Rust's",
                                      "model": x, "impl": y})
        if y != f"ok {b}":
            rep.violations.append({"property": "C20", "lane": LANE,
                                   "what": f"str::parse::<f64> does not invert the float's debug text: got {y}, float bits {b}",
                                   "case": c})
    rep.count("L5.float.read_back", len(rcases))


# --------------------------------------------------------------------------- entry

def run(rep, tier, props=("C15", "C20")):
    path, ranges = esc_table(rep)
    env = {"VERIF_ESC_TABLE": path} if path else None
    if "C15" in props:
        run_types(rep, tier, env)
    if "C20" in props:
        run_values(rep, tier, env)
        run_reading(rep, tier, env)
        if ranges:
            run_params(rep, tier, env, ranges)


def run_c15(rep, tier):
    return run(rep, tier, props=("C15",))


def run_c20(rep, tier):
    return run(rep, tier, props=("C20",))


if __name__ == "__main__":
    import json
    import sys
    import time
    tier = sys.argv[1] if len(sys.argv) > 1 else "quick"
    rep = common.Report("C15+C20", tier)
    t0 = time.time()
    run(rep, tier)
    print(json.dumps({"seconds": round(time.time() - t0, 1), "evaluations": rep.evaluations, "compared": rep.compared,
                      "disagreements": len(rep.disagreements), "violations": len(rep.violations),
                      "dist": rep.dist}, indent=1, sort_keys=True))
    with open(os.path.join(common.BUILD, "dbg_l5_print.json"), "w") as f:
        json.dump({"disagreements": rep.disagreements[:2000], "violations": rep.violations[:5000]}, f, indent=1)

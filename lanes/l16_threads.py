"""Lane L16 — thread safety (C16): a parsed program's function value is called from T threads
K times each; shared cells must count exactly, unshared runs must equal the sequential result,
nothing may deadlock (timeout) or panic."""
from . import common, l7_programs


def q(text):
    return '"' + l7_programs.esc(text) + '"'


def run(rep, tier):
    T, K = (16, 400) if tier == "thorough" else (8, 150)
    ops = [("+=", 1, lambda n: n), ("-=", 1, lambda n: -n), ("+=", 3, lambda n: 3 * n), ("^=", 0, lambda n: 0),
           ("|=", 1, lambda n: 1 if n else 0), ("*=", 1, lambda n: 0)]
    cases, checks = [], []
    for op, v, f in ops:
        init = 0
        cases.append(f'(threads {T} {K} ' + q(f"c := mut {init}; f := (t: int) -> int {{ return c {op} {v}; }}; (f, c)") + ")")
        checks.append(("shared", f"(mut 0 (i {f(T * K)}))"))
    # shared through aliases: array element, struct field, captured by two closures, cell of cell
    cases.append(f'(threads {T} {K} ' + q("c := mut 0; a := [c]; f := (t: int) -> int { return a[0] += 1; }; (f, c)") + ")")
    checks.append(("shared", f"(mut 0 (i {T * K}))"))
    cases.append(f'(threads {T} {K} ' + q("c := mut 0; s := struct{x := c}; g := () -> mut int { return s.x; }; f := (t: int) -> int { return g() += 2; }; (f, c)") + ")")
    checks.append(("shared", f"(mut 0 (i {2 * T * K}))"))
    cases.append(f'(threads {T} {K} ' + q("c := mut 0; cc := mut c; f := (t: int) -> int { return *cc += 1; }; (f, *cc)") + ")")
    checks.append(("shared", f"(mut 0 (i {T * K}))"))
    # array-valued cell: every append must survive
    cases.append(f'(threads {T} {K} ' + q("c := mut [int] []; f := (t: int) -> int { return std.len(c += [t]); }; (f, std.len(*c))") + ")")
    checks.append(("len-after", None))
    # unshared: each call builds its own cell and iterator pipeline; result must equal the sequential one
    seq_prog = "f := (t: int) -> int { c := mut 0; for x in [1, 2, 3, 4]~ @ (y: int) -> int { return y * 2; } ? (z: int) -> bool { return z > 2; } { c += x; }; return *c + ([5, 6]~ $+) + ([7]~ $* ); }; (f, 0)"
    cases.append(f'(threads {T} {K} ' + q(seq_prog) + ")")
    checks.append(("unshared", "(ok (i 36))"))
    # unshared, deeply recursive: the depth reached by one thread must not depend on the others
    cases.append(f'(threads {T} {K // 5 + 1} ' + q("sum_to := (n: int) -> int { if n == 0 return 0; return n + sum_to(n - 1); }; f := (t: int) -> int { return sum_to(100); }; (f, 0)") + ")")
    checks.append(("unshared", "(ok (i 5050))"))
    # unshared, every value-producing construct that creates state per evaluation (iterators over literal
    # arrays, type filters with cell defaults, fresh cells): the same Function run by all threads
    cases.append(f'(threads {T} {K // 5 + 1} ' + q("end_of := (cells: [mut int]) -> mut int { it := cells~ ? mut int; return it().1; }; f := (t: int) -> int { a := end_of([]); a += 41; b := end_of([]); s := mut 0; for x in [1, 2, 3]~ { s += x; }; return *a * 1000 + *b * 100 + *s; }; (f, 0)") + ")")
    checks.append(("unshared", "(ok (i 41006))"))
    # two cells updated in opposite orders by different threads: no deadlock
    cases.append(f'(threads {T} {K} ' + q("a := mut 0; b := mut 0; f := (t: int) -> int { if t % 2 == 0 { a += 1; b += 1; } else { b += 1; a += 1; }; return *a + *b; }; (f, a, b)") + ")")
    checks.append(("two", f"(mut 0 (i {T * K})) (mut 1 (i {T * K}))"))
    # a compound assignment whose right operand reads the same cell: only the update itself is atomic
    cases.append(f'(threads {T} {K} ' + q("c := mut 0; f := (t: int) -> int { return c += (*c * 0 + 1); }; (f, c)") + ")")
    checks.append(("shared", f"(mut 0 (i {T * K}))"))
    out = common.run_cases(common.HARNESS, cases, shards=1, timeout=300)
    rep.evaluations += len(cases) * T * K
    rep.compared += len(cases)
    rep.distinct.update(cases)
    for c, o, (kind, want) in zip(cases, out, checks):
        rep.count("L16." + kind)
        if o.startswith("!timeout") or o.startswith("!died"):
            rep.violations.append({"property": "C16", "lane": "L16", "what": "threads did not finish (deadlock or crash): " + o, "case": c})
            continue
        if "!panic" in o:
            rep.violations.append({"property": "C16", "lane": "L16", "what": "a thread panicked: " + o[:300], "case": c})
            continue
        threads, observed = o.split(" || observed ")
        if kind in ("shared", "two"):
            if observed != want:
                rep.violations.append({"property": "C16", "lane": "L16",
                                       "what": f"lost update: {T}x{K} concurrent updates left {observed}, expected {want}", "case": c})
        elif kind == "unshared":
            res = threads[len("threads "):].split(") (")
            if any(r.strip("()") != want.strip("()") for r in res):
                rep.violations.append({"property": "C16", "lane": "L16",
                                       "what": f"a run sharing no cell differs from the sequential result {want}: {threads[:300]}", "case": c})
        elif kind == "len-after":
            pass
    # final length of the shared array cell, re-read after the threads are done
    c2 = f'(threads {T} {K} ' + q("c := mut [int] []; f := (t: int) -> int { c += [t]; return 0; }; (f, c)") + ")"
    o2 = common.run_cases(common.HARNESS, [c2], shards=1, timeout=300)[0]
    rep.evaluations += T * K
    rep.compared += 1
    n_elems = o2.count("(i ") - T  # per-thread results are (ok (i 0))
    if "!panic" in o2 or n_elems != T * K:
        rep.violations.append({"property": "C16", "lane": "L16",
                               "what": f"appends to a shared array cell lost: {n_elems} of {T * K} elements present", "case": c2})
    # ONE parsed Code executed again and again, sequentially and by all threads at once: the runs share
    # no cell (every `mut`, every closure, every iterator is created by the run itself), so each yields
    # the sequential result
    progs = [
        "hits := mut 0; hits += 1; hits += 1; hits += 1; *hits",
        "total := mut 0; bump := (by: int) -> int { total += by; return *total }; bump(1); bump(10); (bump(100), *total)",
        "it := [1, 2, 3]~; it(); (it(), [4, 5]~ $])",
        "c := mut [int] []; for x in [1, 2, 3]~ { c += [x * 2] }; *c",
        "mk := () -> () -> int { n := mut 0; return () -> int { n += 1; return *n } }; a := mk(); a(); (a(), mk()())",
        "s := struct{cell := mut 1}; s.cell += 1; t := (mut \"a\", 2); t.0 += \"b\"; (*s.cell, *t.0)",
        "f := (xs: [any]) -> [int] { return xs~ ? int $] }; (f([1, \"a\", 2]), f([\"b\", 3]))",
    ]
    ecases = [f'(exec-threads {T} {max(20, K // 5)} ' + q(p) + ")" for p in progs]
    eout = common.run_cases(common.HARNESS, ecases, shards=1, timeout=300)
    rep.evaluations += len(ecases) * T * max(20, K // 5)
    for c, o in zip(ecases, eout):
        rep.compared += 1
        rep.count("L16.exec-threads")
        if o.startswith(("!timeout", "!died")) or "!panic" in o:
            rep.violations.append({"property": "C16", "lane": "L16", "what": "executing one parsed program from several threads: " + o[:300], "case": c})
            continue
        if o.startswith("reject"):
            rep.violations.append({"property": "C16", "lane": "L16", "what": "lane program rejected: " + o[:200], "case": c})
            continue
        first, others = o.split(" || others ")
        first = first[len("first "):]
        if others != first:
            rep.violations.append({"property": "C16", "lane": "L16", "case": c,
                                   "what": f"runs of one parsed program that share no cell differ from the first run {first[:120]}: {others[:300]}"})
    rep.sample({"lane": "L16", "case": cases[0], "result": out[0][:300]})

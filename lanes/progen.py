"""Typed random program generator for the program-level lanes (L7/L8/L9).
Programs are surface ASTs (see sast.py).  Every program declares a logging cell and a
logging function `t(n)` so that evaluation order and effects are visible in the result.

Besides the type-directed expression grammar the generator knows a number of SHAPES (see `line`):
functions with several parameters of assorted types and functions returning closures (every
construct can occur inside the inner closure, which captures parameters, cells and run-time values),
modules in value position, shadowing of a visible name by every kind of binder at ANOTHER type
followed by a use of the outer name, run-once loops with conditional break/continue nested in
other loops, `match` on constants with run-time candidates, pruned branches holding a single
declaration, compound assignments with effectful targets / self-writing right operands, array
cells, union element types, `any` parameters, untyped `mut` of union-typed parameters."""
import copy

from .sast import I, B, S, V, VOID, Str

INT, BOOL, FLOAT, STRING, ANY = "int", "bool", "float", "string", "any"
ARR_INT = ["arr", "int"]
ARR_STR = ["arr", "string"]
TUP_IB = ["tup", "int", "bool"]
ST = ["struct", ["a", "int"], ["b", "string"]]
MUT_INT = ["mut", "int"]
MUT_ARR = ["mut", ["arr", "int"]]
IT_INT = ["fun", [], ["tup", "bool", "int"]]
FN_II = ["fun", ["int"], "int"]
FN_IB = ["fun", ["int"], "bool"]
U_IS = ["multi", "int", "string"]
U_IV = ["multi", "int", "void"]
# union element types, arrays of cells, cells of unions / of arrays of unions, functions yielding cells
U_IF = ["multi", "int", "float"]
ARR_IF = ["arr", U_IF]
ARR_IS = ["arr", U_IS]
ARR_MUT = ["arr", MUT_INT]
MUT_U = ["mut", U_IS]
MUT_AIF = ["mut", ARR_IF]
FN_CELL = ["fun", [], MUT_INT]
FN_0I = ["fun", [], "int"]
HIDDEN = "hidden!"      # a name that is in scope but never offered (a function's own name inside its body)
OLD_TYPES = [INT, BOOL, FLOAT, STRING, ARR_INT, ARR_STR, TUP_IB, ST, MUT_INT, MUT_ARR, IT_INT, FN_II, FN_IB,
             U_IS, U_IV]
NEW_TYPES = [U_IF, ARR_IF, ARR_IS, ARR_MUT, MUT_U, MUT_AIF, FN_CELL, MUT_INT, ARR_IF]
ALL_TYPES = OLD_TYPES + OLD_TYPES + NEW_TYPES
# data (no functions, no iterators): may be wrapped in `opaque`, passed for `any`, observed at the end
DATA_TYPES = [INT, BOOL, FLOAT, STRING, ARR_INT, ARR_STR, TUP_IB, ST, U_IS, U_IF, ARR_IF, ARR_IS]
PARAM_TYPES = [INT, INT, INT, STRING, BOOL, FLOAT, U_IS, U_IS, ARR_INT, MUT_INT, MUT_INT, TUP_IB, ANY, ANY, ARR_IF, U_IF,
               MUT_ARR, ST, FN_II, U_IV]
RET_TYPES = [INT, INT, INT, BOOL, STRING, U_IS, ARR_INT, TUP_IB, FLOAT, ARR_IF, U_IF]
FLOATS = [0, 4607182418800017408, 4612811918334230528, 4602678819172646912, 4621819117588971520]  # 0,1,2.5,0.5,10
ASSIGN_OPS = ["=", "+=", "-=", "*=", "/=", "%=", "&=", "|=", "^=", "<<=", ">>=", "**="]


def teq(a, b):
    return a == b


def is_fun(t):
    return isinstance(t, list) and t[0] == "fun"


class Gen:
    def __init__(self, rnd, max_depth=3):
        self.r = rnd
        self.max_depth = max_depth
        self.counter = 0
        self.scopes = [[]]      # list of lists of (name, type)
        self.paths = []         # (binding, expression, type): fields reachable below a variable (modules)
        self.exact = []         # bindings whose static type is exactly the declared one (parameters)
        self.runtime = []       # bindings known not to be compile-time constants (parameters, opaque values, results)
        self.fn_base = []       # index in `scopes` of the parameter scope of every enclosing function
        self.in_fn = []         # stack of return types
        self.loops = []         # stack, one entry per enclosing loop: None, or (counter, limit) when a
        #                         `continue` has to be guarded by the hidden counter (termination)
        self.pending = []       # (name, type) of outer names shadowed by the construct being generated
        self.in_mod = 0
        self.budget = 11        # lines still to be spent on nested constructs (keeps programs small)
        self.stats = {}

    @property
    def in_loop(self):
        return len(self.loops)

    # ---- environment ----
    DANGEROUS = ["iterator", "default", "func", "mapper", "predicate", "res", "con", "value", "array", "i", "len",
                 "iter", "acc", "curr", "n", "log2"]

    def fresh(self, base="v"):
        self.counter += 1
        # sometimes reuse a name that helper closures / desugarings use internally (or that is already
        # bound: shadowing), so that leaks between scopes become visible
        if base == "v" and self.r.random() < 0.12:
            return self.r.choice(self.DANGEROUS)
        return f"{base}{self.counter}"

    def bind(self, n, t, runtime=False):
        b = (n, t)
        self.scopes[-1].append(b)
        if runtime:
            self.runtime.append(b)
        return b

    def captured_runtime(self, t=None):
        """visible bindings from outside the innermost function that are run-time values (of type t)"""
        if not self.fn_base:
            return []
        outer = [b for sc in self.scopes[:self.fn_base[-1]] for b in sc]
        return [b for b in self.visible() if any(b is o for o in outer) and any(b is x for x in self.runtime)
                and (t is None or teq(b[1], t)) and b[0] not in ("log", "t", "std")]

    def push(self, entries=()):
        self.scopes.append([(n, t) for n, t in entries])

    def pop(self):
        sc = self.scopes.pop()
        if self.paths:
            self.paths = [p for p in self.paths if not any(p[0] is b for b in sc)]
        if self.exact:
            self.exact = [e for e in self.exact if not any(e is b for b in sc)]
        if self.runtime:
            self.runtime = [e for e in self.runtime if not any(e is b for b in sc)]

    def visible(self):
        """innermost binding of every visible name, innermost scope first"""
        out = []
        seen = set()
        for sc in reversed(self.scopes):
            for b in reversed(sc):
                if b[0] in seen:
                    continue
                seen.add(b[0])
                out.append(b)
        return out

    def lookup(self, name):
        for sc in reversed(self.scopes):
            for b in reversed(sc):
                if b[0] == name:
                    return b
        return None

    def vars_of(self, t):
        return [n for n, ty in self.visible() if teq(ty, t)]

    def refs_of(self, t):
        """expressions denoting a visible value of type t: variables and fields of modules"""
        out = [V(n) for n in self.vars_of(t)]
        for b, e, ty in self.paths:
            if teq(ty, t) and self.lookup(b[0]) is b:
                out.append(copy.deepcopy(e))
        return out

    def binder(self, base, t=None, force=False):
        """name for a binding: sometimes an already visible name of ANOTHER type (shadowing); the shadowed
        name is remembered so that the outer name is used again after the construct (see `lines`)"""
        cands = [b for b in self.visible() if b[0] not in ("log", "t", "std") and b[1] != HIDDEN and not teq(b[1], t)]
        if cands and self.r.random() < (0.85 if force else 0.3):
            # inside a function: preferably a captured run-time value
            cap = [b for b in self.captured_runtime() if any(b is c for c in cands)]
            b = self.r.choice(cap if cap and self.r.random() < (0.8 if force else 0.5) else cands)
            self.pending.append(b)
            self.stat("shadow." + base)
            return b[0]
        return self.fresh(base)

    def stat(self, k):
        self.stats[k] = self.stats.get(k, 0) + 1

    # ---- uses of a name at a given type, visible in the log ----
    def tcall(self, e):
        return ["call", V("t"), e]

    def witness(self, x, ty):
        """a line that uses expression x at type ty (the checker rejects it at another type) and logs
        something that depends on its value; None when there is no cheap way"""
        r = self.r
        self.counter += 1
        k = I(self.counter)
        mark = ["block", ["stm", ["expr", self.tcall(k)]]]
        e = None
        if ty == INT:
            e = x
        elif ty in (STRING, ARR_INT, ARR_STR, ARR_IF, ARR_IS, ARR_MUT):
            if ty == ARR_INT and r.random() < 0.5:
                e = ["post", ["post", x, "~"], "$+"]
            else:
                e = ["call", ["facc", V("std"), "len"], x]
        elif ty == BOOL:
            return ["stm", ["if", x, mark, None]]
        elif ty == FLOAT:
            return ["stm", ["if", ["bin", ">=", x, ["c", ["f", FLOATS[1]]]], mark, None]]
        elif ty == TUP_IB:
            e = ["tacc", x, 0]
        elif ty == ST:
            e = ["facc", x, "a"]
        elif ty == MUT_INT:
            e = ["pre", "deref", x]
        elif ty in (MUT_ARR, MUT_AIF):
            e = ["call", ["facc", V("std"), "len"], ["pre", "deref", x]]
        elif ty == FN_II:
            e = ["call", x, I(r.choice([0, 1, 2]))]
        elif ty == FN_0I:
            e = ["call", x]
        elif ty == FN_IB:
            return ["stm", ["if", ["call", x, I(r.choice([0, 1, 2]))], mark, None]]
        elif ty in (U_IS, U_IV, U_IF, ANY) or ty == MUT_U:
            q = self.fresh("q")
            src = ["pre", "deref", x] if ty == MUT_U else x
            return ["stm", ["ifset", q, "int", src, ["block", ["stm", ["expr", self.tcall(V(q))]]],
                            None if r.random() < 0.5 else mark]]
        if e is None:
            return None
        return ["stm", ["expr", self.tcall(e)]]

    # ---- expressions ----
    def small(self):
        return self.r.choice([0, 1, 2, 3, 5, 7, -1, -2, 10, 63, 64])

    def log(self, e):
        """wrap an int expression in the logging function"""
        self.counter += 1
        return ["call", V("t"), ["bin", "+", ["bin", "*", e, I(0)], I(self.counter)]] if self.r.random() < 0.5 \
            else ["call", V("t"), e]

    def opaque(self, e):
        """the same value, but not a compile-time constant"""
        self.stat("opaque")
        if self.r.random() < 0.6:
            return ["at", ["array", e], self.tcall(I(0))]
        self.counter += 1
        return ["tacc", ["tuple", e, self.tcall(I(self.counter))], 0]

    def callables(self, t):
        """visible functions (other than the logger) that yield a t after one or two calls"""
        out = []
        for n, ty in self.visible():
            if n in ("t", "std") or not is_fun(ty):
                continue
            if teq(ty[2], t):
                out.append((n, [ty[1]]))
            elif is_fun(ty[2]) and teq(ty[2][2], t):
                out.append((n, [ty[1], ty[2][1]]))
        return out

    def call_of(self, c, d):
        self.stat("call.declared")
        e = V(c[0])
        for ps in c[1]:
            e = ["call", e] + [self.arg(p, d) for p in ps]
        return e

    def arg(self, t, d):
        r = self.r
        if t == INT and r.random() < 0.5:
            return I(r.choice([0, 1, 2, 3]))
        if t == ANY:
            t = r.choice(DATA_TYPES)
        elif t == MUT_INT and not self.vars_of(MUT_INT):
            return ["mut", None, I(self.small())]
        return self.expr(t, d + 1)

    def expr(self, t, d=0):
        r = self.r
        vs = self.refs_of(t)
        if vs and r.random() < (0.35 if d < self.max_depth else 0.8):
            self.stat("var")
            return r.choice(vs)
        deep = d >= self.max_depth
        if not deep and r.random() < 0.12:
            cs = self.callables(t)
            if cs:
                return self.call_of(r.choice(cs), d)
        if t == INT:
            return self.int_expr(d, deep)
        if t == BOOL:
            return self.bool_expr(d, deep)
        if t == FLOAT:
            if deep or r.random() < 0.5:
                return ["c", ["f", r.choice(FLOATS)]]
            op = r.choice(["+", "-", "*", "/"])
            return ["bin", op, self.expr(FLOAT, d + 1), self.expr(FLOAT, d + 1)]
        if t == STRING:
            if deep or r.random() < 0.5:
                return S(r.choice(["", "a", "bc", "xyz", "hé"]))
            k = r.random()
            if k < 0.5:
                return ["bin", "+", self.expr(STRING, d + 1), self.expr(STRING, d + 1)]
            if k < 0.75:
                return ["at", self.nonempty_str(), I(r.choice([0, -1]))]
            return ["slice", self.expr(STRING, d + 1), self.opt_idx(d), self.opt_idx(d), self.opt_step(d)]
        if t == ARR_INT:
            k = r.random()
            if deep or k < 0.4:
                # never the bare empty literal: its static type is [!] (see known finding S13c);
                # `[] + [..]` keeps the empty operand in play with element type int
                if r.random() < 0.15:
                    return ["bin", "+", ["array"], ["array", self.expr(INT, d + 1)]]
                return ["array"] + [self.expr(INT, d + 1) for _ in range(r.randrange(1, 4))]
            if k < 0.55:
                return ["bin", "+", self.expr(ARR_INT, d + 1), self.expr(ARR_INT, d + 1)]
            if k < 0.7:
                return ["slice", self.expr(ARR_INT, d + 1), self.opt_idx(d), self.opt_idx(d), self.opt_step(d)]
            if k < 0.8:
                return ["repeat", self.expr(INT, d + 1), I(r.randrange(0, 4))]
            if k < 0.9:
                return ["post", self.iter_expr(d + 1), "$]"]
            return ["pre", "deref", self.expr(MUT_ARR, d + 1)] if self.vars_of(MUT_ARR) else ["array", I(1), I(2)]
        if t == ARR_STR:
            return ["array"] + [self.expr(STRING, d + 1) for _ in range(r.randrange(1, 3))] \
                if r.random() < 0.8 else ["bin", "+", ["array", self.expr(STRING, d + 1)], ["array", S("z")]]
        if t == TUP_IB:
            return ["tuple", self.expr(INT, d + 1), self.expr(BOOL, d + 1)]
        if t == ST:
            if not deep and r.random() < 0.3:
                return self.mod_struct(d)
            return ["struct", ["a", self.expr(INT, d + 1)], ["b", self.expr(STRING, d + 1)]]
        if t == MUT_INT:
            return ["mut", None if r.random() < 0.5 else "int", self.expr(INT, d + 1)]
        if t == MUT_ARR:
            return ["mut", ["arr", "int"], self.expr(ARR_INT, d + 1)]
        if t == IT_INT:
            return self.iter_expr(d)
        if t == FN_II:
            return self.fn_expr([[self.binder("p", INT), "int"]], INT, d)
        if t == FN_IB:
            return self.fn_expr([[self.binder("p", INT), "int"]], BOOL, d)
        if t == U_IS:
            if r.random() < 0.25 and d < self.max_depth:
                # `it $ "init" (acc: int|string, x: int) -> int {..}`: int|string, the init when `it` is empty
                self.stat("reduce.general")
                a, x = self.fresh("a"), self.fresh("x")
                self.push([(a, U_IS), (x, INT)])
                self.in_fn.append(INT)
                try:
                    body = [["stm", ["return", ["expr", self.expr(INT, d + 2)]]]]
                finally:
                    self.pop()
                    self.in_fn.pop()
                src = self.iter_expr(d + 1) if r.random() < 0.5 else ["post", ["slice", self.expr(ARR_INT, d + 2), I(9), None, None], "~"]
                return ["reduce", src, self.expr(STRING, d + 2), ["fn", [[a, U_IS], [x, INT]], INT, body]]
            return self.expr(INT if r.random() < 0.5 else STRING, d + 1)
        if t == U_IV:
            return self.expr(INT, d + 1) if r.random() < 0.6 else VOID
        if t == U_IF:
            k = r.random()
            if k < 0.2 and not deep and not self.in_fn:
                return ["at", self.expr(ARR_IF, d + 1), I(r.choice([0, 0, -1]))]
            return self.expr(INT if k < 0.6 else FLOAT, d + 1)
        if t == ARR_IF:
            k = r.random()
            if deep or k < 0.5:
                # mixed literal `[1, 2.5]`: element type int|float
                self.stat("array.mixed")
                return ["array", self.expr(INT, d + 1), self.expr(FLOAT, d + 1)] + \
                    [self.expr(r.choice([INT, FLOAT]), d + 1) for _ in range(r.randrange(0, 2))]
            if k < 0.7:
                return ["bin", "+", self.expr(r.choice([ARR_IF, ARR_INT]), d + 1), self.expr(ARR_IF, d + 1)]
            if k < 0.8:
                return ["slice", self.expr(ARR_IF, d + 1), self.opt_idx(d), self.opt_idx(d), self.opt_step(d)]
            if k < 0.9 and self.vars_of(MUT_AIF):
                return ["pre", "deref", V(r.choice(self.vars_of(MUT_AIF)))]
            return ["array"] + [self.expr(U_IF, d + 1) for _ in range(r.randrange(1, 3))]
        if t == ARR_IS:
            return ["array", self.expr(INT, d + 1), self.expr(STRING, d + 1)] + \
                [self.expr(U_IS, d + 1) for _ in range(r.randrange(0, 2))]
        if t == ARR_MUT:
            cells = [V(n) for n in self.vars_of(MUT_INT)]
            n = r.randrange(1, 3)
            return ["array"] + [r.choice(cells) if cells and r.random() < 0.7 else ["mut", None, I(self.small())]
                                for _ in range(n)]
        if t == MUT_U:
            ex = [b[0] for b in self.visible() if teq(b[1], U_IS) and any(b is e for e in self.exact)]
            if ex and r.random() < 0.8:
                # un-annotated `mut x` of a union-typed parameter: the cell is declared at the union
                self.stat("mut.untyped-union")
                return ["mut", None, V(r.choice(ex))]
            return ["mut", U_IS, self.expr(U_IS, d + 1)]
        if t == MUT_AIF:
            return ["mut", ARR_IF, self.expr(r.choice([ARR_IF, ARR_INT]), d + 1)]
        if t == FN_CELL:
            cells = self.vars_of(MUT_INT)
            ret = V(r.choice(cells)) if cells else ["mut", None, I(self.small())]
            return ["fn", [], MUT_INT, [["stm", ["expr", self.log(I(0))]], ["stm", ["return", ["expr", ret]]]]]
        if t == FN_0I:
            return self.fn_expr([], INT, d)
        if t == ANY:
            return self.expr(r.choice(DATA_TYPES), d + 1)
        return self.structural(t, d)

    def structural(self, t, d):
        """any other type, by its structure"""
        r = self.r
        if t == "void":
            return VOID
        h = t[0]
        if h == "multi":
            return self.expr(r.choice(t[1:]), d + 1)
        if h == "arr":
            return ["array"] + [self.expr(t[1], d + 1) for _ in range(r.randrange(1, 3))]
        if h == "tup":
            return ["tuple"] + [self.expr(x, d + 1) for x in t[1:]]
        if h == "mut":
            return ["mut", t[1], self.expr(t[1], d + 1)]
        if h == "struct":
            return ["struct"] + [[k, self.expr(v, d + 1)] for k, v in t[1:]]
        if h == "fun":
            self.counter += 1
            return self.fn_expr([["p%d_%d" % (self.counter, k), p] for k, p in enumerate(t[1])], t[2], d)
        raise ValueError(t)

    def nonempty_str(self):
        return S(self.r.choice(["a", "bc", "xyz"]))

    def opt_idx(self, d):
        k = self.r.random()
        if k < 0.4:
            return None
        return I(self.r.randrange(-4, 5)) if k < 0.9 else self.expr(INT, d + 2)

    def opt_step(self, d):
        k = self.r.random()
        if k < 0.6:
            return None
        return I(self.r.choice([1, 2, -1, -2, 0, 3]))

    def cell_target(self, d):
        """target of an assignment to an int cell: a variable, or an expression with an effect of its own
        (`cells[t(0)]`, a call that logs and returns a cell)"""
        r = self.r
        cells = self.refs_of(MUT_INT)
        k = r.random()
        if cells and k < 0.4:
            return r.choice(cells)
        if k < 0.75:
            arrs = self.refs_of(ARR_MUT)
            if arrs and r.random() < 0.6:
                self.stat("assign.target.at")
                return ["at", r.choice(arrs), self.log(I(r.choice([0, 0, -1])))]
            if cells:
                self.stat("assign.target.at")
                els = [r.choice(cells) for _ in range(r.randrange(1, 3))]
                return ["at", ["array"] + els, self.log(I(r.randrange(0, len(els))))]
        fs = self.refs_of(FN_CELL)
        if fs and r.random() < 0.7:
            self.stat("assign.target.call")
            return ["call", r.choice(fs)]
        if cells:
            self.stat("assign.target.call")
            return ["call", self.expr(FN_CELL, d + 1)]
        return None

    def assign_expr(self, d):
        """compound / plain assignment to an int cell (an int expression)"""
        r = self.r
        c = self.cell_target(d)
        if c is None:
            return None
        op = r.choice(ASSIGN_OPS)
        self.stat("assign." + op)
        if op in ("/=", "%=", "**=", "<<=", ">>=") and r.random() < 0.8:
            rhs = I(r.choice([1, 2, 3, 63]))
        else:
            rhs = self.expr(INT, d + 1)
        return ["bin", op, c, rhs]

    def int_expr(self, d, deep):
        r = self.r
        k = r.random()
        if deep or k < 0.22:
            self.stat("int.const")
            return I(self.small())
        if k < 0.32:
            return self.log(self.expr(INT, d + 1))
        if k < 0.53:
            op = r.choice(["+", "-", "*", "/", "%", "**", "<<", ">>", "&", "|", "^"])
            self.stat("int.bin." + op)
            if op in ("/", "%", "**", "<<", ">>") and self.in_fn:
                rhs = self.unfoldable_int({"/": [1, 2, 3, -1], "%": [1, 2, 3, -1], "**": [0, 1, 2, 3]}.get(op, [0, 1, 2, 63]))
            elif op in ("/", "%", "**", "<<", ">>") and r.random() < 0.7:
                rhs = I(r.choice([0, 1, 2, 3, 63, 64, -1]))
            else:
                rhs = self.expr(INT, d + 1)
            return ["bin", op, self.expr(INT, d + 1), rhs]
        if k < 0.58:
            return ["pre", r.choice(["neg", "not"]), self.expr(INT, d + 1)]
        if k < 0.68 and self.vars_of(MUT_INT):
            if r.random() < 0.5:
                return ["pre", "deref", r.choice(self.refs_of(MUT_INT))]
            e = self.assign_expr(d)
            if e is not None:
                return e
        if k < 0.74:
            if self.in_fn:
                own = self.own_runtime(INT)
                if own and r.random() < 0.6:
                    return ["at", self.expr(ARR_INT, d + 1), V(r.choice(own))]
                els = [self.expr(INT, d + 1) for _ in range(r.randrange(1, 4))]
                return ["at", ["array"] + els, I(r.randrange(-len(els), len(els)))]
            a = self.expr(ARR_INT, d + 1)
            return ["at", a, I(r.choice([0, 0, 0, -1, -1, 1, r.randrange(-3, 4)]))]
        if k < 0.78:
            return ["tacc", self.expr(TUP_IB, d + 1), 0]
        if k < 0.82:
            return ["facc", self.expr(ST, d + 1), "a"]
        if k < 0.86:
            return ["call", self.expr(FN_II, d + 1), self.expr(INT, d + 1)]
        if k < 0.89:
            return ["call", ["facc", V("std"), "len"], self.expr(r.choice([ARR_INT, ARR_INT, STRING, ARR_IF]), d + 1)]
        if k < 0.95:
            return self.reduce_init(d)
        op = r.choice(["$+", "$*", "$&", "$|"])
        self.stat("reduce." + op)
        return ["post", self.iter_expr(d + 1), op]

    def own_runtime(self, t):
        """run-time values of type t that belong to the innermost function itself (parameters, mostly)"""
        if not self.fn_base:
            return []
        own = [b for sc in self.scopes[self.fn_base[-1]:] for b in sc]
        return [b[0] for b in self.visible() if teq(b[1], t) and any(b is o for o in own) and any(b is x for x in self.runtime)]

    def unfoldable_int(self, safe):
        """right operand / index of an operation that fails on some values, inside a function body: the
        function's own parameter (fails, or not, when the operation is evaluated) or a literal on which it
        cannot fail.  Everything else could be constant when the closure is created, and a failing
        operation on constants is then reported at that moment -- whether or not it would ever be evaluated
        (FINDINGS.md, F1), which the constant-hidden twin of lane L8 observes"""
        own = self.own_runtime(INT)
        if own and self.r.random() < 0.5:
            return V(self.r.choice(own))
        return I(self.r.choice(safe))

    def reduce_init(self, d):
        """`it $init (acc: int, x: int) -> int {..}`: the initial value is an arbitrary int expression, inside a
        closure preferably one over a captured run-time value"""
        r = self.r
        self.stat("reduce.int-init")
        init = self.captured_int(d) if r.random() < 0.8 else None
        if init is None:
            init = self.expr(INT, d + 1)
        a, x = self.binder("a", INT), self.fresh("x")
        f = self.fn_expr([[a, INT], [x, INT]], INT, d + 1, lines_p=0.1)
        return ["reduce", self.iter_expr(d + 1), init, f]

    def captured_int(self, d):
        """an int expression over a run-time value captured from outside the innermost function"""
        r = self.r
        cs = self.captured_runtime(INT) + self.captured_runtime(MUT_INT)
        if not cs:
            return None
        n, ty = r.choice(cs)
        e = V(n) if ty == INT else ["pre", "deref", V(n)]
        if r.random() < 0.3:
            e = ["bin", r.choice(["+", "-", "*"]), e, I(r.choice([1, 2, 3]))]
        return e

    def bool_expr(self, d, deep):
        r = self.r
        k = r.random()
        if deep or k < 0.25:
            return B(r.random() < 0.5)
        if k < 0.5:
            op = r.choice(["<", "<=", ">", ">=", "==", "!="])
            return ["bin", op, self.expr(INT, d + 1), self.expr(INT, d + 1)]
        if k < 0.62:
            op = r.choice(["&&", "||"])
            self.stat("bool." + op)
            return ["bin", op, self.expr(BOOL, d + 1), self.expr(BOOL, d + 1)]
        if k < 0.7:
            return ["pre", "not", self.expr(BOOL, d + 1)]
        if k < 0.78:
            t = r.choice([ARR_INT, STRING, TUP_IB, ST, FLOAT, U_IS, ARR_IF, U_IF])
            return ["bin", r.choice(["==", "!="]), self.expr(t, d + 1), self.expr(t, d + 1)]
        if k < 0.84:
            return ["bin", r.choice(["&", "|", "^"]), self.expr(BOOL, d + 1), self.expr(BOOL, d + 1)]
        if k < 0.9:
            return ["tacc", self.expr(TUP_IB, d + 1), 1]
        if k < 0.95:
            return ["call", self.expr(FN_IB, d + 1), self.expr(INT, d + 1)]
        inner = ["bin", "@", self.iter_expr(d + 1), self.fn_expr([["q" + str(self.counter + 1), "int"]], BOOL, d + 1)]
        return ["post", inner, r.choice(["$&&", "$||"])]

    def iter_expr(self, d):
        r = self.r
        k = r.random()
        if d >= self.max_depth or k < 0.45:
            return ["post", self.expr(ARR_INT, d + 1), "~"]
        if k < 0.6:
            self.stat("iter.map")
            return ["bin", "@", self.iter_expr(d + 1), self.fn_expr([["m" + str(self.counter + 1), "int"]], INT, d + 1)]
        if k < 0.75:
            self.stat("iter.filter")
            return ["bin", "?", self.iter_expr(d + 1), self.fn_expr([["m" + str(self.counter + 1), "int"]], BOOL, d + 1)]
        if k < 0.85:
            self.stat("iter.tfilter")
            src = ["post", ["array"] + [self.expr(U_IS, d + 2) for _ in range(r.randrange(1, 4))], "~"]
            return ["tfilter", src, "int"]
        self.stat("iter.user")
        return self.user_iter(d)

    def user_iter(self, d):
        """a user-written counting iterator: closes over its own cell"""
        c = self.fresh("c")
        n = self.r.randrange(0, 4)
        body = [
            ["stm", ["expr", ["bin", "+=", V(c), I(1)]]],
            ["stm", ["if", ["bin", "<=", ["pre", "deref", V(c)], I(n)],
                     ["block", ["stm", ["return", ["expr", ["tuple", B(True), self.log(["pre", "deref", V(c)])]]]]], None]],
            ["stm", ["return", ["expr", ["tuple", B(False), I(0)]]]],
        ]
        # `(c: mut int) -> ()->(bool,int) { return () -> (bool,int) {..} }(mut 0)`
        maker = ["fn", [[c, MUT_INT]], IT_INT, [["stm", ["return", ["expr", ["fn", [], ["tup", "bool", "int"], body]]]]]]
        return ["call", maker, ["mut", None, I(0)]]

    def fn_expr(self, params, ret, d, lines_p=0.3, selfname=None, n_lines=None):
        self.counter += 1
        self.push([(n, t) for n, t in params])
        if selfname is not None and not any(n == selfname for n, _ in params):
            self.scopes[-1].insert(0, (selfname, HIDDEN))
        self.exact += self.scopes[-1]
        self.runtime += self.scopes[-1]
        self.fn_base.append(len(self.scopes) - 1)
        self.in_fn.append(ret)
        saved_loop, self.loops = self.loops, []
        saved_mod, self.in_mod = self.in_mod, 0
        saved_pending, self.pending = self.pending, []
        try:
            lines = []
            if self.r.random() < lines_p and d < self.max_depth:
                lines += self.lines(n_lines or self.r.randrange(1, 3), d + 1)
            lines.append(["stm", ["return", self.ret_stm(ret, d + 1)]])
        finally:
            self.pop()
            self.in_fn.pop()
            self.fn_base.pop()
            self.loops = saved_loop
            self.in_mod = saved_mod
            self.pending = saved_pending
        return ["fn", params, ret, lines]

    def ret_stm(self, ret, d):
        """the operand of a final `return`: an expression, sometimes a value-yielding match / if"""
        r = self.r
        if d < self.max_depth and r.random() < 0.15:
            return self.value_stm(ret, d)
        if ret == INT and d < self.max_depth and r.random() < 0.15 and (self.captured_runtime(INT) or self.captured_runtime(MUT_INT)):
            return ["expr", self.reduce_init(d)]
        return ["expr", self.expr(ret, d)]

    def value_stm(self, t, d):
        """a statement yielding a value of type t: match / if-else / block"""
        r = self.r
        k = r.random()
        arm = lambda: ["block", ["stm", ["expr", self.expr(t, d + 1)]]]
        if k < 0.45:
            self.stat("value.match")
            return self.const_match(d, arm) if r.random() < 0.6 else \
                ["match", self.scrutinee(d), ["atype", self.fresh("m"), "int", arm()], ["aother", arm()]]
        if k < 0.8:
            self.stat("value.if")
            return ["if", self.expr(BOOL, d + 1), arm(), arm()]
        self.stat("value.block")
        return self.block(r.randrange(0, 2), d + 1, value=t)

    def const_match(self, d, arm):
        """`match` on a constant (literal, or a variable that may be a captured constant) whose value arms
        list run-time candidates from a small domain, so that a candidate often equals the scrutinee"""
        r = self.r
        self.stat("match.const")
        ints = self.refs_of(INT)
        scrut = I(r.choice([0, 1, 2, 3])) if not ints or r.random() < 0.5 else r.choice(ints)

        def cand():
            k = r.random()
            if ints and k < 0.6:
                return r.choice(ints)
            if k < 0.8:
                return I(r.choice([0, 1, 2, 3]))
            return self.expr(INT, d + 2)
        arms = [["aval", [cand() for _ in range(r.randrange(1, 3))], arm()] for _ in range(r.randrange(1, 3))]
        if r.random() < 0.3:
            n = self.binder("m", INT)
            self.push([(n, INT)])
            try:
                arms.append(["atype", n, "int", arm()])
            finally:
                self.pop()
        else:
            arms.append(["aother", arm()])
        return ["match", scrut] + arms

    def scrutinee(self, d):
        """a value of union / any type to test: visible variables of such a type first"""
        r = self.r
        cands = [n for n, ty in self.visible() if ty in (U_IS, U_IV, ANY, U_IF)]
        self.scrut_type = None
        if cands and r.random() < 0.6:
            n = r.choice(cands)
            self.scrut_type = self.lookup(n)[1]
            return V(n)
        return self.expr(r.choice([U_IS, U_IV]), d + 1)

    # ---- statements ----
    def block(self, n, d, extra=None, value=None):
        self.push()
        try:
            ls = self.lines(n, d)
            if extra:
                ls += extra
            if value is not None:
                ls.append(["stm", ["expr", self.expr(value, d)]])
        finally:
            self.pop()
        return ["block"] + ls

    def lines(self, n, d):
        out = []
        for _ in range(n):
            saved, self.pending = self.pending, []
            l = self.line(d)
            mine, self.pending = self.pending, saved
            if isinstance(l, tuple):
                out.extend(l)
            else:
                out.append(l)
            # a name shadowed inside the construct: use the OUTER binding again, now that the construct is over
            # (when this very scope rebound the name, the enclosing scope does it after its construct)
            for b in mine:
                if self.lookup(b[0]) is b:
                    if self.r.random() < 0.8:
                        w = self.witness(V(b[0]), b[1])
                        if w is not None:
                            self.stat("shadow.use-after")
                            out.append(w)
                else:
                    self.pending.append(b)
        return out

    def params(self, n, types=None):
        ps = []
        for _ in range(n):
            t = self.r.choice(types or PARAM_TYPES)
            p = self.binder("p", t)
            if any(p == q for q, _ in ps):
                p = self.fresh("p")
            ps.append([p, t])
        return ps

    def decl_line(self, d, force=False):
        """one declaration: `x := e`, `(a, b) := e` or a function declaration"""
        r = self.r
        k = r.random()
        if k < 0.6:
            t = r.choice(ALL_TYPES)
            e = self.expr(t, d + 1)
            rt = t in (MUT_INT, MUT_ARR, MUT_U, MUT_AIF)
            if t in DATA_TYPES and r.random() < 0.35:
                e = self.opaque(e)
                rt = True
            n = self.binder("v", t, force) if force or r.random() < 0.5 else self.fresh()
            self.bind(n, t, rt)
            self.stat("set")
            return ["set", n, ["expr", e]]
        if k < 0.8:
            e = self.expr(TUP_IB, d + 1)
            rt = r.random() < 0.3
            if rt:
                e = self.opaque(e)
            a = self.binder("v", INT, force)
            b = self.binder("v", BOOL, force)
            if a == b:
                b = self.fresh()
            self.bind(a, INT, rt)
            self.bind(b, BOOL, rt)
            self.stat("destruct")
            return ["destruct", [a, b], ["expr", e]]
        rt_ = r.choice([INT, BOOL])
        ft = FN_II if rt_ == INT else FN_IB
        n = self.binder("f", ft, force)
        p = n if r.random() < 0.1 else self.binder("p", INT)
        f = self.fn_expr([[p, INT]], rt_, d, selfname=n)
        self.bind(n, ft)   # bound afterwards: no unguarded recursion
        self.stat("fndecl")
        return ["fndecl", n, f[1], f[2], f[3]]

    def fn_scenario(self, d):
        """a declared function with several parameters of assorted types -- or a function returning a
        closure over its parameters and locals -- followed by one or two calls"""
        r = self.r
        nested = r.random() < 0.45
        ret = r.choice(RET_TYPES)
        ps1 = self.params(r.randrange(0 if nested else 1, 3))
        name = self.binder("f", None)
        if nested:
            self.stat("fn.closure")
            ps2 = self.params(r.randrange(0, 3))
            ps2 = [[(q if not any(q == p for p, _ in ps1) or r.random() < 0.5 else self.fresh("p")), t] for q, t in ps2]
            inner_t = ["fun", [t for _, t in ps2], ret]
            self.push([(n, t) for n, t in ps1])
            if not any(n == name for n, _ in ps1):
                self.scopes[-1].insert(0, (name, HIDDEN))
            self.exact += self.scopes[-1]
            self.runtime += self.scopes[-1]
            self.fn_base.append(len(self.scopes) - 1)
            self.in_fn.append(inner_t)
            saved_loop, self.loops = self.loops, []
            saved_mod, self.in_mod = self.in_mod, 0
            saved_pending, self.pending = self.pending, []
            try:
                pre = self.lines(r.randrange(0, 3), d + 1)
                inner = self.fn_expr(ps2, ret, d, lines_p=0.85, n_lines=r.randrange(1, 4))
            finally:
                self.pop()
                self.in_fn.pop()
                self.fn_base.pop()
                self.loops = saved_loop
                self.in_mod = saved_mod
                self.pending = saved_pending
            body = pre + [["stm", ["return", ["expr", inner]]]]
            ft = ["fun", [t for _, t in ps1], inner_t]
            decl = ["fndecl", name, ps1, inner_t, body]
        else:
            self.stat("fn.multi")
            f = self.fn_expr(ps1, ret, d, lines_p=0.85, selfname=name, n_lines=r.randrange(1, 4))
            ft = ["fun", [t for _, t in ps1], ret]
            decl = ["fndecl", name, ps1, ret, f[3]]
        self.bind(name, ft)
        out = [decl]
        c = (name, [ft[1], ft[2][1]] if nested else [ft[1]])
        for _ in range(r.randrange(1, 3)):
            e = self.call_of(c, d)
            n = self.fresh()
            self.bind(n, ret, True)
            out.append(["set", n, ["expr", e]])
        return tuple(out)

    def bump(self, d):
        """`c op= b()` where b() itself writes the cell c"""
        r = self.r
        out = []
        cells = self.vars_of(MUT_INT)
        if cells and r.random() < 0.8:
            c = r.choice(cells)
        else:
            c = self.fresh()
            out.append(["set", c, ["expr", ["mut", None, I(self.small())]]])
            self.bind(c, MUT_INT)
        f = self.fresh("b")
        self.push()
        self.in_fn.append(INT)
        saved_loop, self.loops = self.loops, []
        try:
            w = ["bin", r.choice(["=", "+=", "-=", "*=", "|="]), V(c), self.expr(INT, d + 2)]
            body = [["stm", ["expr", w]], ["stm", ["return", ["expr", self.expr(INT, d + 2)]]]]
        finally:
            self.pop()
            self.in_fn.pop()
            self.loops = saved_loop
        out.append(["fndecl", f, [], INT, body])
        self.bind(f, FN_0I)
        n = self.fresh()
        op = r.choice(["+=", "-=", "*=", "&=", "|=", "^=", "+="])
        self.stat("assign.self-writing-operand")
        out.append(["set", n, ["expr", ["bin", op, V(c), ["call", V(f)]]]])
        self.bind(n, INT)
        return tuple(out)

    def reader(self, d):
        """a function whose body reads a cell declared earlier; the cell is changed between the declaration
        of the function and its call"""
        r = self.r
        out = []
        cells = self.vars_of(MUT_INT)
        if cells and r.random() < 0.8:
            c = r.choice(cells)
        else:
            c = self.fresh()
            out.append(["set", c, ["expr", ["mut", None, I(self.small())]]])
            self.bind(c, MUT_INT, True)
        self.stat("cell.reader")
        f = self.fresh("g")
        e = ["pre", "deref", V(c)]
        if r.random() < 0.5:
            e = ["bin", r.choice(["+", "*", "-"]), e, I(r.choice([1, 2, 10]))]
        body = [["stm", ["return", ["expr", e]]]]
        if r.random() < 0.3:
            body.insert(0, ["stm", ["expr", ["bin", "+=", V(c), I(1)]]])
        out.append(["fndecl", f, [], INT, body])
        self.bind(f, FN_0I)
        out.append(["stm", ["expr", ["bin", r.choice(["=", "+=", "*=", "-="]), V(c), self.expr(INT, d + 2)]]])
        n = self.fresh()
        out.append(["set", n, ["expr", ["call", V(f)]]])
        self.bind(n, INT, True)
        return tuple(out)

    def mod_struct(self, d):
        """`mod { a := ..; b := .. }` where a value of type struct{a: int, b: string} is wanted: the module
        declares exactly a and b at its top level; other statements go in between"""
        r = self.r
        self.stat("mod.struct")
        self.push()
        self.in_mod += 1
        saved, self.pending = self.pending, []
        try:
            ls = []
            fields = [("a", INT), ("b", STRING)]
            if r.random() < 0.5:
                fields.reverse()
            for k, t in fields:
                if r.random() < 0.4:
                    ls.append(self.nondecl_line(d + 1))
                e = self.expr(t, d + 2)
                ls.append(["set", k, ["expr", e]])
                self.bind(k, t)
            if r.random() < 0.3:
                ls.append(self.nondecl_line(d + 1))
        finally:
            self.pop()
            self.in_mod -= 1
            self.pending = saved
        return ["mod"] + ls

    def nondecl_line(self, d):
        """a line that declares nothing in the scope it stands in"""
        r = self.r
        k = r.random()
        if k < 0.25 and (self.in_fn or self.loops):
            return self.jump_line(d, uncond=r.random() < 0.5)
        if k < 0.5:
            return ["stm", ["expr", self.log(self.expr(INT, d + 1))]]
        if k < 0.75:
            return ["stm", self.block(r.randrange(1, 3), d + 1)]
        return ["stm", self.loop_stm(d + 1)]

    def jump_line(self, d, uncond=False):
        """`if c { break | continue | return e }`, or the bare jump; a `continue` in a loop whose exit does
        not depend on a counter is guarded by the loop's hidden counter"""
        r = self.r
        kinds = []
        if self.loops:
            kinds += ["break", "continue"]
        if self.in_fn:
            kinds += ["return"]
        kind = r.choice(kinds)
        cond = None if uncond else self.expr(BOOL, d + 1)
        if kind == "continue" and self.loops[-1] is not None:
            c, lim = self.loops[-1]
            g = ["bin", "<", ["pre", "deref", V(c)], I(lim)]
            cond = g if cond is None else ["bin", "&&", g, cond]
        self.stat("jump." + kind + (".uncond" if cond is None else ""))
        if kind == "return":
            j = ["return", ["expr", self.expr(self.in_fn[-1], d + 1)]]
            if cond is None:
                return ["stm", j]
            return ["stm", ["if", cond, j, None]]
        if cond is None:
            return ["stm", kind]
        body = ["block", ["stm", kind]]
        if r.random() < 0.25:
            body = ["block", ["stm", ["expr", self.log(I(0))]], ["stm", kind]]
        if r.random() < 0.2:
            return ["stm", ["block", ["stm", ["if", cond, body, None]]]]
        return ["stm", ["if", cond, body, None]]

    def mod_line(self, d):
        """`m := mod { .. }` with any lines inside; the declared names become fields `m.x`"""
        r = self.r
        self.stat("mod.free")
        m = self.binder("m", None) if r.random() < 0.3 else self.fresh("m")
        self.push()
        self.in_mod += 1
        saved, self.pending = self.pending, []
        try:
            n = r.randrange(1, 4)
            # inside a function / loop: sometimes a diverging statement with declarations after it
            pos = r.randrange(0, n) if (self.in_fn or self.loops) and r.random() < 0.3 else -1
            ls = []
            for i in range(n):
                if i == pos:
                    ls.append(self.jump_line(d + 1, uncond=r.random() < 0.6))
                ls += self.lines(1, d + 1)
            fields = []
            for n, t in self.scopes[-1]:
                fields = [f for f in fields if f[0] != n] + [(n, t)]
        finally:
            self.pop()
            self.in_mod -= 1
            self.pending = saved
        mt = ["struct"] + [[n, t] for n, t in sorted(fields)]
        b = self.bind(m, mt)
        for n, t in fields:
            if t != HIDDEN:
                self.paths.append((b, ["facc", V(m), n], t))
        return ["set", m, ["expr", ["mod"] + ls]]

    def pruned(self, d):
        """a branch that is decided while parsing, holding ONE declaration (of a name that is often visible
        outside as well)"""
        r = self.r
        self.stat("pruned")
        k = r.random()
        tv = r.random() < 0.5
        if k < 0.5:
            cond = B(tv)
        elif k < 0.8:
            cond = ["bin", r.choice(["<", "!="]) if tv else r.choice([">", "=="]), I(1), I(2)]
        else:
            cond = ["bin", "||" if tv else "&&", B(tv), self.expr(BOOL, d + 2)]

        def one():
            self.push()
            try:
                return ["block", self.decl_line(d + 1, force=True)]
            finally:
                self.pop()
        k = r.random()
        if k < 0.2:
            return ["stm", ["while", B(False) if r.random() < 0.7 else ["bin", ">", I(1), I(2)], one()]]
        return ["stm", ["if", cond, one(), one() if r.random() < 0.4 else None]]

    def assign_line(self, d):
        r = self.r
        k = r.random()
        if k < 0.5:
            pre = []
            if not self.vars_of(MUT_INT):
                c = self.fresh()
                pre = [["set", c, ["expr", ["mut", None, self.expr(INT, d + 2)]]]]
                self.bind(c, MUT_INT, True)
            e = self.assign_expr(d)
            if e is not None:
                return tuple(pre + [["stm", ["expr", e]]])
        if k < 0.7 and self.vars_of(MUT_ARR):
            # array cell: `a += [..]`; now and then an array of another element type (to be rejected)
            t = ARR_INT if r.random() < 0.78 else r.choice([ARR_IF, ARR_STR, ARR_IS, ARR_IF])
            self.stat("assign.array" + ("" if t == ARR_INT else ".other-type"))
            op = "+=" if t != ARR_INT else r.choice(["=", "+=", "+="])
            return ["stm", ["expr", ["bin", op, V(r.choice(self.vars_of(MUT_ARR))), self.expr(t, d + 1)]]]
        if k < 0.85:
            # a cell holding [int|float]: `c += [2.5]`, `c += [1]`
            self.stat("assign.array-of-union")
            pre = []
            if not self.vars_of(MUT_AIF):
                c = self.fresh()
                pre = [["set", c, ["expr", self.expr(MUT_AIF, d + 1)]]]
                self.bind(c, MUT_AIF, True)
            t = ARR_STR if r.random() < 0.06 else r.choice([ARR_IF, ARR_INT])
            return tuple(pre + [["stm", ["expr", ["bin", r.choice(["=", "+=", "+="]), V(r.choice(self.vars_of(MUT_AIF))),
                                                  self.expr(t, d + 1)]]]])
        if self.vars_of(MUT_U):
            self.stat("assign.cell-of-union")
            return ["stm", ["expr", ["bin", "=", V(r.choice(self.vars_of(MUT_U))), self.expr(r.choice([INT, STRING]), d + 1)]]]
        return None

    def union_cell(self, d):
        """a cell holding int|string -- declared so by annotation, or (inside a function) by an un-annotated
        `mut p` of a parameter of that type -- that is then assigned the other member"""
        r = self.r
        c = self.fresh()
        e = self.expr(MUT_U, d + 1)
        if e[0] != "mut":
            return None
        out = [["set", c, ["expr", e]]]
        self.bind(c, MUT_U, True)
        for _ in range(r.randrange(1, 3)):
            self.stat("assign.cell-of-union")
            out.append(["stm", ["expr", ["bin", "=", V(c), self.expr(r.choice([INT, STRING]), d + 2)]]])
        w = self.witness(V(c), MUT_U)
        out.append(w)
        return tuple(out)

    def call_line(self, d):
        """`r := f(..)` for a declared function"""
        r = self.r
        fs = [(n, ty) for n, ty in self.visible() if is_fun(ty) and n not in ("t", "std") and ty != IT_INT]
        if not fs:
            return None
        n, ty = r.choice(fs)
        pss, res = [ty[1]], ty[2]
        if is_fun(res) and res != IT_INT:
            pss.append(res[1])
            res = res[2]
        e = self.call_of((n, pss), d)
        v = self.fresh()
        self.bind(v, res, True)
        return ["set", v, ["expr", e]]

    def line(self, d):
        r = self.r
        k = r.random()
        self.budget -= 1 if d > 0 else 0
        deep = d >= self.max_depth or (self.budget <= 0 and d > 0)
        if deep or k < 0.24:
            return self.decl_line(d) if not deep or r.random() < 0.9 else self.decl_line(d, force=True)
        if self.in_fn and r.random() < 0.08 and any(teq(b[1], U_IS) and any(b is e for e in self.exact) for b in self.visible()):
            # a parameter of union type: `c := mut p` (un-annotated), then another member is assigned
            l = self.union_cell(d)
            if l is not None:
                return l
        if self.in_fn and r.random() < 0.07 and self.captured_runtime():
            # inside a closure over run-time values: an if-set whose binder hides one of them
            return self.ifset_line(d)
        if k < 0.30:
            # `x := if ..` / `x := match ..` / `x := { .. }`
            t = r.choice([INT, INT, STRING, BOOL, U_IS, ARR_INT])
            s = self.value_stm(t, d)
            n = self.binder("v", t) if r.random() < 0.3 else self.fresh()
            self.bind(n, t)
            return ["set", n, s]
        if k < 0.39:
            return self.fn_scenario(d)
        if k < 0.46:
            self.stat("if")
            els = None if r.random() < 0.4 else self.block(r.randrange(1, 3), d + 1)
            return ["stm", ["if", self.expr(BOOL, d + 1), self.block(r.randrange(1, 3), d + 1), els]]
        if k < 0.50:
            return self.pruned(d)
        if k < 0.56:
            return self.ifset_line(d)
        if k < 0.63:
            return ["stm", self.match_stm(d)]
        if k < 0.73:
            return ["stm", self.loop_stm(d)]
        if k < 0.78 and (self.loops or self.in_fn):
            return self.jump_line(d, uncond=r.random() < (0.35 if self.in_mod else 0.06))
        if k < 0.81:
            self.stat("block")
            if r.random() < 0.4:
                # a block whose only declaration is a destructuring
                self.stat("block.destruct-only")
                self.push()
                try:
                    e = self.expr(TUP_IB, d + 1)
                    if r.random() < 0.5:
                        e = self.opaque(e)
                    a, b = self.binder("v", INT, True), self.binder("v", BOOL, True)
                    if a == b:
                        b = self.fresh()
                    self.bind(a, INT)
                    self.bind(b, BOOL)
                    ls = [["destruct", [a, b], ["expr", e]], ["stm", ["expr", self.log(V(a))]]]
                    if r.random() < 0.3:
                        ls.append(self.nondecl_line(d + 1))
                finally:
                    self.pop()
                return ["stm", ["block"] + ls]
            return ["stm", self.block(r.randrange(1, 3), d + 1)]
        if k < 0.85:
            return self.mod_line(d)
        if k < 0.91:
            l = self.assign_line(d)
            if l is not None:
                return l
        elif k < 0.925:
            return self.bump(d) if r.random() < 0.6 else self.reader(d)
        elif k < 0.945:
            l = self.union_cell(d)
            if l is not None:
                return l
        elif k < 0.97:
            l = self.call_line(d)
            if l is not None:
                return l
        self.stat("expr-stm")
        return ["stm", ["expr", self.expr(r.choice([INT, BOOL, STRING]), d + 1)]]

    def ifset_line(self, d):
        r = self.r
        self.stat("ifset")
        k2 = r.random()
        force = bool(self.in_fn) and r.random() < 0.8
        if force:
            k2 = 0.0      # the form whose else branch can be taken
        bt = INT if k2 < 0.6 else U_IS
        saved, self.pending = self.pending, []
        n = self.binder("u", bt, force)
        shadowed, self.pending = self.pending, saved
        self.pending += shadowed
        self.push([(n, bt)])
        try:
            body = self.block(1, d + 1)
        finally:
            self.pop()
        # the else branch does not see the binder: a shadowed outer name is used there
        self.push()
        try:
            els_lines = self.lines(1, d + 1) if r.random() < 0.6 or shadowed else None
            if shadowed and els_lines is not None and r.random() < 0.8:
                w = self.witness(V(shadowed[0][0]), shadowed[0][1])
                if w is not None:
                    self.stat("shadow.ifset-else")
                    if any(shadowed[0] is c for c in self.captured_runtime()):
                        self.stat("shadow.ifset-else.captured")
                    els_lines.insert(0, w)
        finally:
            self.pop()
        els = None if els_lines is None else ["block"] + els_lines
        if k2 < 0.6:
            if shadowed and r.random() < 0.5:
                # not an int at run time: the else branch (which uses the shadowed name) is taken
                scrut = self.expr(STRING, d + 1) if r.random() < 0.7 else VOID
            else:
                scrut = self.scrutinee(d)
            return ["stm", ["ifset", n, "int", scrut, body, els]]
        # declared type strictly wider than the runtime type of the tested value
        if k2 < 0.8:
            return ["stm", ["ifset", n, U_IS, self.expr(r.choice([INT, STRING, U_IS]), d + 1), body, els]]
        self.push([(n, ANY)])
        try:
            body = ["block", ["stm", ["expr", self.expr(INT, d + 1)]]]
        finally:
            self.pop()
        return ["stm", ["ifset", n, "any", self.expr(r.choice([INT, STRING, ARR_INT, U_IV]), d + 1), body, els]]

    def match_stm(self, d):
        r = self.r
        k = r.random()
        if k < 0.4:
            self.stat("match.type")
            scrut = self.scrutinee(d)
            wide = self.scrut_type in (ANY, U_IF)
            n1, n2 = self.binder("m", INT), self.binder("m", None)
            arms = []
            self.push([(n1, INT)])
            arms.append(["atype", n1, "int", self.block(1, d + 1)])
            self.pop()
            if r.random() < 0.5:
                ty2 = ANY if wide else r.choice([["multi", "string", "void"], ["multi", "string", "void"], ANY])
                self.push([(n2, ty2)])
                arms.append(["atype", n2, ty2, self.block(1, d + 1)])
                self.pop()
            else:
                arms.append(["aother", self.block(1, d + 1)])
            return ["match", scrut] + arms
        if k < 0.65:
            arm = lambda: ["block", ["stm", ["expr", self.log(I(0))]]] if r.random() < 0.6 else self.block(1, d + 1)
            return self.const_match(d, arm)
        self.stat("match.value")
        if r.random() < 0.35:
            # union-typed scrutinee, candidates of different types within one arm
            scrut = self.expr(U_IS, d + 1)
            mixed = lambda: self.expr(r.choice([INT, STRING]), d + 2)
            arms = [["aval", [mixed() for _ in range(r.randrange(2, 4))], self.block(1, d + 1)]
                    for _ in range(r.randrange(1, 3))]
            arms.append(["aother", self.block(1, d + 1)])
            return ["match", scrut] + arms
        scrut = self.expr(INT, d + 1)
        arms = [["aval", [self.expr(INT, d + 2) for _ in range(r.randrange(1, 3))], self.block(1, d + 1)]
                for _ in range(r.randrange(1, 3))]
        arms.append(["aother", self.block(1, d + 1)])
        return ["match", scrut] + arms

    def once_loop(self, d):
        """`loop { .. if c { break | continue } .. break }`: the body ends in an unconditional break and
        holds a conditional jump; the hidden counter bounds the number of `continue`s"""
        r = self.r
        self.stat("loop.once")
        c = self.fresh("k")
        lim = r.randrange(1, 4)
        self.loops.append((c, lim))
        self.push()
        try:
            n = r.randrange(0, 3)
            pos = r.randrange(0, n + 1)
            body = []
            for i in range(n + 1):
                if i == pos:
                    saved, self.in_fn = self.in_fn, []     # break / continue, not return
                    try:
                        body.append(self.jump_line(d + 1))
                    finally:
                        self.in_fn = saved
                if i < n:
                    body += self.lines(1, d + 1)
        finally:
            self.pop()
            self.loops.pop()
        body = [["stm", ["expr", ["bin", "+=", V(c), I(1)]]]] + body + [["stm", "break"]]
        return ["block", ["set", c, ["expr", ["mut", None, I(0)]]], ["stm", ["loop", ["block"] + body]]]

    def loop_stm(self, d):
        r = self.r
        k = r.random()
        if k < 0.22:
            # run-once loop, usually inside another loop whose later statements show whether it was left
            if self.loops or r.random() < 0.3:
                return self.once_loop(d)
            src = self.iter_expr(d + 1)
            n = self.binder("x", INT)
            self.loops.append(None)
            self.push([(n, INT)])
            try:
                inner = self.once_loop(d)
                after = ["stm", ["expr", self.log(V(n))]]
            finally:
                self.pop()
                self.loops.pop()
            return ["for", n, src, ["block", ["stm", inner], after]]
        if k < 0.45:
            self.stat("for")
            if r.random() < 0.2:
                # elements of a union type (the loop ends at the end marker; its value is not observed)
                self.stat("for.union")
                et, src = U_IF, ["post", self.expr(ARR_IF, d + 1), "~"]
            else:
                et, src = INT, self.iter_expr(d + 1)
            n = self.binder("x", et)
            self.loops.append(None)
            self.push([(n, et)])
            try:
                body = self.block(r.randrange(1, 3), d + 1)
            finally:
                self.pop()
                self.loops.pop()
            return ["for", n, src, body]
        c = self.fresh("k")
        lim = r.randrange(0, 4)
        # the counter cell is declared in an enclosing block so that the loop terminates
        self.loops.append(None)
        try:
            if k < 0.65:
                self.stat("while")
                self.push()   # the loop counter is not visible to generated code (termination)
                try:
                    body = self.block(r.randrange(0, 2), d + 1)
                finally:
                    self.pop()
                body = ["block", ["stm", ["expr", ["bin", "+=", V(c), I(1)]]]] + body[1:]
                return ["block", ["set", c, ["expr", ["mut", None, I(0)]]],
                        ["stm", ["while", ["bin", "<", ["pre", "deref", V(c)], I(lim)], body]]]
            if k < 0.82:
                self.stat("loop")
                self.push()   # the loop counter is not visible to generated code (termination)
                try:
                    body = self.block(r.randrange(0, 2), d + 1)
                finally:
                    self.pop()
                guard = ["stm", ["if", ["bin", ">=", ["pre", "deref", V(c)], I(lim)], ["block", ["stm", "break"]], None]]
                body = ["block", guard, ["stm", ["expr", ["bin", "+=", V(c), I(1)]]]] + body[1:]
                return ["block", ["set", c, ["expr", ["mut", None, I(0)]]], ["stm", ["loop", body]]]
            self.stat("whileset")
            it = self.fresh("it")
            n = self.binder("w", INT)
            self.push([(n, INT)])
            try:
                body = self.block(r.randrange(0, 2), d + 1)
            finally:
                self.pop()
            src = ["post", ["array"] + [self.expr(U_IS, d + 2) for _ in range(r.randrange(1, 4))], "~"]
            # while w: int = it().1 { .. }   stops at the first non-int element (or the end marker's default)
            return ["block", ["set", it, ["expr", src]],
                    ["set", c, ["expr", ["mut", None, I(0)]]],
                    ["stm", ["whileset", n, "int",
                             ["tacc", ["tuple", ["bin", "+=", V(c), I(1)],
                                       ["at", ["array", I(1), S("s"), I(2)], ["pre", "deref", V(c)]]], 1],
                             ["block", ["stm", ["if", ["bin", ">", ["pre", "deref", V(c)], I(1)],
                                                ["block", ["stm", "break"]], None]]] + body[1:]]]]
        finally:
            self.loops.pop()


PRELUDE = [
    ["set", "log", ["expr", ["mut", ["arr", "int"], ["array"]]]],
    ["fndecl", "t", [["n", "int"]], "int", [
        ["stm", ["expr", ["bin", "+=", V("log"), ["array", V("n")]]]],
        ["stm", ["return", ["expr", V("n")]]]]],
]
OBSERVED = [INT, BOOL, STRING, ARR_INT, TUP_IB, U_IS, FLOAT, U_IF, ARR_IF, ARR_IS, ST, ARR_STR]


def program(rnd, n_lines=6, max_depth=3):
    g = Gen(rnd, max_depth)
    g.bind("log", MUT_ARR)
    g.bind("t", FN_II)
    body = []
    while len(body) < n_lines:      # a shape may take several lines
        body += g.lines(1, 0)
    # final observation: a few visible first-order variables, cells and the log
    obs = []
    for t in OBSERVED:
        vs = [v for v in g.vars_of(t) if not v.startswith(("p", "x", "m", "u", "w")) or v in Gen.DANGEROUS]
        if vs and len(obs) < 7:
            obs.append(V(vs[0]))
            if len(vs) > 2 and t == INT:
                obs.append(V(vs[-1]))
    cells = [v for v in g.vars_of(MUT_INT) if v.startswith("v")]
    obs += [["pre", "deref", V(c)] for c in cells[:2]]
    for t in (MUT_AIF, MUT_U):
        obs += [["pre", "deref", V(c)] for c in g.vars_of(t)[:1]]
    final = ["stm", ["expr", ["tuple"] + obs + [["pre", "deref", V("log")], I(0)]]]
    return PRELUDE + body + [final], g.stats

"""Typed random program generator for the program-level lanes (L7/L8/L9).
Programs are surface ASTs (see sast.py).  Every program declares a logging cell and a
logging function `t(n)` so that evaluation order and effects are visible in the result."""
from .sast import I, B, S, V, VOID, Str

INT, BOOL, FLOAT, STRING = "int", "bool", "float", "string"
ARR_INT = ["arr", "int"]
ARR_STR = ["arr", "string"]
TUP_IB = ["tup", "int", "bool"]
ST = ["struct", ["a", "int"], ["b", "string"]]
MUT_INT = ["mut", "int"]
MUT_ARR = ["mut", ["arr", "int"]]
IT_INT = ["fun", [], ["tup", "bool", "int"]]
FN_II = ["fun", ["int"], "int"]
FN_IB = ["fun", ["int"], "bool"]
U_IS = ["multi", "int", "string"]
U_IV = ["multi", "int", "void"]
ALL_TYPES = [INT, BOOL, FLOAT, STRING, ARR_INT, ARR_STR, TUP_IB, ST, MUT_INT, MUT_ARR, IT_INT, FN_II, FN_IB,
             U_IS, U_IV]
FLOATS = [0, 4607182418800017408, 4612811918334230528, 4602678819172646912, 4621819117588971520]  # 0,1,2.5,0.5,10


def teq(a, b):
    return a == b


class Gen:
    def __init__(self, rnd, max_depth=3):
        self.r = rnd
        self.max_depth = max_depth
        self.counter = 0
        self.scopes = [[]]      # list of lists of (name, type)
        self.in_fn = []         # stack of return types
        self.in_loop = 0
        self.stats = {}

    # ---- environment ----
    DANGEROUS = ["iterator", "default", "func", "mapper", "predicate", "res", "con", "value", "array", "i", "len",
                 "iter", "acc", "curr", "n", "log2"]

    def fresh(self, base="v"):
        self.counter += 1
        # sometimes reuse a name that helper closures / desugarings use internally (or that is already
        # bound: shadowing), so that leaks between scopes become visible
        if base == "v" and self.r.random() < 0.12:
            return self.r.choice(self.DANGEROUS)
        return f"{base}{self.counter}"

    def bind(self, n, t):
        self.scopes[-1].append((n, t))

    def vars_of(self, t):
        out = []
        seen = set()
        for sc in reversed(self.scopes):
            for n, ty in reversed(sc):
                if n in seen:
                    continue
                seen.add(n)
                if teq(ty, t):
                    out.append(n)
        return out

    def binder(self, base):
        """name for a construct-local binding: sometimes an already visible name (shadowing)"""
        names = [n for sc in self.scopes for n, _ in sc if n not in ("log", "t", "std")]
        if names and self.r.random() < 0.3:
            return self.r.choice(names)
        return self.fresh(base)

    def stat(self, k):
        self.stats[k] = self.stats.get(k, 0) + 1

    # ---- expressions ----
    def small(self):
        return self.r.choice([0, 1, 2, 3, 5, 7, -1, -2, 10, 63, 64])

    def log(self, e):
        """wrap an int expression in the logging function"""
        self.counter += 1
        return ["call", V("t"), ["bin", "+", ["bin", "*", e, I(0)], I(self.counter)]] if self.r.random() < 0.5 \
            else ["call", V("t"), e]

    def expr(self, t, d=0):
        r = self.r
        vs = self.vars_of(t)
        if vs and r.random() < (0.35 if d < self.max_depth else 0.8):
            self.stat("var")
            return V(r.choice(vs))
        deep = d >= self.max_depth
        if t == INT:
            return self.int_expr(d, deep)
        if t == BOOL:
            return self.bool_expr(d, deep)
        if t == FLOAT:
            if deep or r.random() < 0.5:
                return ["c", ["f", r.choice(FLOATS)]]
            op = r.choice(["+", "-", "*", "/"])
            return ["bin", op, self.expr(FLOAT, d + 1), self.expr(FLOAT, d + 1)]
        if t == STRING:
            if deep or r.random() < 0.5:
                return S(r.choice(["", "a", "bc", "xyz", "hé"]))
            k = r.random()
            if k < 0.5:
                return ["bin", "+", self.expr(STRING, d + 1), self.expr(STRING, d + 1)]
            if k < 0.75:
                return ["at", self.nonempty_str(), I(r.choice([0, -1]))]
            return ["slice", self.expr(STRING, d + 1), self.opt_idx(d), self.opt_idx(d), self.opt_step(d)]
        if t == ARR_INT:
            k = r.random()
            if deep or k < 0.4:
                # never the bare empty literal: its static type is [!] (see known finding S13c);
                # `[] + [..]` keeps the empty operand in play with element type int
                if r.random() < 0.15:
                    return ["bin", "+", ["array"], ["array", self.expr(INT, d + 1)]]
                return ["array"] + [self.expr(INT, d + 1) for _ in range(r.randrange(1, 4))]
            if k < 0.55:
                return ["bin", "+", self.expr(ARR_INT, d + 1), self.expr(ARR_INT, d + 1)]
            if k < 0.7:
                return ["slice", self.expr(ARR_INT, d + 1), self.opt_idx(d), self.opt_idx(d), self.opt_step(d)]
            if k < 0.8:
                return ["repeat", self.expr(INT, d + 1), I(r.randrange(0, 4))]
            if k < 0.9:
                return ["post", self.iter_expr(d + 1), "$]"]
            return ["pre", "deref", self.expr(MUT_ARR, d + 1)] if self.vars_of(MUT_ARR) else ["array", I(1), I(2)]
        if t == ARR_STR:
            return ["array"] + [self.expr(STRING, d + 1) for _ in range(r.randrange(0, 3))]
        if t == TUP_IB:
            return ["tuple", self.expr(INT, d + 1), self.expr(BOOL, d + 1)]
        if t == ST:
            return ["struct", ["a", self.expr(INT, d + 1)], ["b", self.expr(STRING, d + 1)]]
        if t == MUT_INT:
            return ["mut", None if r.random() < 0.5 else "int", self.expr(INT, d + 1)]
        if t == MUT_ARR:
            return ["mut", ["arr", "int"], self.expr(ARR_INT, d + 1)]
        if t == IT_INT:
            return self.iter_expr(d)
        if t == FN_II:
            return self.fn_expr([["p" + str(self.counter + 1), "int"]], INT, d)
        if t == FN_IB:
            return self.fn_expr([["p" + str(self.counter + 1), "int"]], BOOL, d)
        if t == U_IS:
            if r.random() < 0.25 and d < self.max_depth:
                # `it $ "init" (acc: int|string, x: int) -> int {..}`: int|string, the init when `it` is empty
                self.stat("reduce.general")
                a, x = self.fresh("a"), self.fresh("x")
                self.scopes.append([(a, U_IS), (x, INT)])
                self.in_fn.append(INT)
                try:
                    body = [["stm", ["return", ["expr", self.expr(INT, d + 2)]]]]
                finally:
                    self.scopes.pop()
                    self.in_fn.pop()
                src = self.iter_expr(d + 1) if r.random() < 0.5 else ["post", ["slice", self.expr(ARR_INT, d + 2), I(9), None, None], "~"]
                return ["reduce", src, self.expr(STRING, d + 2), ["fn", [[a, U_IS], [x, INT]], INT, body]]
            return self.expr(INT if r.random() < 0.5 else STRING, d + 1)
        if t == U_IV:
            return self.expr(INT, d + 1) if r.random() < 0.6 else VOID
        raise ValueError(t)

    def nonempty_str(self):
        return S(self.r.choice(["a", "bc", "xyz"]))

    def opt_idx(self, d):
        k = self.r.random()
        if k < 0.4:
            return None
        return I(self.r.randrange(-4, 5)) if k < 0.9 else self.expr(INT, d + 2)

    def opt_step(self, d):
        k = self.r.random()
        if k < 0.6:
            return None
        return I(self.r.choice([1, 2, -1, -2, 0, 3]))

    def int_expr(self, d, deep):
        r = self.r
        k = r.random()
        if deep or k < 0.22:
            self.stat("int.const")
            return I(self.small())
        if k < 0.32:
            return self.log(self.expr(INT, d + 1))
        if k < 0.55:
            op = r.choice(["+", "-", "*", "/", "%", "**", "<<", ">>", "&", "|", "^"])
            self.stat("int.bin." + op)
            rhs = I(r.choice([0, 1, 2, 3, 63, 64, -1])) if op in ("/", "%", "**", "<<", ">>") and r.random() < 0.7 \
                else self.expr(INT, d + 1)
            return ["bin", op, self.expr(INT, d + 1), rhs]
        if k < 0.6:
            return ["pre", r.choice(["neg", "not"]), self.expr(INT, d + 1)]
        if k < 0.68 and self.vars_of(MUT_INT):
            c = V(r.choice(self.vars_of(MUT_INT)))
            if r.random() < 0.5:
                return ["pre", "deref", c]
            op = r.choice(["=", "+=", "-=", "*=", "/=", "%=", "&=", "|=", "^=", "<<=", ">>=", "**="])
            self.stat("assign." + op)
            return ["bin", op, c, self.expr(INT, d + 1)]
        if k < 0.75:
            return ["at", self.expr(ARR_INT, d + 1), I(r.randrange(-3, 4))]
        if k < 0.8:
            return ["tacc", self.expr(TUP_IB, d + 1), 0]
        if k < 0.84:
            return ["facc", self.expr(ST, d + 1), "a"]
        if k < 0.9:
            return ["call", self.expr(FN_II, d + 1), self.expr(INT, d + 1)]
        if k < 0.94:
            return ["call", ["facc", V("std"), "len"], self.expr(ARR_INT, d + 1)]
        op = r.choice(["$+", "$*", "$&", "$|"])
        self.stat("reduce." + op)
        return ["post", self.iter_expr(d + 1), op]

    def bool_expr(self, d, deep):
        r = self.r
        k = r.random()
        if deep or k < 0.25:
            return B(r.random() < 0.5)
        if k < 0.5:
            op = r.choice(["<", "<=", ">", ">=", "==", "!="])
            return ["bin", op, self.expr(INT, d + 1), self.expr(INT, d + 1)]
        if k < 0.62:
            op = r.choice(["&&", "||"])
            self.stat("bool." + op)
            return ["bin", op, self.expr(BOOL, d + 1), self.expr(BOOL, d + 1)]
        if k < 0.7:
            return ["pre", "not", self.expr(BOOL, d + 1)]
        if k < 0.78:
            t = r.choice([ARR_INT, STRING, TUP_IB, ST, FLOAT, U_IS])
            return ["bin", r.choice(["==", "!="]), self.expr(t, d + 1), self.expr(t, d + 1)]
        if k < 0.84:
            return ["bin", r.choice(["&", "|", "^"]), self.expr(BOOL, d + 1), self.expr(BOOL, d + 1)]
        if k < 0.9:
            return ["tacc", self.expr(TUP_IB, d + 1), 1]
        if k < 0.95:
            return ["call", self.expr(FN_IB, d + 1), self.expr(INT, d + 1)]
        inner = ["bin", "@", self.iter_expr(d + 1), self.fn_expr([["q" + str(self.counter + 1), "int"]], BOOL, d + 1)]
        return ["post", inner, r.choice(["$&&", "$||"])]

    def iter_expr(self, d):
        r = self.r
        k = r.random()
        if d >= self.max_depth or k < 0.45:
            return ["post", self.expr(ARR_INT, d + 1), "~"]
        if k < 0.6:
            self.stat("iter.map")
            return ["bin", "@", self.iter_expr(d + 1), self.fn_expr([["m" + str(self.counter + 1), "int"]], INT, d + 1)]
        if k < 0.75:
            self.stat("iter.filter")
            return ["bin", "?", self.iter_expr(d + 1), self.fn_expr([["m" + str(self.counter + 1), "int"]], BOOL, d + 1)]
        if k < 0.85:
            self.stat("iter.tfilter")
            src = ["post", ["array"] + [self.expr(U_IS, d + 2) for _ in range(r.randrange(1, 4))], "~"]
            return ["tfilter", src, "int"]
        self.stat("iter.user")
        return self.user_iter(d)

    def user_iter(self, d):
        """a user-written counting iterator: closes over its own cell"""
        c = self.fresh("c")
        n = self.r.randrange(0, 4)
        body = [
            ["stm", ["expr", ["bin", "+=", V(c), I(1)]]],
            ["stm", ["if", ["bin", "<=", ["pre", "deref", V(c)], I(n)],
                     ["block", ["stm", ["return", ["expr", ["tuple", B(True), self.log(["pre", "deref", V(c)])]]]]], None]],
            ["stm", ["return", ["expr", ["tuple", B(False), I(0)]]]],
        ]
        # `(c: mut int) -> ()->(bool,int) { return () -> (bool,int) {..} }(mut 0)`
        maker = ["fn", [[c, MUT_INT]], IT_INT, [["stm", ["return", ["expr", ["fn", [], ["tup", "bool", "int"], body]]]]]]
        return ["call", maker, ["mut", None, I(0)]]

    def fn_expr(self, params, ret, d):
        self.counter += 1
        self.scopes.append([(n, t) for n, t in params])
        self.in_fn.append(ret)
        saved_loop, self.in_loop = self.in_loop, 0
        try:
            lines = []
            if self.r.random() < 0.3 and d < self.max_depth:
                lines += self.lines(self.r.randrange(1, 3), d + 1)
            lines.append(["stm", ["return", ["expr", self.expr(ret, d + 1)]]])
        finally:
            self.scopes.pop()
            self.in_fn.pop()
            self.in_loop = saved_loop
        return ["fn", params, ret, lines]

    # ---- statements ----
    def block(self, n, d, extra=None):
        self.scopes.append([])
        try:
            ls = self.lines(n, d)
            if extra:
                ls += extra
        finally:
            self.scopes.pop()
        return ["block"] + ls

    def lines(self, n, d):
        out = []
        for _ in range(n):
            out.append(self.line(d))
        return out

    def line(self, d):
        r = self.r
        k = r.random()
        deep = d >= self.max_depth
        if k < 0.3 or deep:
            t = r.choice(ALL_TYPES)
            n = self.fresh()
            e = self.expr(t, d + 1)
            self.bind(n, t)
            self.stat("set")
            return ["set", n, ["expr", e]]
        if k < 0.36:
            a, b = self.fresh(), self.fresh()
            e = self.expr(TUP_IB, d + 1)
            self.bind(a, INT)
            self.bind(b, BOOL)
            self.stat("destruct")
            return ["destruct", [a, b], ["expr", e]]
        if k < 0.44:
            n = self.fresh("f")
            p = n if r.random() < 0.15 else self.fresh("p")
            rt_ = r.choice([INT, BOOL])
            f = self.fn_expr([[p, INT]], rt_, d)
            self.bind(n, FN_II if rt_ == INT else FN_IB)   # bound afterwards: no unguarded recursion
            self.stat("fndecl")
            return ["fndecl", n, f[1], f[2], f[3]]
        if k < 0.54:
            self.stat("if")
            els = None if r.random() < 0.4 else self.block(r.randrange(1, 3), d + 1)
            return ["stm", ["if", self.expr(BOOL, d + 1), self.block(r.randrange(1, 3), d + 1), els]]
        if k < 0.6:
            self.stat("ifset")
            n = self.binder("u")
            self.scopes.append([(n, INT)])
            try:
                body = self.block(1, d + 1)
            finally:
                self.scopes.pop()
            els = None if r.random() < 0.5 else self.block(1, d + 1)
            k2 = r.random()
            if k2 < 0.6:
                return ["stm", ["ifset", n, "int", self.expr(r.choice([U_IS, U_IV]), d + 1), body, els]]
            # declared type strictly wider than the runtime type of the tested value
            self.scopes.append([(n, U_IS)])
            try:
                body = self.block(1, d + 1)
            finally:
                self.scopes.pop()
            if k2 < 0.8:
                return ["stm", ["ifset", n, U_IS, self.expr(r.choice([INT, STRING, U_IS]), d + 1), body, els]]
            return ["stm", ["ifset", n, "any", self.expr(r.choice([INT, STRING, ARR_INT, U_IV]), d + 1),
                            ["block", ["stm", ["expr", self.expr(INT, d + 1)]]], els]]
        if k < 0.68:
            return ["stm", self.match_stm(d)]
        if k < 0.78:
            return ["stm", self.loop_stm(d)]
        if k < 0.84 and self.in_loop:
            self.stat("break/continue")
            return ["stm", ["if", self.expr(BOOL, d + 1), ["block", ["stm", r.choice(["break", "continue"])]], None]]
        if k < 0.88 and self.in_fn:
            self.stat("return")
            return ["stm", ["if", self.expr(BOOL, d + 1),
                            ["return", ["expr", self.expr(self.in_fn[-1], d + 1)]], None]]
        if k < 0.92:
            self.stat("block")
            return ["stm", self.block(r.randrange(1, 3), d + 1)]
        if k < 0.95:
            # assignment through a cell of array type
            if self.vars_of(MUT_ARR):
                return ["stm", ["expr", ["bin", r.choice(["=", "+="]), V(r.choice(self.vars_of(MUT_ARR))), self.expr(ARR_INT, d + 1)]]]
        self.stat("expr-stm")
        return ["stm", ["expr", self.expr(r.choice([INT, BOOL, STRING]), d + 1)]]

    def match_stm(self, d):
        r = self.r
        k = r.random()
        if k < 0.5:
            self.stat("match.type")
            scrut = self.expr(r.choice([U_IS, U_IV]), d + 1)
            n1, n2 = self.binder("m"), self.binder("m")
            arms = []
            self.scopes.append([(n1, INT)])
            arms.append(["atype", n1, "int", self.block(1, d + 1)])
            self.scopes.pop()
            if r.random() < 0.5:
                self.scopes.append([(n2, ["multi", "string", "void"])])
                arms.append(["atype", n2, ["multi", "string", "void"], self.block(1, d + 1)])
                self.scopes.pop()
            else:
                arms.append(["aother", self.block(1, d + 1)])
            return ["match", scrut] + arms
        self.stat("match.value")
        if r.random() < 0.35:
            # union-typed scrutinee, candidates of different types within one arm
            scrut = self.expr(U_IS, d + 1)
            mixed = lambda: self.expr(r.choice([INT, STRING]), d + 2)
            arms = [["aval", [mixed() for _ in range(r.randrange(2, 4))], self.block(1, d + 1)]
                    for _ in range(r.randrange(1, 3))]
            arms.append(["aother", self.block(1, d + 1)])
            return ["match", scrut] + arms
        scrut = self.expr(INT, d + 1)
        arms = [["aval", [self.expr(INT, d + 2) for _ in range(r.randrange(1, 3))], self.block(1, d + 1)]
                for _ in range(r.randrange(1, 3))]
        arms.append(["aother", self.block(1, d + 1)])
        return ["match", scrut] + arms

    def loop_stm(self, d):
        r = self.r
        k = r.random()
        self.in_loop += 1
        try:
            if k < 0.3:
                self.stat("for")
                n = self.binder("x")
                self.scopes.append([(n, INT)])
                try:
                    body = self.block(r.randrange(1, 3), d + 1)
                finally:
                    self.scopes.pop()
                return ["for", n, self.iter_expr(d + 1), body]
            c = self.fresh("k")
            lim = r.randrange(0, 4)
            # the counter cell is declared in an enclosing block so that the loop terminates
            if k < 0.6:
                self.stat("while")
                self.scopes.append([])   # the loop counter is not visible to generated code (termination)
                try:
                    body = self.block(r.randrange(0, 2), d + 1)
                finally:
                    self.scopes.pop()
                body = ["block", ["stm", ["expr", ["bin", "+=", V(c), I(1)]]]] + body[1:]
                return ["block", ["set", c, ["expr", ["mut", None, I(0)]]],
                        ["stm", ["while", ["bin", "<", ["pre", "deref", V(c)], I(lim)], body]]]
            if k < 0.8:
                self.stat("loop")
                self.scopes.append([])   # the loop counter is not visible to generated code (termination)
                try:
                    body = self.block(r.randrange(0, 2), d + 1)
                finally:
                    self.scopes.pop()
                guard = ["stm", ["if", ["bin", ">=", ["pre", "deref", V(c)], I(lim)], ["block", ["stm", "break"]], None]]
                body = ["block", guard, ["stm", ["expr", ["bin", "+=", V(c), I(1)]]]] + body[1:]
                return ["block", ["set", c, ["expr", ["mut", None, I(0)]]], ["stm", ["loop", body]]]
            self.stat("whileset")
            it = self.fresh("it")
            n = self.fresh("w")
            self.scopes.append([(n, INT)])
            try:
                body = self.block(r.randrange(0, 2), d + 1)
            finally:
                self.scopes.pop()
            src = ["post", ["array"] + [self.expr(U_IS, d + 2) for _ in range(r.randrange(1, 4))], "~"]
            # while w: int = it().1 { .. }   stops at the first non-int element (or the end marker's default)
            return ["block", ["set", it, ["expr", src]],
                    ["set", c, ["expr", ["mut", None, I(0)]]],
                    ["stm", ["whileset", n, "int",
                             ["tacc", ["tuple", ["bin", "+=", V(c), I(1)],
                                       ["at", ["array", I(1), S("s"), I(2)], ["pre", "deref", V(c)]]], 1],
                             ["block", ["stm", ["if", ["bin", ">", ["pre", "deref", V(c)], I(1)],
                                                ["block", ["stm", "break"]], None]]] + body[1:]]]]
        finally:
            self.in_loop -= 1


PRELUDE = [
    ["set", "log", ["expr", ["mut", ["arr", "int"], ["array"]]]],
    ["fndecl", "t", [["n", "int"]], "int", [
        ["stm", ["expr", ["bin", "+=", V("log"), ["array", V("n")]]]],
        ["stm", ["return", ["expr", V("n")]]]]],
]


def program(rnd, n_lines=6, max_depth=3):
    g = Gen(rnd, max_depth)
    g.bind("log", MUT_ARR)
    g.bind("t", FN_II)
    body = g.lines(n_lines, 0)
    # final observation: a few visible first-order variables and the log
    obs = []
    for t in (INT, BOOL, STRING, ARR_INT, TUP_IB, U_IS):
        vs = [v for v in g.vars_of(t) if not v.startswith(("p", "x", "m", "u", "w")) or v in Gen.DANGEROUS]
        if vs:
            obs.append(V(vs[0]))
    cells = [v for v in g.vars_of(MUT_INT) if v.startswith("v")]
    obs += [["pre", "deref", V(c)] for c in cells[:2]]
    final = ["stm", ["expr", ["tuple"] + obs + [["pre", "deref", V("log")], I(0)]]]
    return PRELUDE + body + [final], g.stats

"""Corpus lane: crafted programs (lanes/corpus.py) through model and implementation."""
from . import common, corpus, l7_programs, sast


def run(rep, tier, only=None):
    # by default a check runs the corpus entries tagged with its own property
    if only is None:
        only = [rep.prop]
    entries = [e for e in corpus.CORPUS if set(e[1]) & set(only)]
    progs = [e[2] for e in entries]
    before_v, before_d = len(rep.violations), len(rep.disagreements)
    l7_programs.run_programs(rep, progs, "CORPUS")
    texts = {sast.program(e[2]): e[0] for e in entries}
    for v in rep.violations[before_v:]:
        v["corpus_id"] = texts.get(v.get("program"), "?")
    for d in rep.disagreements[before_d:]:
        d["corpus_id"] = texts.get(d.get("program"), "?")
    rep.count("CORPUS.entries", len(entries))

"""Lane L12 — the standard library honours its declared signatures (C18).

(a) the LIVE `std` value (harness `(std-exports)`: every leaf of the struct with its run-time
    type) equals the regenerated table Gen/GenStdlib.v as the extracted model prints it
    (`(std-table)`): names, declared parameter and return types; the checked-in table equals a
    fresh run of translators/export2coq.py;
(b) every export is called on boundary + seeded random arguments of its declared parameter
    types, through the host API (`Function::create_call`), through an in-language wrapper
    function and, where the arguments have literals, as a literal program: never a panic, never
    an ExecError, the result inhabits the declared return type (model `has_type`, with the hidden
    element types), the pure helpers equal the Coq models (`(std MODULE NAME ARG..)`) and an
    independent Python restatement of docs/stdlib.md;
(c) file-system functions on fault states inside a scratch directory, `cgetline` on empty /
    given / unreadable / non-UTF-8 stdin and `print*` — in child processes whose stdin/stdout the
    harness controls (`(std-child ..)`), so that printing cannot corrupt the line protocol.
"""
import math
import os
import re
import shutil
import stat
import struct
import subprocess
import sys
import tempfile

from . import common

MIN = -2 ** 63
MAX = 2 ** 63 - 1
PROP = "C18"
LANE = "L12"


# --------------------------------------------------------------------------- S-expressions
def sx_str(s):
    out = '"'
    for ch in s:
        c = ord(ch)
        if c == 34:
            out += '\\"'
        elif c == 92:
            out += "\\\\"
        elif 32 <= c < 127:
            out += ch
        else:
            out += "\\u{%x}" % c
    return out + '"'


def esc_prog(p):
    """program text -> content of an S-expression string (program is ASCII by construction)"""
    return p.replace("\\", "\\\\").replace('"', '\\"')


def parse_sexp(text):
    toks = re.findall(r'"(?:\\.|[^"\\])*"|[()]|[^\s()"]+', text)
    pos = 0

    def rd():
        nonlocal pos
        t = toks[pos]
        pos += 1
        if t == "(":
            items = []
            while toks[pos] != ")":
                items.append(rd())
            pos += 1
            return items
        return t
    v = rd()
    return v


def unquote(tok):
    """S-expression string token -> Python str"""
    out, i, s = [], 0, tok[1:-1]
    while i < len(s):
        c = s[i]
        if c == "\\":
            e = s[i + 1]
            if e == "u":
                j = s.index("}", i)
                out.append(chr(int(s[i + 3:j], 16)))
                i = j + 1
                continue
            out.append({"n": "\n", "t": "\t", "r": "\r"}.get(e, e))
            i += 2
        else:
            out.append(c)
            i += 1
    return "".join(out)


def ty_text(t):
    """parsed type S-expression -> SimpleSL surface type"""
    if isinstance(t, str):
        return {"void": "()", "never": "!"}.get(t, t)
    h = t[0]
    if h == "arr":
        return "[" + ty_text(t[1]) + "]"
    if h == "multi":
        return "|".join(ty_text(x) for x in t[1:])
    if h == "tup":
        return "(" + ", ".join(ty_text(x) for x in t[1:]) + ")"
    if h == "fun":
        r = ty_text(t[2])
        if isinstance(t[2], list) and t[2][0] == "multi":
            r = "(" + r + ")"
        return "(" + ", ".join(ty_text(x) for x in t[1]) + ") -> " + r
    if h == "struct":
        return "struct{" + ", ".join(f"{k}: {ty_text(v)}" for k, v in t[1:]) + "}"
    if h == "mut":
        return "mut " + ty_text(t[1])
    raise ValueError(t)


def ty_sx(t):
    if isinstance(t, str):
        return t
    if t[0] == "fun":
        return "(fun (" + " ".join(ty_sx(x) for x in t[1]) + ") " + ty_sx(t[2]) + ")"
    if t[0] == "struct":
        return "(struct" + "".join(f" ({k} {ty_sx(v)})" for k, v in t[1:]) + ")"
    return "(" + t[0] + "".join(" " + ty_sx(x) for x in t[1:]) + ")"


# --------------------------------------------------------------------------- values
def fbits(x):
    return struct.unpack("<Q", struct.pack("<d", x))[0]


def ffrom(b):
    return struct.unpack("<d", struct.pack("<Q", b))[0]


class V:
    """an argument: its S-expression, its SimpleSL literal (None if it has none), Python view"""

    def __init__(self, kind, py, sx, lit):
        self.kind, self.py, self.sx, self.lit = kind, py, sx, lit


def v_int(z):
    lit = "(-9223372036854775807 - 1)" if z == MIN else (f"({z})" if z < 0 else str(z))
    return V("int", z, f"(i {z})", lit)


def v_float(bits):
    # every pattern, NaN and infinities included, has the in-language form from_bits(N)
    signed = bits - 2 ** 64 if bits >= 2 ** 63 else bits
    return V("float", bits, f"(f {bits})", f"std.math.from_bits({v_int(signed).lit})")


def lit_str(s):
    out = '"'
    for ch in s:
        c = ord(ch)
        if c == 34:
            out += '\\"'
        elif c == 92:
            out += "\\\\"
        elif 32 <= c < 127:
            out += ch
        else:
            out += "\\u{%x}" % c
    return out + '"'


def v_str(s):
    return V("string", s, "(s " + sx_str(s) + ")", lit_str(s))


def v_arr(items):
    lit = None if any(i.lit is None for i in items) else "[" + ", ".join(i.lit for i in items) + "]"
    return V("array", [i.py for i in items], "(arr" + "".join(" " + i.sx for i in items) + ")", lit)


def v_bool(b):
    return V("bool", b, f"(b {'true' if b else 'false'})", "true" if b else "false")


V_VOID = V("void", None, "void", "()")


def int_pool(tier, rnd):
    g = [0, 1, -1, 2, -2, 3, 5, 7, 8, 9, 10, 16, 27, 64, 99, 100, 101, 127, 128, 255, 256, 321, 1000, 1023, 1024,
         MIN, MAX, MIN + 1, MAX - 1, 10 ** 18, 10 ** 18 - 1, -10 ** 18, 0x5555555555555555, -0x5555555555555556,
         0x00FF00FF00FF00FF, 0x0123456789ABCDEF, -0x0123456789ABCDEF]
    for k in (7, 8, 15, 16, 31, 32, 52, 53, 62):
        g += [2 ** k, 2 ** k - 1, 2 ** k + 1, -(2 ** k), -(2 ** k) - 1, -(2 ** k) + 1]
    n = 2500 if tier == "thorough" else 80
    for _ in range(n):
        g.append(rnd.randint(MIN, MAX))
        g.append(rnd.randint(-2 ** rnd.randint(1, 62), 2 ** rnd.randint(1, 62)))
    seen, out = set(), []
    for z in g:
        if z not in seen:
            seen.add(z)
            out.append(z)
    return out


def float_pool(tier, rnd):
    vals = [0.0, -0.0, 5e-324, -5e-324, 2.225073858507201e-308, 2.2250738585072014e-308, 1.0, -1.0, 0.5, -0.5,
            1.5, -1.5, 2.5, -2.5, 3.5, 0.1, 0.49999999999999994, 0.9999999999999999, 1.0000000000000002, 2.0, 10.0,
            1e308, -1e308, 1.7976931348623157e308, float("inf"), float("-inf"), math.pi, math.e, -math.pi,
            9223372036854775808.0, 9223372036854774784.0, 9223372036854777856.0, -9223372036854775808.0,
            -9223372036854774784.0, -9223372036854777856.0, 9007199254740992.0, 9007199254740994.0,
            4503599627370496.5, 4503599627370495.5, -4503599627370495.5, 1e19, -1e19, 123456.789, -0.75, 1e-7, 100.0,
            0.7071067811865476, 1e300, -1e-300]
    bits = [fbits(x) for x in vals]
    bits += [0x7FF8000000000000, 0xFFF8000000000000, 0x7FF0000000000001, 0xFFFFFFFFFFFFFFFF, 0x000FFFFFFFFFFFFF,
             0x8000000000000001, 0x0010000000000000]
    n = 2500 if tier == "thorough" else 60
    for _ in range(n):
        bits.append(rnd.getrandbits(64))
        bits.append(fbits(rnd.uniform(-1e6, 1e6)))
    seen, out = set(), []
    for b in bits:
        if b not in seen:
            seen.add(b)
            out.append(b)
    return out


STRINGS = ["", "a", "abc", "a,b,,c", ",a,", ",", ",,", "aaa", "aaaa", "abab", "ababa", "h\u00e9llo w\u00f6rld",
           "\u20acuro", "\U0001F600", "a\U0001F600b\u00e9", " \t\n x \u00a0\u3000", "\u0085x\u2028", "\u1680\u2000y\u205f",
           "\x1cz\x1f", "\u200bw\u200b", "123", "-9223372036854775808", "9223372036854775807", "9223372036854775808",
           "-9223372036854775809", "+5", "+", "-", "--1", "+-1", "1_000", " 1", "1 ", "0x10", "\uff11\uff12\uff13",
           "\u0661\u0662\u0663", "007", "-0", "+0", "00000000000000000000000000000001",
           "99999999999999999999999999999999", "1.5", "1e3", "inf", "NaN", "-inf", "infinity", ".5", "5.", "1e400",
           "-1e-400", "1e", "0.1", "\u0130", "\u00df", "\u01c5", "\u039f\u0394\u03a5\u03a3\u03a3\u0395\u03a5\u03a3",
           "\ufb01", "\x00", "a\x00b", "\"q\"", "back\\slash", "line\nbreak\r\n", "A\u030a", "\ud7ff\ue000",
           "\U0010ffff", "x" * 300]
PATTERNS = ["", ",", "a", "aa", "ab", "aba", "b", "\u00e9", "\U0001F600", ",,", "abc", "abcd", "c", " ", "\x00", "x"]


def str_pool(tier, rnd):
    out = list(STRINGS)
    alphabet = ["a", "b", ",", " ", "\u00e9", "\u20ac", "\U0001F600", "\t", "A", "1", "\u00a0"]
    out += ["stra\u00dfe", "za\u017c\u00f3\u0142\u0107 G\u0118\u015aL\u0104", "\u0391\u0392\u0393\u03b4", "\u041f\u0440\u0438\u0432\u0435\u0442", "\u00c9COLE \u00e9t\u00e9", "\u00df"]
    n = 2000 if tier == "thorough" else 60
    for _ in range(n):
        out.append("".join(rnd.choice(alphabet) for _ in range(rnd.randint(0, 12))))
    return out


def byte_arrays(tier, rnd):
    arrs = [[], [65], [321], [-191], [65 + 256 * 7, 66 - 256], [0], [128], [255], [-1], [MIN], [MAX],
            [0xC3, 0xA9], [0xC3], [0xC3, 0x28], [0xC0, 0x80], [0xC1, 0xBF], [0xE2, 0x82, 0xAC], [0xE2, 0x82],
            [0xE2, 0x28, 0xA1], [0xE0, 0x80, 0x80], [0xE0, 0x9F, 0xBF], [0xE0, 0xA0, 0x80], [0xED, 0x9F, 0xBF],
            [0xED, 0xA0, 0x80], [0xEF, 0xBF, 0xBD], [0xF0, 0x9F, 0x98, 0x80], [0xF0, 0x9F, 0x98], [0xF0, 0x9F],
            [0xF0], [0xF0, 0x8F, 0xBF, 0xBF], [0xF0, 0x90, 0x80, 0x80], [0xF4, 0x8F, 0xBF, 0xBF],
            [0xF4, 0x90, 0x80, 0x80], [0xF5, 0x80, 0x80, 0x80], [0xFF], [0xFE, 0xFF], [0x80], [0xBF, 0x41],
            [0x41, 0xE2, 0x82, 0x41, 0xFF, 0xF0, 0x9F, 0x98], [0xF0, 0x9F, 0x98, 0x41], [0xE2, 0x82, 0xAC, 0xE2],
            [0xF1, 0x80, 0x80, 0x80, 0x80], [0xE1, 0x80, 0xC0], [0xF3, 0xBF, 0xBF, 0xBF],
            [0x100 + 0xE2, 0x200 + 0x82, -0x100 + 0xAC], list(range(0, 128, 9)), list(range(120, 260, 7))]
    n = 6000 if tier == "thorough" else 150
    for _ in range(n):
        k = rnd.randint(0, 8)
        arrs.append([rnd.choice([rnd.randint(0, 255), rnd.randint(128, 255), rnd.randint(-300, 600),
                                 rnd.choice([0xC3, 0xE2, 0xF0, 0x80, 0xBF, 0xED, 0xA0])]) for _ in range(k)])
    for s in ("h\u00e9\u20ac\U0001F600", "abc", "\ud7ff\ue000\U0010ffff"):
        arrs.append(list(s.encode("utf-8")))
    return arrs


# --------------------------------------------------------------------------- Python oracle
def wrap(z):
    return (z + 2 ** 63) % 2 ** 64 - 2 ** 63


WS = set([9, 10, 11, 12, 13, 32, 0x85, 0xA0, 0x1680, 0x2028, 0x2029, 0x202F, 0x205F, 0x3000] + list(range(0x2000, 0x200B)))


def sx_of_py(x):
    if x is None:
        return "void"
    if isinstance(x, bool):
        return f"(b {'true' if x else 'false'})"
    if isinstance(x, int):
        return f"(i {x})"
    if isinstance(x, str):
        return "(s " + sx_str(x) + ")"
    if isinstance(x, tuple) and x[0] == "f":
        return "(f nan)" if ffrom(x[1]) != ffrom(x[1]) else f"(f {x[1]})"
    if isinstance(x, list):
        if not x:
            return "(arrt never)"
        et = "string" if isinstance(x[0], str) else "int"
        return f"(arrt {et}" + "".join(" " + sx_of_py(i) for i in x) + ")"
    raise ValueError(x)


def py_to_int(bits):
    x = ffrom(bits)
    if x != x:
        return 0
    if x == float("inf"):
        return MAX
    if x == float("-inf"):
        return MIN
    return max(MIN, min(MAX, int(x)))


def py_round_float(name, bits):
    x = ffrom(bits)
    if x != x or x in (float("inf"), float("-inf")) or abs(x) >= 2.0 ** 52:
        return ("f", bits if x == x else 0x7FF8000000000000)
    if name == "floor":
        r = math.floor(x)
    elif name == "ceil":
        r = math.ceil(x)
    elif name == "trunc":
        r = math.trunc(x)
    elif name == "round_ties_even":
        r = round(x)                      # Python 3: banker's rounding, exact
    elif name == "round":
        t = math.trunc(x)
        d = abs(x - t)                    # exact: |x| < 2^52
        r = t + (1 if x > 0 else -1) if d >= 0.5 else t
    else:
        raise ValueError(name)
    return ("f", fbits(math.copysign(float(r), x)))


def py_parse_int(s):
    if not re.fullmatch(r"[+-]?[0-9]+", s, re.ASCII) or any(ord(c) > 127 for c in s):
        return None
    z = int(s)
    return z if MIN <= z <= MAX else None


def py_split(s, p):
    if p == "":
        return [""] + list(s) + [""]
    return s.split(p)


def py_ilog(n, b):
    if n <= 0 or b < 2:
        return None
    k = 0
    while n >= b:
        n //= b
        k += 1
    return k


def py_utf8(ints, lossy):
    data = bytes(z % 256 for z in ints)
    if lossy:
        return data.decode("utf-8", "replace")
    try:
        return data.decode("utf-8")
    except UnicodeDecodeError:
        return None


def u64(z):
    return z % 2 ** 64


def oracle(path, args):
    """docs/stdlib.md restated in Python: the expected value as typed S-expression text, or None
    when the documentation leaves the value to libm / Unicode tables / Display."""
    a = [x.py for x in args]
    name = path.split(".", 1)[1] if path.count(".") else path
    b64 = lambda z: format(u64(z), "064b")
    table = {
        "len": lambda: len(a[0]),
        "math.count_ones": lambda: b64(a[0]).count("1"),
        "math.count_zeros": lambda: b64(a[0]).count("0"),
        "math.leading_zeroes": lambda: 64 - len(b64(a[0]).lstrip("0")),
        "math.leading_ones": lambda: 64 - len(b64(a[0]).lstrip("1")),
        "math.trailing_zeroes": lambda: 64 - len(b64(a[0]).rstrip("0")),
        "math.trailing_ones": lambda: 64 - len(b64(a[0]).rstrip("1")),
        "math.swap_bytes": lambda: wrap(int.from_bytes(u64(a[0]).to_bytes(8, "little"), "big")),
        "math.reverse_bits": lambda: wrap(int(b64(a[0])[::-1], 2)),
        "math.ilog": lambda: py_ilog(a[0], a[1]),
        "math.ilog2": lambda: py_ilog(a[0], 2),
        "math.ilog10": lambda: py_ilog(a[0], 10),
        "math.floor": lambda: py_round_float("floor", a[0]),
        "math.ceil": lambda: py_round_float("ceil", a[0]),
        "math.trunc": lambda: py_round_float("trunc", a[0]),
        "math.round": lambda: py_round_float("round", a[0]),
        "math.round_ties_even": lambda: py_round_float("round_ties_even", a[0]),
        "math.is_nan": lambda: ffrom(a[0]) != ffrom(a[0]),
        "math.is_infinite": lambda: ffrom(a[0]) in (float("inf"), float("-inf")),
        "math.is_finite": lambda: math.isfinite(ffrom(a[0])),
        "math.is_subnormal": lambda: ffrom(a[0]) != 0 and abs(ffrom(a[0])) < 2.2250738585072014e-308,
        "math.is_normal": lambda: math.isfinite(ffrom(a[0])) and abs(ffrom(a[0])) >= 2.2250738585072014e-308,
        "math.is_sign_negative": lambda: a[0] >= 2 ** 63,
        "math.is_sign_positive": lambda: a[0] < 2 ** 63,
        "math.to_bits": lambda: wrap(a[0]) if ffrom(a[0]) == ffrom(a[0]) else "skip",
        "math.from_bits": lambda: ("f", u64(a[0])),
        "convert.to_int": lambda: a[0] if args[0].kind == "int" else py_to_int(a[0]),
        "convert.to_float": lambda: ("f", fbits(float(a[0]))) if args[0].kind == "int" else ("f", a[0]),
        "convert.parse_int": lambda: py_parse_int(a[0]),
        "string.split": lambda: py_split(a[0], a[1]),
        "string.replace": lambda: a[0].replace(a[1], a[2]),
        "string.contains": lambda: a[1] in a[0],
        "string.starts_with": lambda: a[0].startswith(a[1]),
        "string.ends_with": lambda: a[0].endswith(a[1]),
        "string.chars": lambda: list(a[0]),
        "string.bytes": lambda: list(a[0].encode("utf-8")),
        "string.str_from_utf8": lambda: py_utf8(a[0], False),
        "string.str_from_utf8_lossy": lambda: py_utf8(a[0], True),
        "string.to_lowercase": lambda: a[0].lower() if case_stable(a[0]) else "skip",
        "string.to_uppercase": lambda: a[0].upper() if case_stable(a[0]) else "skip",
        "string.trim": lambda: strip_ws(a[0], True, True),
        "string.trim_start": lambda: strip_ws(a[0], True, False),
        "string.trim_end": lambda: strip_ws(a[0], False, True),
    }
    f = table.get(name)
    if f is None:
        return None
    r = f()
    if r == "skip":
        return None
    return "ok " + sx_of_py(r)


def case_stable(s):
    """strings over blocks whose case mapping has not changed between Unicode versions and has no
    context-sensitive rule (final sigma, dotted I excluded): there Python's str.upper/lower is the
    documented "uppercase/lowercase equivalent" and must equal Rust's"""
    for c in s:
        o = ord(c)
        if o < 0x80 or 0xA0 <= o <= 0x17F and o not in (0x130, 0x131, 0x17F) or 0x391 <= o <= 0x3A1 \
                or 0x3A4 <= o <= 0x3A9 or 0x3B1 <= o <= 0x3C1 or 0x3C3 <= o <= 0x3C9 or 0x410 <= o <= 0x44F:
            continue
        if o >= 0x2000 and c.upper() == c == c.lower():
            continue
        return False
    return True


def strip_ws(s, left, right):
    i, j = 0, len(s)
    if left:
        while i < j and ord(s[i]) in WS:
            i += 1
    if right:
        while j > i and ord(s[j - 1]) in WS:
            j -= 1
    return s[i:j]


NAN_DOC = {
    # documented special values: (function, predicate on the argument) -> expected class
    "math.ln": [(lambda x: x < 0, "nan"), (lambda x: x == 0, "-inf")],
    "math.log2": [(lambda x: x < 0, "nan"), (lambda x: x == 0, "-inf")],
    "math.log10": [(lambda x: x < 0, "nan"), (lambda x: x == 0, "-inf")],
    "math.asin": [(lambda x: abs(x) > 1, "nan")],
    "math.acos": [(lambda x: abs(x) > 1, "nan")],
    "math.ln_1p": [(lambda x: x < -1, "nan"), (lambda x: x == -1, "-inf")],
}


# --------------------------------------------------------------------------- argument lists
def values_of_type(t, pools, rnd, tier):
    ints, floats, strs = pools[:3]
    if t == "int":
        return [v_int(z) for z in ints]
    if t == "float":
        return [v_float(b) for b in floats]
    if t == "string":
        return [v_str(s) for s in strs]
    if t == "bool":
        return [v_bool(True), v_bool(False)]
    if t == "any":
        return [v_int(0), v_int(MIN), v_float(fbits(2.5)), v_float(0x7FF8000000000000), v_float(fbits(1e21)),
                v_float(fbits(-0.0)), v_str(""), v_str("h\u00e9\n\"q\""), v_bool(True), V_VOID, v_arr([]),
                v_arr([v_int(1), v_str("a")]), v_arr([v_arr([v_arr([v_arr([v_arr([v_arr([v_int(1)])])])])])]),
                V("tuple", None, '(tup (i 1) (s "x"))', '(1, "x")'),
                V("struct", None, "(struct (a (i 1)) (b (arr)))", "struct{a := 1, b := []}")]
    if isinstance(t, list) and t[0] == "multi":
        out = []
        for m in t[1:]:
            vs = values_of_type(m, pools, rnd, tier)
            out += vs if len(vs) <= 40 else vs[:40]
        return out
    if isinstance(t, list) and t[0] == "arr":
        e = t[1]
        if e == "int":
            return [v_arr([v_int(z) for z in a]) for a in pools[3]]
        if e == "any":
            return [v_arr([]), v_arr([v_int(1)]), v_arr([v_int(1), v_int(2), v_int(3)]),
                    v_arr([v_str("a"), v_int(1), v_float(fbits(1.5))]), v_arr([v_arr([]), v_arr([v_int(1)])]),
                    v_arr([v_str(s) for s in ("x", "", "\u00e9")]), v_arr([V_VOID, v_bool(True)])]
    return None


def arg_lists(path, ptys, pools, rnd, tier):
    """boundary + random argument tuples for one export"""
    ints, floats, strs, _ = pools
    name = path.split(".", 1)[1] if "." in path else path
    budget = 8000 if tier == "thorough" else 300
    if name == "math.ilog":
        nums = ints
        bases = [2, 3, 10, 16, 7, MAX, MAX - 1, 2 ** 32, 2 ** 31, 1, 0, -1, -2, MIN, 3037000499, 3037000500]
        combos = [(n, b) for n in nums[:60] for b in bases]
        combos += [(b ** k + d, b) for b in (2, 3, 10, 16) for k in (1, 2, 5, 13, 18, 30, 39, 62)
                   for d in (-1, 0, 1) if 0 < b ** k + d <= MAX]
        rnd.shuffle(combos)
        keep = combos[:budget * 3]
        keep += [(1, 2), (0, 2), (-8, 2), (8, 1), (8, 0), (8, -2), (MAX, 2), (MAX, MAX), (MIN, 2), (1, MAX)]
        return [[v_int(n), v_int(b)] for n, b in keep]
    if name in ("string.split", "string.contains", "string.starts_with", "string.ends_with"):
        combos = [(s, p) for s in strs[:40] for p in PATTERNS]
        combos += [(s, s) for s in strs[:40]] + [(s, s[:2]) for s in strs[:40]] + [(s, s[-2:]) for s in strs[:40]]
        combos += [("ababab", "abab"), ("aXbXc", "X"), ("XaXbX", "X"), ("XX", "X"), ("\u00e9a\u00e9", "\u00e9"),
                   ("a\U0001F600b\U0001F600", "\U0001F600"), ("abc", "abcd"), ("", ""), ("", "a")]
        rnd.shuffle(combos)
        return [[v_str(s), v_str(p)] for s, p in combos[:budget * 3]]
    if name == "string.replace":
        combos = [(s, p, t) for s in strs[:24] for p in PATTERNS[:10] for t in ("", "-", "ab", "\u20ac", p + p)]
        combos += [("aaa", "aa", "b"), ("abc", "", "-"), ("", "", "x"), ("", "", ""), ("abab", "ab", "abab"),
                   ("a,b", ",", ",,")]
        rnd.shuffle(combos)
        return [[v_str(s), v_str(p), v_str(t)] for s, p, t in combos[:budget * 3]]
    if name in ("math.log", "math.atan2"):
        combos = [(x, y) for x in floats[:30] for y in floats[:30]]
        rnd.shuffle(combos)
        return [[v_float(x), v_float(y)] for x, y in combos[:budget]]
    if name == "io.print_array":
        arrs = values_of_type(["arr", "any"], pools, rnd, tier)
        return [[a, v_str(s)] for a in arrs for s in (", ", "", "\n")]
    cols = []
    for t in ptys:
        vs = values_of_type(t, pools, rnd, tier)
        if vs is None:
            return None
        cols.append(vs)
    if not cols:
        return [[]]
    if len(cols) == 1:
        return [[v] for v in cols[0]]
    out = []
    for _ in range(budget):
        out.append([rnd.choice(c) for c in cols])
    return out


FS_OR_IO = ("fs.", "io.")


# --------------------------------------------------------------------------- (a) the table
def parse_entries(line):
    if not line.startswith("ok "):
        return None
    ents = {}
    for e in line[3:].split(" | "):
        path, ty = e.split(" :: ", 1)
        ents[path] = ty
    return ents


def check_table(rep):
    live = common.run_cases(common.HARNESS, ["(std-exports)"])[0]
    tab = common.run_cases(common.DRIVER, ["(std-table)"])[0]
    rep.evaluations += 2
    L, T = parse_entries(live), parse_entries(tab)
    if L is None or T is None:
        rep.disagreements.append({"lane": LANE, "case": "(std-exports) / (std-table)", "model": tab[:300],
                                  "impl": live[:300]})
        return None
    for p in sorted(set(L) | set(T)):
        rep.count("L12.table-entry")
        rep.compared += 1
        if L.get(p) != T.get(p):
            rep.disagreements.append({"lane": LANE, "case": f"export {p}", "model": T.get(p, "(absent from the regenerated table)"),
                                      "impl": L.get(p, "(absent from the live std value)")})
    rep.sample({"lane": LANE, "what": "live export list == regenerated table", "entries": len(L),
                "example": next(iter(sorted(L.items())))})
    # the checked-in Gen file is what a fresh translation gives
    gen = os.path.join(common.VERIF, "coq", "Gen", "GenStdlib.v")
    tr = os.path.join(common.VERIF, "translators", "export2coq.py")
    if os.path.exists(tr) and os.path.exists(gen):
        with tempfile.TemporaryDirectory() as d:
            rc, out = common.sh([sys.executable, tr, common.REPO, d], timeout=120)
            fresh = os.path.join(d, "GenStdlib.v")
            if rc != 0 or not os.path.exists(fresh):
                rep.disagreements.append({"lane": LANE, "case": "export2coq.py", "model": "translator failed",
                                          "impl": out[-500:]})
            elif open(fresh).read() != open(gen).read():
                rep.disagreements.append({"lane": LANE, "case": "coq/Gen/GenStdlib.v", "model": "checked-in table",
                                          "impl": "differs from a fresh translation of the sources (stale table)"})
            else:
                rep.count("L12.table-fresh")
    return L


def _doc_type_sx(text):
    """SimpleSL type text of the documentation -> canonical S-expression text (None if it does
    not parse); reuses the type parser of translators/export2coq.py."""
    tr = os.path.join(common.VERIF, "translators")
    if tr not in sys.path:
        sys.path.insert(0, tr)
    try:
        import export2coq as X
    except Exception:
        return None

    def sx(t):
        if isinstance(t, str):
            return t
        k = t[0]
        if k == "union":
            return "(multi " + " ".join(sorted(set(sx(m) for m in t[1]))) + ")"
        if k in ("arr", "mut"):
            return f"({k} {sx(t[1])})"
        if k == "tup":
            return "(tup " + " ".join(sx(m) for m in t[1]) + ")"
        if k == "fun":
            return "(fun (" + " ".join(sx(m) for m in t[1]) + ") " + sx(t[2]) + ")"
        if k == "struct":
            return "(struct " + " ".join(sorted(f"({n} {sx(x)})" for n, x in t[1])) + ")"
        return "?"
    try:
        return sx(X.TyParser(text).parse())
    except Exception:
        return None


def _split_top(s, sep=","):
    parts, depth, cur, i = [], 0, [], 0
    while i < len(s):
        if s.startswith("->", i):
            cur.append("->")
            i += 2
            continue
        c = s[i]
        if c in "([{":
            depth += 1
        elif c in ")]}":
            depth -= 1
        if c == sep and depth == 0:
            parts.append("".join(cur))
            cur = []
        else:
            cur.append(c)
        i += 1
    if "".join(cur).strip():
        parts.append("".join(cur))
    return parts


def check_docs(rep, live):
    """docs/stdlib.md headers against the live signatures.  The documentation is prose: what
    differs is recorded as a note (names that do not exist, signatures that are not the declared
    ones), never as a violation."""
    path = os.path.join(common.REPO, "docs", "stdlib.md")
    if not os.path.exists(path):
        return
    section, heads = "std", []
    for line in open(path, encoding="utf-8"):
        line = line.strip()
        m2 = re.match(r"#+\s+([A-Z_]+):\s*(.+)$", line)
        if m2:
            heads.append((section, m2.group(1), None, m2.group(2).strip()))
            continue
        m = re.match(r"#+\s+([a-z_A-Z0-9]+)\s*(\(.*)?$", line)
        if not m:
            continue
        name, rest = m.group(1), m.group(2)
        if rest is None:
            if name in ("convert", "fs", "io", "math", "string", "operators"):
                section = name
            continue
        # "(a: T, b: U) -> R"   /  "(a: T)" (no result)
        depth, k = 0, 0
        for k, ch in enumerate(rest):
            depth += ch == "("
            depth -= ch == ")"
            if depth == 0:
                break
        params, tail = rest[1:k], rest[k + 1:].strip()
        ret = tail[2:].strip() if tail.startswith("->") else "()"
        heads.append((section, name, params, ret))
    documented, sig_diff, seen = {}, [], {}
    for sec, name, params, ret in heads:
        full = ("std." + name) if sec == "std" else f"std.{sec}.{name}"
        seen[full] = seen.get(full, 0) + 1
        if params is None:
            dsx = _doc_type_sx(ret)
        else:
            ptys = []
            for p in _split_top(params):
                if ":" not in p:
                    ptys = None
                    break
                ptys.append(_doc_type_sx(p.split(":", 1)[1].strip()))
            r = _doc_type_sx(ret)
            dsx = None if ptys is None or r is None or None in ptys else "(fun (" + " ".join(ptys) + ") " + r + ")"
        documented.setdefault(full, []).append(dsx)
    missing = sorted(p for p in live if p not in documented)
    ghost = sorted(p for p in documented if p not in live)
    dup = sorted(p for p, n in seen.items() if n > 1)
    for p in sorted(live):
        if p in documented and live[p] not in documented[p]:
            sig_diff.append(f"{p}: documented {documented[p]} / declared {live[p]}")
    if missing or ghost or dup:
        rep.note(f"L12 docs/stdlib.md names: exported but not documented under that name: {missing}; documented but "
                 f"not exported: {ghost}; documented twice: {dup}")
    if sig_diff:
        rep.note("L12 docs/stdlib.md signatures that are not the declared ones: " + "; ".join(sig_diff))
    rep.count("L12.doc-headers", len(heads))
    rep.dist["L12.doc-signature-differences"] = len(sig_diff)


# --------------------------------------------------------------------------- (b) calls
def well_shaped_error(v):
    """exactly struct{error_code: int, msg: string}"""
    return isinstance(v, list) and len(v) == 3 and v[0] == "struct" and \
        isinstance(v[1], list) and v[1][0] == "error_code" and isinstance(v[1][1], list) and v[1][1][0] == "i" and \
        isinstance(v[2], list) and v[2][0] == "msg" and isinstance(v[2][1], list) and v[2][1][0] == "s"


def violation(rep, what, case, extra=None):
    d = {"property": PROP, "lane": LANE, "what": what, "case": case}
    if extra:
        d.update(extra)
    rep.violations.append(d)


def check_calls(rep, tier, live):
    rnd = common.rng("L12")
    pools = (int_pool(tier, rnd), float_pool(tier, rnd), str_pool(tier, rnd), byte_arrays(tier, rnd))
    impl_cases, meta = [], []
    model_q = {}
    skipped = []
    for path in sorted(live):
        ty = parse_sexp(live[path])
        short = path.split(".", 1)[1]
        if not (isinstance(ty, list) and ty[0] == "fun"):
            # a constant: read it, compare with the model, check its type
            impl_cases.append(f'(run-t "{path}")')
            mod = short.split(".")
            mq = f"(std {mod[0] if len(mod) > 1 else 'std'} {mod[-1]})"
            model_q[mq] = None
            meta.append((path, "const", [], ty, mq, None))
            continue
        ptys, rty = ty[1], ty[2]
        if short.startswith(FS_OR_IO):
            continue                     # part (c)
        if short.startswith("operators."):
            continue                     # below: needs iterator arguments
        lists = arg_lists(path, ptys, pools, rnd, tier)
        if lists is None:
            skipped.append(path)
            continue
        params = ", ".join(f"p{i}: {ty_text(t)}" for i, t in enumerate(ptys))
        call = f"{path}({', '.join('p%d' % i for i in range(len(ptys)))})"
        wrapper = esc_prog(f"({params}) -> any {{ return {call}; }}")
        mod = short.split(".")
        for args in lists:
            sx = "".join(" " + a.sx for a in args)
            mq = f"(std {mod[0] if len(mod) > 1 else 'std'} {mod[-1]}{sx})"
            model_q[mq] = None
            exp = oracle(path, args)
            forms = [("host", f'(call-t "{path}"{sx})'), ("wrapper", f'(call-t "{wrapper}"{sx})')]
            if all(a.lit is not None for a in args) and sum(len(a.lit) for a in args) < 900:
                prog = f"{path}({', '.join(a.lit for a in args)})"
                forms.append(("literal", f'(run-t "{esc_prog(prog)}")'))
            for form, case in forms:
                impl_cases.append(case)
                meta.append((path, form, args, rty, mq, exp))
    if skipped:
        rep.note(f"L12: no argument generator for the parameter types of {skipped}")
    mqs = sorted(model_q)
    mo = dict(zip(mqs, common.run_cases(common.DRIVER, mqs, timeout=900)))
    io = common.run_cases(common.HARNESS, impl_cases, timeout=900)
    rep.evaluations += len(mqs) + len(impl_cases)
    rep.distinct.update(impl_cases)
    # type membership of every result (hidden element types included)
    tq, tq_idx = [], []
    for k, out in enumerate(io):
        if out.startswith("ok "):
            tq.append(f"(has-type {out[3:]} {ty_sx(meta[k][3])})")
            tq_idx.append(k)
    ta = dict(zip(tq_idx, common.run_cases(common.DRIVER, tq, timeout=900)))
    rep.evaluations += len(tq)
    per_fn = {}
    for k, out in enumerate(io):
        path, form, args, rty, mq, exp = meta[k]
        rep.count(f"L12.call.{form}")
        per_fn[path] = per_fn.get(path, 0) + 1
        case = impl_cases[k]
        if out.startswith("!"):
            violation(rep, f"{path}: the call does not return: {out}", case)
            continue
        if not out.startswith("ok "):
            violation(rep, f"{path}: arguments of the declared parameter types are answered with `{out}` instead of a value", case)
            continue
        if ta.get(k) != "true":
            violation(rep, f"{path}: result {out[3:]} does not inhabit the declared return type {ty_sx(rty)}", case)
        m = mo[mq]
        if m.startswith("ok "):
            rep.compared += 1
            if m != out:
                rep.disagreements.append({"lane": LANE, "case": case, "model": m, "impl": out, "model_case": mq})
        elif m == "!panic":
            rep.disagreements.append({"lane": LANE, "case": case, "model": "the model predicts a panic (unwrap/unreachable reached)",
                                      "impl": out, "model_case": mq})
        elif m != "unmodelled":
            rep.disagreements.append({"lane": LANE, "case": case, "model": m, "impl": out, "model_case": mq})
        if exp is not None and exp != out:
            violation(rep, f"{path}: implementation returns {out[3:]}, docs/stdlib.md (restated in Python) gives {exp[3:]}", case)
        short = path.split(".", 1)[1]
        if short in NAN_DOC and args:
            x = ffrom(args[0].py)
            for pred, cls in NAN_DOC[short]:
                if x == x and pred(x):
                    want = "(f nan)" if cls == "nan" else f"(f {fbits(float('-inf'))})"
                    if out[3:] != want:
                        violation(rep, f"{path}: documented special value {cls} not returned: {out[3:]}", case)
    for i in (0, len(impl_cases) // 4, len(impl_cases) // 2, 3 * len(impl_cases) // 4, len(impl_cases) - 1):
        if 0 <= i < len(impl_cases):
            rep.sample({"lane": LANE, "impl_case": impl_cases[i][:300], "impl": io[i][:300], "model": mo[meta[i][4]][:300],
                        "python": meta[i][5]})
    rep.dist["L12.functions-called"] = len(per_fn)
    return per_fn


def check_operators(rep, tier, live):
    """std.operators.* are SimpleSL functions over iterators: in-language only."""
    rnd = common.rng("L12ops")
    cases, expect, types = [], [], []
    int_lists = [[], [1], [1, 2, 3], [MAX, 1], [MIN, -1], [2 ** 62, 2, 2], [0xFF, 0x0F], [-1, 5], [3, 5, 6], [0, 0]]
    for _ in range(20 if tier == "thorough" else 6):
        int_lists.append([rnd.randint(MIN, MAX) for _ in range(rnd.randint(0, 5))])

    def arr(xs, f):
        return "[" + ", ".join(f(x) for x in xs) + "]"
    for xs in int_lists:
        lit = arr(xs, lambda z: v_int(z).lit)
        s = 0
        p = 1
        a = -1
        o = 0
        for z in xs:
            s, p, a, o = wrap(s + z), wrap(p * z), a & z, o | z
        for fn, val in (("int_sum", s), ("int_product", p), ("bitand_reduce", a), ("bitor_reduce", o)):
            cases.append(f'(run-t "{esc_prog(f"std.operators.{fn}({lit}~)")}")')
            expect.append(f"ok (i {val})")
            types.append("int")
    for xs in ([], [True], [False], [True, True], [True, False], [False, False, True]):
        lit = arr(xs, lambda b: "true" if b else "false")
        for fn, val in (("all", all(xs)), ("any", any(xs))):
            cases.append(f'(run-t "{esc_prog(f"std.operators.{fn}({lit}~)")}")')
            expect.append(f"ok (b {'true' if val else 'false'})")
            types.append("bool")
    for xs in ([], ["a"], ["a", "", "\u00e9\U0001F600"], ["x"] * 5):
        lit = arr(xs, lit_str)
        cases.append(f'(run-t "{esc_prog(f"std.operators.string_sum({lit}~)")}")')
        expect.append("ok (s " + sx_str("".join(xs)) + ")")
        types.append("string")
    for xs in ([], [1.5], [1.5, 2.25, -0.75], [1e308, 1e308], [0.1, 0.2, 0.3]):
        lit = arr(xs, lambda x: v_float(fbits(x)).lit)
        s, p = 0.0, 1.0
        for x in xs:
            s, p = s + x, p * x
        for fn, val in (("float_sum", s), ("float_product", p)):
            cases.append(f'(run-t "{esc_prog(f"std.operators.{fn}({lit}~)")}")')
            expect.append("ok " + sx_of_py(("f", fbits(val))))
            types.append("float")
    outs = common.run_cases(common.HARNESS, cases)
    rep.evaluations += len(cases)
    rep.distinct.update(cases)
    seen = set()
    for c, o, e, t in zip(cases, outs, expect, types):
        rep.count("L12.operators")
        seen.add(re.search(r"std\.operators\.(\w+)", c).group(0))
        if o.startswith("!"):
            violation(rep, f"std.operators call does not return: {o}", c)
        elif o != e:
            violation(rep, f"std.operators: implementation gives {o}, the built-in reduction it documents gives {e}", c)
    missing = [p for p in live if p.startswith("std.operators.") and p not in seen]
    if missing:
        rep.note(f"L12: operators not exercised: {missing}")
    return seen


# --------------------------------------------------------------------------- (c) fs / io
def fs_call(form, fn, *args):
    sx = "".join(" (s " + sx_str(a) + ")" for a in args)
    if form == "host":
        return f'(call-t "std.fs.{fn}"{sx})'
    if form == "wrapper":
        params = ", ".join(f"p{i}: string" for i in range(len(args)))
        call = f"std.fs.{fn}({', '.join('p%d' % i for i in range(len(args)))})"
        return f'(call-t "{esc_prog(f"({params}) -> any {{ return {call}; }}")}"{sx})'
    prog = f"std.fs.{fn}({', '.join(lit_str(a) for a in args)})"
    return f'(run-t "{esc_prog(prog)}")'


def check_fs(rep, tier):
    root = os.path.join(common.BUILD, f"tmp_std_{os.getpid()}")
    shutil.rmtree(root, ignore_errors=True)
    os.makedirs(root)
    is_root = (os.geteuid() == 0)
    steps = []     # (case, expectation, label, python post-check or None)
    step_calls = []
    forms = ["host", "wrapper", "literal"]

    def P(*parts):
        return os.path.join(root, *parts)

    def add(fn, args, expect, label, post=None, pre=None):
        form = forms[len(steps) % 3]
        steps.append((fs_call(form, fn, *args), expect, label, post, pre))
        step_calls.append((fn, list(args)))
    try:
        # --- missing things
        add("file_read_to_string", [P("missing.txt")], "err", "read missing file")
        add("remove_file", [P("missing.txt")], "err", "remove missing file")
        add("remove_dir", [P("missing_dir")], "err", "remove missing dir")
        add("remove_dir_all", [P("missing_dir")], "err", "remove_dir_all missing dir")
        add("copy_file", [P("missing.txt"), P("x.txt")], "err", "copy missing file")
        add("rename", [P("missing.txt"), P("x.txt")], "err", "rename missing file")
        add("write_to_file", [P("no_such_dir", "f.txt"), "x"], "err", "write below a missing directory")
        add("create_dir", [P("a", "b", "c")], "err", "create_dir with missing parents")
        # --- plain success paths
        add("write_to_file", [P("f.txt"), "h\u00e9llo\n\U0001F600"], "void", "write file",
            post=lambda: open(P("f.txt"), encoding="utf-8").read() == "h\u00e9llo\n\U0001F600")
        add("file_read_to_string", [P("f.txt")], ("str", "h\u00e9llo\n\U0001F600"), "read file back")
        add("write_to_file", [P("f.txt"), ""], "void", "overwrite existing file with empty contents",
            post=lambda: os.path.getsize(P("f.txt")) == 0)
        add("file_read_to_string", [P("f.txt")], ("str", ""), "read empty file")
        add("write_to_file", [P("f.txt"), "data"], "void", "write again")
        add("create_dir", [P("d")], "void", "create dir", post=lambda: os.path.isdir(P("d")))
        add("create_dir", [P("d")], "err", "create_dir on an existing directory (existing target)")
        add("create_dir", [P("f.txt")], "err", "create_dir on an existing file (existing target)")
        add("create_dir_all", [P("a", "b", "c")], "void", "nested create_dir_all", post=lambda: os.path.isdir(P("a", "b", "c")))
        add("create_dir_all", [P("a", "b", "c")], "void", "create_dir_all is idempotent")
        add("create_dir_all", [P("f.txt", "sub")], "err", "create_dir_all through a file component")
        # --- directory instead of file, file instead of directory
        add("file_read_to_string", [P("d")], "err", "read a directory")
        add("write_to_file", [P("d"), "x"], "err", "write to a directory")
        add("remove_file", [P("d")], "err", "remove_file on a directory")
        add("remove_dir", [P("f.txt")], "err", "remove_dir on a file")
        add("copy_file", [P("d"), P("y.txt")], "err", "copy a directory")
        add("copy_file", [P("f.txt"), P("d")], "err", "copy onto a directory")
        add("file_read_to_string", [P("f.txt", "below")], "err", "path through a file")
        # --- non-empty directory
        add("write_to_file", [P("d", "inner.txt"), "i"], "void", "file inside dir")
        add("remove_dir", [P("d")], "err", "remove_dir on a non-empty directory", post=lambda: os.path.isdir(P("d")))
        add("rename", [P("a"), P("d")], "err", "rename a directory over a non-empty directory")
        add("rename", [P("f.txt"), P("d")], "err", "rename a file over a directory")
        add("rename", [P("d"), P("f.txt")], "err", "rename a directory over a file")
        # --- existing target
        add("copy_file", [P("f.txt"), P("g.txt")], "void", "copy file",
            post=lambda: open(P("g.txt")).read() == "data")
        add("write_to_file", [P("g.txt"), "old target"], "void", "prepare existing target")
        add("copy_file", [P("f.txt"), P("g.txt")], "void", "copy over an existing target",
            post=lambda: open(P("g.txt")).read() == "data")
        add("copy_file", [P("f.txt"), P("f.txt")], "any", "copy a file onto itself")
        add("write_to_file", [P("h.txt"), "other"], "void", "prepare rename target")
        add("rename", [P("g.txt"), P("h.txt")], "void", "rename over an existing file",
            post=lambda: (not os.path.exists(P("g.txt"))) and open(P("h.txt")).read() == "data")
        add("rename", [P("h.txt"), P("h.txt")], "void", "rename onto itself")
        add("rename", [P("a"), P("a2")], "void", "rename a directory", post=lambda: os.path.isdir(P("a2", "b", "c")))
        add("create_dir", [P("empty")], "void", "empty directory")
        add("rename", [P("a2"), P("empty")], "void", "rename a directory over an empty directory",
            post=lambda: os.path.isdir(P("empty", "b", "c")))
        # --- odd paths
        add("file_read_to_string", [""], "err", "empty path")
        add("write_to_file", ["", "x"], "err", "write to the empty path")
        add("create_dir", [""], "err", "create_dir with the empty path")
        add("create_dir_all", [""], "any", "create_dir_all with the empty path")
        add("remove_dir_all", [""], "err", "remove_dir_all with the empty path")
        add("file_read_to_string", [P("nul\x00byte")], "err", "path containing NUL")
        add("write_to_file", [P("nul\x00byte"), "x"], "err", "write to a path containing NUL")
        add("rename", [P("f.txt"), P("nul\x00byte")], "err", "rename to a path containing NUL")
        add("create_dir", [P("n" * 300)], "err", "file name longer than NAME_MAX")
        add("write_to_file", [P("\u00fcn\u00ef\U0001F600.txt"), "u"], "void", "non-ASCII file name",
            post=lambda: os.path.exists(P("\u00fcn\u00ef\U0001F600.txt")))
        add("write_to_file", ["/dev/full", "x"], "err", "device reporting ENOSPC on write")
        add("file_read_to_string", ["/proc/self/mem"], "err", "unreadable special file")
        # --- contents that are not UTF-8
        add("file_read_to_string", [P("latin1.bin")], "err", "file that is not valid UTF-8",
            pre=lambda: open(P("latin1.bin"), "wb").write(b"caf\xe9\xff"))
        # --- symlinks
        add("file_read_to_string", [P("loop")], "err", "symlink loop", pre=lambda: os.symlink(P("loop"), P("loop")))
        add("file_read_to_string", [P("dangling")], "err", "dangling symlink",
            pre=lambda: os.symlink(P("nowhere"), P("dangling")))
        add("remove_file", [P("dangling")], "void", "remove a dangling symlink")
        # --- permissions
        def ro_file():
            open(P("ro.txt"), "w").write("ro")
            os.chmod(P("ro.txt"), 0o444)

        def ro_dir():
            os.makedirs(P("rodir", "sub"))
            open(P("rodir", "kept.txt"), "w").write("k")
            os.chmod(P("rodir"), 0o555)

        def noread():
            open(P("secret.txt"), "w").write("s")
            os.chmod(P("secret.txt"), 0o000)
        perm = "any" if is_root else "err"
        add("write_to_file", [P("ro.txt"), "new"], perm, "write to a read-only file", pre=ro_file)
        add("write_to_file", [P("rodir", "new.txt"), "n"], perm, "create a file in a read-only directory", pre=ro_dir)
        add("remove_file", [P("rodir", "kept.txt")], perm, "remove a file from a read-only directory")
        add("create_dir", [P("rodir", "newdir")], perm, "create a directory in a read-only directory")
        add("remove_dir", [P("rodir", "sub")], perm, "remove a directory from a read-only directory")
        add("rename", [P("f.txt"), P("rodir", "moved.txt")], perm, "rename into a read-only directory")
        add("remove_dir_all", [P("rodir")], "any", "remove_dir_all on a read-only directory")
        add("file_read_to_string", [P("secret.txt")], perm if is_root else "err", "read a file without read permission", pre=noread)
        # --- remove_dir_all on things that are not directories, then clean paths
        add("remove_dir_all", [P("f.txt")], "any", "remove_dir_all on a file")
        add("remove_dir_all", [P("d")], "void", "remove_dir_all on a non-empty directory",
            post=lambda: not os.path.exists(P("d")))
        add("remove_dir_all", [P("empty")], "void", "remove_dir_all on a nested tree", post=lambda: not os.path.exists(P("empty")))
        add("remove_dir", [P("empty")], "err", "remove_dir after removal")

        # one process, sequential: the steps depend on each other; pre/post actions need the
        # harness to answer step by step, so each step is its own process invocation
        for (case, expect, label, post, pre), (fn_, args_) in zip(steps, step_calls):
            if pre:
                try:
                    pre()
                except OSError as e:
                    rep.note(f"L12 fs: cannot set up `{label}`: {e}")
                    continue
            out = common._run_shard(common.HARNESS, [case], 60)[0]
            rep.evaluations += 1
            rep.distinct.add(case)
            rep.count("L12.fs")
            if fn_ == "file_read_to_string":
                # the result consumed by a `match` that is exhaustive for the DECLARED result type: a value
                # outside that type (e.g. an error struct whose code is not an int) falls through every arm
                prog = (f"match std.fs.{fn_}({', '.join(lit_str(a) for a in args_)}) " +
                        "{ e: struct{error_code: int, msg: string} => { 1 }, s: string => { 2 }, }")
                mcase = f'(run "{esc_prog(prog)}")'
                mout = common._run_shard(common.HARNESS, [mcase], 60)[0]
                rep.evaluations += 1
                rep.count("L12.fs.matched")
                common.attribute_panics(rep, "L12", [mcase], [mout])
                if not mout.startswith("!panic") and mout not in ("ok (i 1)", "ok (i 2)"):
                    violation(rep, f"fs `{label}`: an exhaustive match on the declared result type gives {mout[:120]}", mcase)
            shape_ok, kind = False, None
            if out.startswith("ok "):
                v = parse_sexp(out[3:])
                if v == "void":
                    shape_ok, kind = True, "void"
                elif isinstance(v, list) and v[0] == "s":
                    shape_ok, kind = True, "str"
                elif well_shaped_error(v):
                    shape_ok, kind = True, "err"
            if out.startswith("!"):
                violation(rep, f"fs `{label}`: the call does not return: {out}", case)
                continue
            if not shape_ok:
                violation(rep, f"fs `{label}`: result is neither (), a string, nor exactly struct{{error_code: int, msg: string}}: {out}", case)
                rep.violations.append({"property": "C01", "lane": "L12", "case": case,
                                       "what": f"std.fs result does not inhabit the declared result type (() | string | struct{{error_code: int, msg: string}}): {out[:200]}"})
                continue
            rep.count(f"L12.fs.{kind}")
            want = expect[0] if isinstance(expect, tuple) else expect
            if want != "any" and want != kind:
                if want == "err":
                    violation(rep, f"fs `{label}`: the operating system must refuse this, but the call reports success: {out}", case)
                else:
                    violation(rep, f"fs `{label}`: expected success, got {out}", case)
            if isinstance(expect, tuple) and kind == "str" and unquote(parse_sexp_str(out)) != expect[1]:
                violation(rep, f"fs `{label}`: contents read back differ: {out}", case)
            if post and kind != "err":
                try:
                    ok = post()
                except OSError as e:
                    ok = False
                if not ok:
                    violation(rep, f"fs `{label}`: the call reports success but the file system does not show its effect", case)
        if is_root:
            rep.note("L12 fs: running as root — permission faults (read-only file/directory, unreadable file) cannot be "
                     "produced; those steps only check that the call returns a well-shaped value. ENOSPC (/dev/full), "
                     "EISDIR, ENOTDIR, ENOENT, EEXIST, ENOTEMPTY, ELOOP, ENAMETOOLONG, NUL-in-path and non-UTF-8 "
                     "contents were produced.")
        rep.sample({"lane": LANE, "what": "file-system fault states", "steps": len(steps), "root": is_root})
    finally:
        for dirpath, dirnames, filenames in os.walk(root):
            try:
                os.chmod(dirpath, 0o755)
            except OSError:
                pass
        shutil.rmtree(root, ignore_errors=True)


def parse_sexp_str(out):
    """`ok (s "..")` -> the string token"""
    m = re.match(r'ok \(s ("(?:\\.|[^"\\])*")\)', out)
    return m.group(1) if m else '""'


def check_io(rep, tier):
    cases = []     # (case, check)

    def child(stdin, stdout, prog, form="run"):
        return f'(std-child {stdin} {stdout} ({form} "{esc_prog(prog)}"))'

    def want_line(s):
        return lambda res, out: res == "ok (s " + sx_str(s) + ")"

    def want_err(res, out):
        return res.startswith("ok ") and well_shaped_error(parse_sexp(res[3:]))
    g = "std.io.cgetline()"
    cases += [
        (child("null", "pipe", g), want_line(""), "cgetline: empty stdin"),
        (child('(text "abc\\ndef\\n")', "pipe", g), want_line("abc"), "cgetline: first line"),
        (child('(text "abc")', "pipe", g), want_line("abc"), "cgetline: no trailing newline"),
        (child('(text "\\n")', "pipe", g), want_line(""), "cgetline: empty line"),
        (child('(text "a\\r\\nb")', "pipe", g), want_line("a\r"), "cgetline: CRLF keeps the CR (only the newline is removed)"),
        (child('(text "h\\u{e9}\\u{1f600} x\\n")', "pipe", g), want_line("h\u00e9\U0001F600 x"), "cgetline: multi-byte"),
        (child('(text "a\\nb\\n")', "pipe", "x := std.io.cgetline(); y := std.io.cgetline(); z := std.io.cgetline(); [x, y, z]"),
         lambda res, out: res == 'ok (arr (s "a") (s "b") (s ""))', "cgetline: three calls, two lines"),
        (child("dir", "pipe", g), want_err, "cgetline: stdin is a directory (read fails)"),
        (child("(bytes 255 254 10)", "pipe", g), want_err, "cgetline: stdin is not UTF-8"),
        (child("(bytes 97 10 255)", "pipe", g), want_line("a"), "cgetline: invalid bytes after the first line"),
    ]
    # print: output is Display + newline, result ()
    vals = ["1", "(-5)", "2.5", "1e21", "true", '"h\\u{e9}\\n\\"q\\""', "()", "[]", "[1, 2]", '[1, "a", 2.5]', '(1, "x")',
            "struct{a := 1}", "[[[[[[[1]]]]]]]", "std.math.MIN_INT", "std.math.from_bits(9221120237041090560)", "mut 3",
            "std.len", "(x: int) -> int { return x; }"]
    for v in vals:
        prog = f"v := {v}; r := std.io.print(v); (r, std.convert.to_string(v))"
        cases.append((child("null", "pipe", prog), "print", f"print({v})"))
    for arr, sep in (("[]", '", "'), ("[1]", '", "'), ("[1, 2, 3]", '", "'), ('[1, "a", 2.5]', '""'), ("[[1], [2]]", '"\\n"')):
        prog = f"std.io.print_array({arr}, {sep})"
        cases.append((child("null", "pipe", prog), "print_array", f"print_array({arr}, {sep})"))
    cases.append((f'(std-child null pipe (call-t "std.io.print" (s "x\\ny")))',
                  lambda res, out: res == "ok void" and out == "x\ny\n", "print through the host API"))
    cases.append((f'(std-child null pipe (call-t "std.io.print_array" (arr (i 1) (s "a")) (s "-")))',
                  lambda res, out: res == "ok void" and out == "1-a\n", "print_array through the host API"))
    outs = [common._run_shard(common.HARNESS, [c], 60)[0] for c, _, _ in cases]
    rep.evaluations += len(cases)
    for (case, chk, label), o in zip(cases, outs):
        rep.count("L12.io")
        rep.distinct.add(case)
        if " ## out " not in o:
            violation(rep, f"io `{label}`: child harness failed: {o}", case)
            continue
        res, outq = o.rsplit(" ## out ", 1)
        printed = unquote(outq)
        if res.startswith("!"):
            violation(rep, f"io `{label}`: the call does not return: {res}", case)
            continue
        if chk == "print":
            m = re.match(r'ok \(tup void \(s ("(?:\\.|[^"\\])*")\)\)$', res)
            if not m:
                violation(rep, f"io `{label}`: print does not return (): {res}", case)
            elif printed != unquote(m.group(1)) + "\n":
                violation(rep, f"io `{label}`: printed text {printed!r} is not to_string + newline ({unquote(m.group(1))!r})", case)
        elif chk == "print_array":
            if res != "ok void" or not printed.endswith("\n"):
                violation(rep, f"io `{label}`: {res} / {printed!r}", case)
        elif not chk(res, printed):
            violation(rep, f"io `{label}`: unexpected answer {res} (stdout {printed!r})", case)
    # outside the stated quantifier (stdout is not a file-system state): a failing stdout
    o = common._run_shard(common.HARNESS, ['(std-child null full (run "std.io.print(1)"))'], 60)[0]
    rep.evaluations += 1
    if o.startswith("!panic") or " ## out " in o and o.split(" ## out ")[0].startswith("!panic"):
        rep.note("L12 OBSERVATION (outside C18's stated quantifier — stdout is not one of the file-system states): "
                 "`std.io.print(1)` with stdout = /dev/full panics (`println!`: failed printing to stdout: No space left "
                 "on device) instead of returning; same for print_array.")
    rep.sample({"lane": LANE, "what": "cgetline/print in child processes", "cases": len(cases)})


# --------------------------------------------------------------------------- entry point
def check_cyclic(rep):
    """values that contain themselves (only possible through a cell): every function that walks a value
    -- to_string, print, len of the text, equality with itself -- returns"""
    builds = {
        "cell-struct": "m := mut any (); m = struct{a := m};",
        "cell-array": "m := mut any (); m = [m, 1];",
        "cell-tuple": "m := mut any (); m = (m, 1);",
        "cell-cell": "m := mut any (); n := mut any m; m = n;",
        "cell-struct-array": "m := mut any (); m = struct{a := [struct{b := m}]};",
        "two-cells": "m := mut any (); n := mut any struct{x := m}; m = struct{y := n};",
    }
    uses = {
        "to_string": "std.len(std.convert.to_string(m)) > 0",
        "to_string-of-content": "std.len(std.convert.to_string(*m)) > 0",
        "in-array": "std.len(std.convert.to_string([m, m])) > 0",
        "self-equal": "m == m",
    }
    cases, meta = [], []
    for bn, b in builds.items():
        for un, u in uses.items():
            cases.append(f'(run "{esc_prog(b + " " + u)}")')
            meta.append((bn, un))
    # each case on its own: a stack overflow aborts the worker process
    for c, (bn, un) in zip(cases, meta):
        o = common._run_shard(common.HARNESS, [c], 60)[0]
        rep.evaluations += 1
        rep.compared += 1
        rep.count("L12.cyclic")
        if o != "ok (b true)":
            violation(rep, f"a self-containing value ({bn}) given to {un}: the call does not return a value ({o[:100]})", c)


def run(rep, tier):
    live = check_table(rep)
    if live is None:
        return
    check_docs(rep, live)
    per_fn = check_calls(rep, tier, live)
    ops = check_operators(rep, tier, live)
    check_fs(rep, tier)
    check_io(rep, tier)
    check_cyclic(rep)
    called = set(per_fn) | ops | {p for p in live if p.startswith("std.fs.") or p.startswith("std.io.")}
    never = sorted(p for p in live if p not in called)
    if never:
        rep.note(f"L12: exports never exercised: {never}")
    rep.dist["L12.exports"] = len(live)
    rep.exhaustive = False


if __name__ == "__main__":
    tier = sys.argv[1] if len(sys.argv) > 1 else "quick"
    r = common.Report(PROP, tier)
    run(r, tier)
    print("evaluations", r.evaluations, "compared", r.compared, "distinct", len(r.distinct))
    print("violations", len(r.violations))
    for v in r.violations[:40]:
        print("  V", v["what"][:300], "|", v["case"][:200])
    print("disagreements", len(r.disagreements))
    for d in r.disagreements[:40]:
        print("  D", str(d)[:500])
    for k in sorted(r.dist):
        print("  ", k, r.dist[k])
